/-
  Model/C17Prom — the built-in Prometheus metric processor down to the client-library call (C17).

  From the source (Extracted.C17Prom, regenerated every run): `cacheKey` (`__check_cache`'s f-string), `methods`
  (per operation: type name, client class, constructor keyword sources, documentation default, client operation,
  except clause).
  Hand-written here:
  * `call` — the common body of `counter/gauge/histogram/summary` (shape checked by the extractor): look the key up,
    else construct + store; `.labels(**labels)` iff the dict is non-empty; the client operation with the value;
    everything under the method's except clause.
  * the client library (`buildFullName`, `construct`, `childFor`, `applyOp`): my reading of prometheus_client 0.26
    (`_build_full_name`, `_validate_labelnames` with UTF-8 names allowed, `CollectorRegistry.register`'s duplicate
    check over the names a class exports, `MetricWrapperBase.labels`, `Counter.inc` / `Gauge.inc/dec/set` /
    `Histogram.observe` / `Summary.observe`).  Modelled, not verified: compared with the real library on every
    generated call sequence (values read back from the real default registry).
  Values: finite ones are integers in quarter units (the generators use multiples of 0.25, whose float sums are
  exact), plus nan / +inf / -inf with IEEE addition (`Val`).  The default registry is process-wide: `Plugin.foreign`
  are the names other collectors hold (the driver passes those of prometheus_client's default collectors, extracted).
  Label dicts have unique keys (they are Python dicts) and text values.
-/
import DeepModel.Extracted.C17Prom

namespace C17Prom
open Extracted.C17Prom

/-- a metric value as it reaches the processor: `float(expression)` may be any double — a finite one (here: an
    integer number of quarter units; the generators stay where float sums are exact), `nan`, `+inf`, `-inf`
    (`float('nan')`, the text "inf" … all pass `_process_metric`) -/
inductive Val
  | fin (q : Int)
  | nan
  | inf (neg : Bool)
deriving DecidableEq, Repr

/-- IEEE addition on that domain -/
def Val.add : Val → Val → Val
  | .nan, _ => .nan
  | _, .nan => .nan
  | .fin a, .fin b => .fin (a + b)
  | .fin _, .inf n => .inf n
  | .inf n, .fin _ => .inf n
  | .inf a, .inf b => if a = b then .inf a else .nan

def Val.negate : Val → Val
  | .fin a => .fin (-a)
  | .nan => .nan
  | .inf n => .inf (!n)

/-- `v < 0` (false for nan) -/
def Val.isNeg : Val → Bool
  | .fin a => decide (a < 0)
  | .nan => false
  | .inf n => n

structure Acc where
  count : Nat        -- counter / gauge: successful operations; histogram / summary: the exported `_count`
  sum : Val          -- counter total / gauge value / sum of observations
deriving DecidableEq, Repr

/-- a registered client metric object (the parent) with its children by label values, in creation order -/
structure Family where
  cls : Cls
  fullName : String
  doc : String
  labelNames : List String
  children : List (List String × Acc)
deriving DecidableEq, Repr

/-- the plugin's cache, in insertion order; every cached object is registered in the default registry -/
structure Plugin where
  cache : List (String × Family)
  foreign : List String      -- time-series names other collectors hold in the (process-wide) default registry
deriving DecidableEq, Repr

/-- a fresh plugin in a process whose default registry already holds the names `foreign` -/
def Plugin.fresh (foreign : List String) : Plugin := ⟨[], foreign⟩
def Plugin.empty : Plugin := Plugin.fresh []
def Plugin.withCache (p : Plugin) (c : List (String × Family)) : Plugin := ⟨c, p.foreign⟩
@[simp] theorem Plugin.withCache_cache (p : Plugin) (c : List (String × Family)) : (p.withCache c).cache = c := rfl
@[simp] theorem Plugin.withCache_foreign (p : Plugin) (c : List (String × Family)) : (p.withCache c).foreign = p.foreign := rfl

/-- arguments of one processor operation -/
structure Args where
  name : String
  labels : List (String × String)
  ns : Option String
  help : Option String
  unit : Option String
  value : Val
deriving DecidableEq, Repr

/-- Python truthiness of an optional text -/
def truthy (o : Option String) : Option String :=
  match o with
  | none => none
  | some s => if s.isEmpty then none else some s

def strArg (a : Args) : Src → Option String
  | .name => some a.name
  | .namespace => a.ns
  | .help => a.help
  | .unit => a.unit
  | _ => none

def keysArg (a : Args) : Src → Option (List String)
  | .labelKeys => some (a.labels.map (·.1))
  | .labels => some (a.labels.map (·.1))       -- iterating a dict gives its keys
  | _ => none

def numArg (a : Args) : Src → Option Val
  | .value => some a.value
  | _ => none

/-! ### the client library -/

def endsWith (s suf : List Char) : Bool := suf.isSuffixOf s

/-- `_build_full_name(type, name, namespace, '', unit)` + `_validate_metric_name`; none = ValueError -/
def buildFullName (cls : Cls) (name ns unit : Option String) : Option String :=
  match truthy name with
  | none => none
  | some nm =>
    let full : List Char := (match truthy ns with | some n => n.toList ++ ['_'] | none => []) ++ nm.toList
    let full := if cls = .counter && endsWith full "_total".toList then full.take (full.length - 6) else full
    let full := match truthy unit with
      | some u => if endsWith full ('_' :: u.toList) then full else full ++ '_' :: u.toList
      | none => full
    -- `_validate_metric_name`: the FINAL name must not be empty (a counter called `_total` without namespace / unit)
    if full.isEmpty then none else some (String.ofList full)

/-- the label names a class keeps for itself -/
def reservedLabel : Cls → String → Bool
  | .histogram, l => l = "le"
  | .summary, l => l = "quantile"
  | _, _ => false

def badLabelName (cls : Cls) (l : String) : Bool := Py.startsWith l "__" || reservedLabel cls l

/-- the time-series names a registered object of the class claims (`CollectorRegistry._get_names`) -/
def tsNames (cls : Cls) (full : String) : List String :=
  match cls with
  | .counter => [full, full ++ "_total", full ++ "_created"]
  | .gauge => [full]
  | .summary => [full, full ++ "_sum", full ++ "_count", full ++ "_created"]
  | .histogram => [full, full ++ "_bucket", full ++ "_sum", full ++ "_count", full ++ "_created"]

def registryNames (p : Plugin) : List String :=
  p.foreign ++ p.cache.flatMap (fun kf => tsNames kf.2.cls kf.2.fullName)

def Acc.zero : Acc := ⟨0, .fin 0⟩

/-- `Cls(name=…, documentation=…, labelnames=…, namespace=…, unit=…)` against the registry holding the plugin's
    objects; none = the constructor raises (nothing is registered) -/
def construct (p : Plugin) (m : Method) (a : Args) : Option Family :=
  match buildFullName m.cls (strArg a m.ctorName) (strArg a m.ctorNamespace) (strArg a m.ctorUnit), keysArg a m.ctorLabelnames with
  | some full, some keys =>
    if keys.any (badLabelName m.cls) then none
    else if (tsNames m.cls full).any (registryNames p).contains then none
    else
      let doc := if m.docHasDefault then (truthy (strArg a m.ctorDoc)).getD m.docDefault else (strArg a m.ctorDoc).getD "None"
      -- an object without label names is observable at once: its one time series exists from the start
      some ⟨m.cls, full, doc, keys, if keys.isEmpty then [([], Acc.zero)] else []⟩
  | _, _ => none

/-- `parent.labels(**labels)`: the label values in the order of the parent's label names; none = ValueError
    (no label names on the parent / other names than the parent's) -/
def childFor (f : Family) (labels : List (String × String)) : Option (List String) :=
  if f.labelNames.isEmpty then none
  else if labels.length == f.labelNames.length && labels.all (fun kv => f.labelNames.contains kv.1) then
    some (f.labelNames.map (fun n => (labels.lookup n).getD ""))
  else none

/-- the operation on one observable object; none = it raises (no such method on the class, negative counter step).
    `Counter.inc` refuses `amount < 0` (nan is not `< 0`); `Histogram.observe` puts the value into the first bucket
    with `amount <= bound` — none for nan, so the exported `_count` (the +Inf bucket) does not move; `Summary.observe`
    counts every observation. -/
def applyOp (cls : Cls) (op : ClientOp) (v : Val) (acc : Acc) : Option Acc :=
  match cls, op with
  | .counter, .inc => if v.isNeg then none else some ⟨acc.count + 1, acc.sum.add v⟩
  | .gauge, .inc => some ⟨acc.count + 1, acc.sum.add v⟩
  | .gauge, .dec => some ⟨acc.count + 1, acc.sum.add v.negate⟩
  | .gauge, .set => some ⟨acc.count + 1, v⟩
  | .histogram, .observe => some ⟨if v = .nan then acc.count else acc.count + 1, acc.sum.add v⟩
  | .summary, .observe => some ⟨acc.count + 1, acc.sum.add v⟩
  | _, _ => none

/-- how the exported operation count moves with one accepted operation -/
def countAfter (cls : Cls) (v : Val) (n : Nat) : Nat := if cls = .histogram ∧ v = .nan then n else n + 1

/-- the time series a report addresses in an object with label names `names`: the report's label values in the
    order of the object's label names; the one unlabelled series when the report has no labels -/
def reportSeries (names : List String) (labels : List (String × String)) : List String :=
  if labels.isEmpty then [] else names.map (fun n => (labels.lookup n).getD "")

/-! ### the plugin -/

inductive Outcome
  | ok
  | ctorRaised        -- the client constructor refused (name, label names, duplicate time series)
  | labelsRaised      -- `.labels(**labels)` refused
  | notObservable     -- operation on a parent with label names and no label values
  | opRaised          -- the operation refused (negative counter step, no such operation)
deriving DecidableEq, Repr

def Outcome.isOk : Outcome → Bool
  | .ok => true
  | _ => false

/-- the class of what the client library raises for an outcome: ValueError (constructor, `.labels`, not observable,
    negative step), AttributeError (no such operation), TypeError (no value) — all of them `Exception`s -/
def Outcome.raises : Outcome → Option Py.Exn
  | .ok => none
  | _ => some .exc

/-- does an `except <guard>` clause catch an exception of class `cls` (`except Exception` does not catch a bare
    BaseException) -/
def catches (guard : Option Py.Exn) (cls : Py.Exn) : Bool :=
  match guard, cls with
  | none, _ => false
  | some .base, _ => true
  | some .exc, .exc => true
  | some .exc, .base => false

/-- `d[k] = v` on an insertion-ordered dict -/
def assocSet {α β : Type} [DecidableEq α] (c : List (α × β)) (k : α) (v : β) : List (α × β) :=
  match c with
  | [] => [(k, v)]
  | (k', v') :: rest => if k' = k then (k', v) :: rest else (k', v') :: assocSet rest k v

abbrev setChild (cs : List (List String × Acc)) (lv : List String) (acc : Acc) := assocSet cs lv acc
abbrev setFamily (c : List (String × Family)) (key : String) (f : Family) := assocSet c key f

def accOf (f : Family) (lv : List String) : Acc := (f.children.lookup lv).getD Acc.zero

/-- which object the operation is called on: `.labels(**labels)` iff the dict is non-empty, else the parent itself
    (observable only without label names) -/
def targetOf (f : Family) (a : Args) : Except Outcome (List String) :=
  if !a.labels.isEmpty then
    match childFor f a.labels with
    | some lv => .ok lv
    | none => .error .labelsRaised
  else if f.labelNames.isEmpty then .ok [] else .error .notObservable

/-- the part of an operation after the cache: labels, then the client operation on the object found -/
def useFamily (p : Plugin) (m : Method) (key : String) (f : Family) (a : Args) : Plugin × Outcome :=
  match targetOf f a with
  | .error o => (p, o)
  | .ok lv =>
    -- `.labels()` creates the child (value 0) before the operation is tried
    let acc := accOf f lv
    match (numArg a m.opArg).bind (fun v => applyOp f.cls m.op v acc) with
    | none => (p.withCache (setFamily p.cache key { f with children := setChild f.children lv acc }), .opRaised)
    | some acc' => (p.withCache (setFamily p.cache key { f with children := setChild f.children lv acc' }), .ok)

/-- one operation of the plugin (`counter` / `gauge` / `histogram` / `summary`, given by its `Method` record) -/
def call (p : Plugin) (m : Method) (a : Args) : Plugin × Outcome :=
  let key := cacheKey a.name m.typeName
  match p.cache.lookup key with
  | some f => useFamily p m key f a
  | none =>
    match construct p m a with
    | none => (p, .ctorRaised)
    | some f => useFamily (p.withCache (p.cache ++ [(key, f)])) m key f a

/-- does the failure leave the plugin operation as an exception (no except clause) -/
def propagates (m : Method) (o : Outcome) : Bool :=
  match o.raises with
  | none => false
  | some cls => !catches m.guard cls

/-- a request: operation name + arguments.  An unknown operation name is not a call of the plugin. -/
def callNamed (p : Plugin) (op : String) (a : Args) : Plugin × Option Outcome :=
  match methods.lookup op with
  | some m => let r := call p m a; (r.1, some r.2)
  | none => (p, none)

def run (p : Plugin) : List (String × Args) → Plugin × List (Option Outcome)
  | [] => (p, [])
  | (op, a) :: rest =>
    let r := callNamed p op a
    let rr := run r.1 rest
    (rr.1, r.2 :: rr.2)

/-- `clear()` -/
def clear (p : Plugin) : Plugin := if clearEmptiesCache then p.withCache [] else p

/-- what a scrape of the registry shows for the plugin's objects -/
def sampleOf (p : Plugin) (key : String) (lv : List String) : Option Acc :=
  (p.cache.lookup key).bind (fun f => f.children.lookup lv)

end C17Prom
