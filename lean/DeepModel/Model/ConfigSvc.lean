/-
  Model/ConfigSvc — the agent's tracepoint configuration as a state machine (C12, C13).

  The state transformers of `TracepointConfigService`, `LongPoll.poll` and `TriggerHandler.new_config` are
  `Extracted.ConfigSvc.*`, regenerated from the Python source on every run.  This file adds:
    * what a poll *response* is (`RawTp`, `convertResponse`) and how a failed poll meets the timer loop,
    * the background tasks: `update_listeners` runs on a pool thread in four atomic regions —
        `taskStart`   (the statements before the update lock; the task then stands in front of the lock)
        `taskRead`    (take the update lock, run the statements before the listener loop)
        `taskCall`    (evaluate the listener's argument: that local ++ the custom list as it is *then*)
        `taskInstall` (the listener stores it in the handler; lock released)
      any number of workers, any order; with the lock a second task cannot enter `taskRead` while one holds a value,
    * a reference machine `Ref` kept from the property statement (latest update, live registrations).
-/
import DeepModel.Extracted.ConfigSvc

namespace ConfigSvc
open Extracted.ConfigSvc

/-- one tracepoint of a poll response -/
structure RawTp where
  trig : Trig
  /-- `build_trigger` can interpret it (known stage) -/
  interpretable : Bool
  /-- its metric definitions convert (`MetricType.Name` knows the type); one that does not is skipped by
      `convert_response` (its `try … except Exception: continue`), like one `build_trigger` cannot interpret -/
  convertible : Bool
deriving Repr, DecidableEq

/-- `convert_response(response.response)`; `none` = it raised (an `Exception`) -/
def convertResponse (tps : List RawTp) : Option (List Trig) :=
  if !skipsUnconvertible && tps.any (fun r => !r.convertible) then none
  else
    let ok := tps.filter (·.convertible)
    if skipsUninterpretable then some ((ok.filter (·.interpretable)).map (·.trig))
    else if ok.all (·.interpretable) then some (ok.map (·.trig))
    else none

/-- a task inside the locked part of `update_listeners`: its locals, and the listener's argument once evaluated -/
structure Hold where
  loc : Locals
  val : List Trig
  argBuilt : Bool
deriving Repr, DecidableEq

structure St where
  svc : Svc
  /-- tasks that ran the statements before the lock and have not taken it yet (any number) -/
  pre : List Locals
  /-- tasks between taking the lock and their install (at most one when the lock is there) -/
  holding : List Hold
  h : Handler
  timerAlive : Bool
deriving Repr, DecidableEq

def St.init : St := ⟨Svc.init, [], [], ⟨[], false⟩, true⟩

inductive Op
  /-- a `PollResponse` arrived -/
  | poll (rt : RespType) (ts : Int) (hash : String) (tps : List RawTp)
  /-- `stub.poll` raised (connection error, garbage instead of a response, …) -/
  | pollFail (e : Py.Exn)
  | register (t : Trig)
  /-- `register_tracepoint` with arguments `build_trigger` cannot interpret (it returns None) -/
  | registerBad
  | unregister (h : Handle)
  | taskStart (i : Nat)
  | taskRead (k : Nat)
  | taskCall (k : Nat)
  | taskInstall (k : Nat)
  /-- the four regions of task `i` back to back (what a deterministic executor does) -/
  | applyTask (i : Nat)
  /-- `LongPoll.start`: the timer thread starts; `text` = POLL_TIMER is a `str` -/
  | timerStart (text : Bool)
deriving Repr, DecidableEq

abbrev Op.pollUpdate (ts : Int) (h : String) (tps : List RawTp) : Op := .poll .update ts h tps
abbrev Op.pollNoChange (ts : Int) : Op := .poll .noChange ts "" []
abbrev Op.pollError : Op := .pollFail .exc

def timerCatches : Py.Exn → Bool
  | .exc => timerCatchesException
  | .base => timerCatchesBase

/-- the poll raised inside `RepeatedTimer._target`: the service is untouched, the loop survives iff caught -/
def pollFail (s : St) (e : Py.Exn) : St := { s with timerAlive := s.timerAlive && timerCatches e }

def pollResp (s : St) (rt : RespType) (ts : Int) (h : String) (tps : List RawTp) : St :=
  if pollNeedsConfig rt then
    match convertResponse tps with
    | none => pollFail s .exc
    | some cfg => { s with svc := pollDispatch s.svc rt ts h cfg }
  else { s with svc := pollDispatch s.svc rt ts h [] }

def step (locked : Bool) (s : St) : Op → St
  | .poll rt ts h tps => pollResp s rt ts h tps
  | .pollFail e => pollFail s e
  | .register t => { s with svc := (addCustom s.svc (some t)).1 }
  | .registerBad => { s with svc := (addCustom s.svc none).1 }
  | .unregister h => { s with svc := removeCustom s.svc h }
  | .taskStart i =>
    match s.svc.queued[i]? with
    | none => s
    | some t => { s with svc := { s.svc with queued := s.svc.queued.eraseIdx i },
                         pre := s.pre ++ [listenerPre s.svc (Locals.init t.captured)] }
  | .taskRead k =>
    match s.pre[k]? with
    | none => s
    | some l =>
      if locked && !s.holding.isEmpty then s
      else { s with pre := s.pre.eraseIdx k, holding := s.holding ++ [⟨listenerRead s.svc l, [], false⟩] }
  | .taskCall k =>
    match s.holding[k]? with
    | none => s
    | some v => if v.argBuilt then s else { s with holding := s.holding.set k ⟨v.loc, listenerArg s.svc v.loc, true⟩ }
  | .taskInstall k =>
    match s.holding[k]? with
    | none => s
    | some v => if v.argBuilt then { s with holding := s.holding.eraseIdx k, h := newConfig s.h v.val } else s
  | .applyTask i =>
    match s.svc.queued[i]? with
    | none => s
    | some t =>
      if locked && !s.holding.isEmpty then s
      else { s with svc := { s.svc with queued := s.svc.queued.eraseIdx i },
                    h := newConfig s.h
                      (listenerArg s.svc (listenerRead s.svc (listenerPre s.svc (Locals.init t.captured)))) }
  | .timerStart text => { s with timerAlive := s.timerAlive && (intervalCoerced || !text) }

/-- the ops of the background tasks (no poll, no register / unregister) -/
def Op.isTask : Op → Bool
  | .taskStart _ | .taskRead _ | .taskCall _ | .taskInstall _ | .applyTask _ => true
  | _ => false

def runFrom (locked : Bool) (s : St) (ops : List Op) : St := ops.foldl (step locked) s

/-- the agent as it is: the lock fact comes from the source -/
def run (ops : List Op) : St := runFrom applyLocked St.init ops

/-- live registrations as (handle, tracepoint) pairs -/
def regs (s : St) : List (Handle × Trig) := s.svc.customIds.zip s.svc.custom

/-- handle returned by `register` in state `s` -/
def registerHandle (s : St) (t : Option Trig) : Handle := (addCustom s.svc t).2

/-- nothing in flight -/
def quiescent (s : St) : Bool := s.svc.queued.isEmpty && s.pre.isEmpty && s.holding.isEmpty

/-! ### register / unregister on a closed task handler (after `TaskHandler.flush()`) -/

/-- `Deep.register_tracepoint` when `submit_task` refuses with `refusal`: the state left (the regenerated statements up
    to the raising call — nothing after it), the handle if the call returned one, the exception if it did not -/
def registerClosed (v : Svc) (built : Option Trig) (refusal : Py.Exn) : Svc × Option Handle × Option Py.Exn :=
  ((addCustomRefused v built).1, (addCustomRefused v built).2,
   if (addCustomRefused v built).2.isNone then some refusal else none)

def unregisterClosed (v : Svc) (h : Handle) (refusal : Py.Exn) : Svc × Option Py.Exn :=
  ((removeCustomRefused v h).1, if (removeCustomRefused v h).2 then some refusal else none)

inductive ClosedOp where
  | register (built : Option Trig)
  | unregister (h : Handle)
deriving Repr, DecidableEq

def closedStep (refusal : Py.Exn) (v : Svc) : ClosedOp → Svc
  | .register b => (registerClosed v b refusal).1
  | .unregister h => (unregisterClosed v h refusal).1

/-! ### reference kept from the statement -/

structure Ref where
  /-- the most recent configuration the service sent: (hash, tracepoints the agent can interpret) -/
  latest : Option (String × List Trig)
  /-- number of registrations made so far (the next handle) -/
  n : Nat
  /-- registrations made and not yet unregistered -/
  live : List (Handle × Trig)
deriving Repr, DecidableEq

def Ref.init : Ref := ⟨none, 0, []⟩

def refStep (r : Ref) : Op → Ref
  | .poll .update _ h tps =>
    { r with latest := some (h, (tps.filter (fun t => t.convertible && t.interpretable)).map (·.trig)) }
  | .register t => { r with n := r.n + 1, live := r.live ++ [(r.n, t)] }
  | .registerBad => { r with n := r.n + 1 }
  | .unregister h => { r with live := r.live.filter (fun p => p.1 != h) }
  | _ => r

def refRun (ops : List Op) : Ref := ops.foldl refStep Ref.init

def Ref.config (r : Ref) : List Trig := (r.latest.map (·.2)).getD []
def Ref.hash (r : Ref) : Option String := r.latest.map (·.1)
/-- what the agent must act on once activity settles -/
def Ref.expected (r : Ref) : List Trig := r.config ++ r.live.map (·.2)

end ConfigSvc
