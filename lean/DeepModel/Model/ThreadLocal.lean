/-
  Model/ThreadLocal — all threads operating on ONE `deep.thread_local.ThreadLocal` instance (C15).

  What a method does to the calling thread's slot is not written here: `get`, `set`, `clear`, `isSet`, `valueGet`,
  `valueSet` are `Extracted.ThreadLocal.*`, regenerated from src/deep/thread_local.py on every run.  This file adds

    * `opStep`   — one operation of the calling thread on its own slot (dispatch to the translated methods; `update f` is
                   the idiom `tl.get().<mutate in place>` — `self._callbacks.get().append(ctx)` in `__trace_call`);
    * `stepK key` / `runK key` — the machine of all threads for a store keyed by `key t`.  `key = id` (`stepT`/`runT`) is
                   `threading.local()`: the interpreter keeps one namespace per (local object, thread state), so the key
                   is the thread OBJECT — two threads never share it, even when the OS hands the ident of a finished
                   thread to a new one (trusted base: CPython's `_thread._local`).  Any other `key` (e.g. the thread
                   ident, which is what the class used before 0ec78d1) is there to state why that matters.

  Thread objects are never reused: a new thread is a new `Thr`; a finished thread simply does not act any more.
  `calls` (how often the instance's default provider was called) is shared by all threads: it belongs to the instance.
-/
import DeepModel.Extracted.ThreadLocal

namespace TLocal
open Extracted.ThreadLocal

inductive Op (α : Type)
  | get
  | set (v : Option α)
  | clear
  | isSet
  | valueGet
  | valueSet (v : Option α)
  | update (f : α → α)        -- `tl.get().m(..)` where `m` mutates the returned object in place

inductive Res (α : Type)
  | val (v : Option α)         -- the value returned by get / value
  | flag (b : Bool)            -- is_set
  | unit
  | raised                     -- an exception leaves the method (AttributeError, or the provider's own)
deriving DecidableEq, Repr

/-- one operation of the calling thread on ITS slot.  `dp k` = what the k-th call of the instance's default provider
    does: `some v` = returns `v` (`v = none`: returns `None`), `none` = raises. -/
def opStep {α : Type} [DecidableEq α] (dp : Nat → Option (Option α)) (calls : Nat) (slot : Slot α) :
    Op α → Slot α × Nat × Res α
  | .get => match tlGet dp calls slot with
    | (s, c, none) => (s, c, .raised)
    | (s, c, some v) => (s, c, .val v)
  | .set v => match tlSet dp v calls slot with
    | (s, c, none) => (s, c, .raised)
    | (s, c, some _) => (s, c, .unit)
  | .clear => match tlClear dp calls slot with
    | (s, c, none) => (s, c, .raised)
    | (s, c, some _) => (s, c, .unit)
  | .isSet => match tlIsSet dp calls slot with
    | (s, c, none) => (s, c, .raised)
    | (s, c, some b) => (s, c, .flag b)
  | .valueGet => match tlValueGet dp calls slot with
    | (s, c, none) => (s, c, .raised)
    | (s, c, some v) => (s, c, .val v)
  | .valueSet v => match tlValueSet dp v calls slot with
    | (s, c, none) => (s, c, .raised)
    | (s, c, some _) => (s, c, .unit)
  | .update f => match tlGet dp calls slot with
    | (s, c, none) => (s, c, .raised)                      -- the provider raised
    | (s, c, some none) => (s, c, .raised)                 -- `None.append(..)`: AttributeError
    | (s, c, some (some v)) =>
      -- the mutation is visible in the store iff `get` handed out the stored object.  ("Same object" is decided by
      -- VALUE equality here: a `get` that stored a copy would look the same — excluded only by the extractor's
      -- vocabulary, in which the stored and the returned expression are one local.)
      (if s = some (some v) then some (some (f v)) else s, c, .unit)

abbrev Thr := Nat

structure St (κ α : Type) where
  store : κ → Slot α
  calls : Nat

def St.empty {κ α : Type} : St κ α := ⟨fun _ => none, 0⟩

/-- one operation of thread `t` on a store keyed by `key t` -/
def stepK {κ α : Type} [DecidableEq κ] [DecidableEq α] (key : Thr → κ) (dp : Nat → Option (Option α)) (S : St κ α)
    (te : Thr × Op α) : St κ α × Res α :=
  let r := opStep dp S.calls (S.store (key te.1)) te.2
  (⟨fun k => if k = key te.1 then r.1 else S.store k, r.2.1⟩, r.2.2)

def runK {κ α : Type} [DecidableEq κ] [DecidableEq α] (key : Thr → κ) (dp : Nat → Option (Option α)) :
    St κ α → List (Thr × Op α) → St κ α × List (Thr × Res α)
  | S, [] => (S, [])
  | S, te :: rest =>
    let r1 := stepK key dp S te
    let r2 := runK key dp r1.1 rest
    (r2.1, (te.1, r1.2) :: r2.2)

/-- `threading.local()`: keyed by the thread object -/
def stepT {α : Type} [DecidableEq α] (dp : Nat → Option (Option α)) (S : St Thr α) (te : Thr × Op α) : St Thr α × Res α :=
  stepK id dp S te

def runT {α : Type} [DecidableEq α] (dp : Nat → Option (Option α)) (S : St Thr α) (gs : List (Thr × Op α)) :
    St Thr α × List (Thr × Res α) :=
  runK id dp S gs

/-- the operations of thread `t` in a schedule -/
def projOps {α : Type} (t : Thr) (gs : List (Thr × Op α)) : List (Op α) :=
  gs.filterMap (fun te => if te.1 = t then some te.2 else none)

def projRes {α : Type} (t : Thr) (rs : List (Thr × Res α)) : List (Res α) :=
  rs.filterMap (fun te => if te.1 = t then some te.2 else none)

/-- a thread alone: its slot and the results of its operations -/
def solo {α : Type} [DecidableEq α] (dp : Nat → Option (Option α)) : Nat → Slot α → List (Op α) → Slot α × List (Res α)
  | _, slot, [] => (slot, [])
  | calls, slot, op :: ops =>
    let r := opStep dp calls slot op
    let r2 := solo dp r.2.1 r.1 ops
    (r2.1, r.2.2 :: r2.2)

end TLocal
