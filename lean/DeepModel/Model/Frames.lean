/-
  Model/Frames — a whole snapshot of a paused thread (C02).

  `snapshot` composes, exactly as `SnapshotActionContext._process_action` does:
    * the walk over the `f_back` chain (`walk`) with one `StackFrame` per real frame, built by
      `Extracted.Frames.processFrame` (file, short path, function, line, class of `self`, app flag);
    * the variable collector of the colleague model (`Collector.collect`: one table and one identity cache for all
      frames, then the watches) for the frames `Extracted.Frames.shouldCollectVars` selects;
    * the watch values: the object `eval` returns in the frame `Extracted.Frames.evalLocalsHops` steps up the stack
      (the eval oracle is indexed by frame);
    * the tracepoint echo `Extracted.Frames.tracepointOf`.
  Every decision is a definition regenerated from the Python source; this file is glue.  Core Lean only.

  `Spec` (bottom): the readable description the theorems refine to.  Its frame / frame_type / count-vs-text /
  children-by-kind / truncation / echo parts come from the property statement; the conventions it adopts from the code
  (scalar type names, exact-`dict` and type-*name* tests, fall-backs, depth rule, de-mangling, modifiers, prefix tests)
  are listed in the header of Props/C02.lean.  `snapshot` models a line / call event with no log message; the log and
  return / exception capture variants are not modelled here.
-/
import DeepModel.Extracted.Frames
import DeepModel.Model.Collector

namespace Frames
open Heap Collector FrameBase Extracted.Frames

/-- APP_ROOT / IN_APP_INCLUDE / IN_APP_EXCLUDE as the config service resolves them -/
structure AppCfg where
  root : String
  incl : List String
  excl : List String
deriving Repr

/-- the `f_back` chain of the paused frame, top first -/
abbrev Stack := List RawFrame

/-- `f_locals.get(name)` as far as the class-name rule looks at it: `none` = no such local, or `None`; else the
    outcome of reading its `__class__.__name__` -/
def localSelf (fr : RawFrame) (name : String) : Option (Option String) :=
  (fr.classes.find? (fun e => e.1 == name)).map (·.2)

/-- `_process_frame` for one real frame, given the variable references the collector produced for it -/
def frameRecord (H : Heap) (app : AppCfg) (fr : RawFrame) (vars : List VarId) : StackFrame VarId :=
  processFrame app.incl app.excl app.root fr vars (classNameOf (localSelf fr))

/-- the frames `FrameCollector.collect` visits, in order -/
def visited (stack : Stack) : Stack := stack.drop walkSkip

def walkFrom (H : Heap) (app : AppCfg) : Stack → List (List VarId) → List (StackFrame VarId)
  | [], _ => []
  | fr :: rest, vs => frameRecord H app fr (vs.headD []) :: walkFrom H app rest vs.tail

/-- `FrameCollector.collect`: one `StackFrame` per visited frame; `vars` = the collector's result per frame -/
def walk (H : Heap) (app : AppCfg) (stack : Stack) (vars : List (List VarId)) : List (StackFrame VarId) :=
  walkFrom H app (visited stack) vars

/-- does frame `idx` get its variables collected: `should_collect_vars(idx) and not time_exceeded` -/
def varsCollected (config : Cfg) (timeUp : Nat → Bool) (idx : Nat) : Bool :=
  shouldCollectVars config (idx : Int) && !timeUp idx

def frameInsFrom (config : Cfg) (timeUp : Nat → Bool) : Nat → Stack → List FrameIn
  | _, [] => []
  | i, fr :: rest => ⟨fr.locals, varsCollected config timeUp i⟩ :: frameInsFrom config timeUp (i + 1) rest

def frameIns (config : Cfg) (timeUp : Nat → Bool) (stack : Stack) : List FrameIn :=
  frameInsFrom config timeUp 0 (visited stack)

def limitOf (config : Cfg) (key : String) (dflt : Nat) : Nat :=
  match Cfg.getD config key (.num dflt) with
  | .num n => n.toNat
  | _ => dflt

/-- `SnapshotActionContext.collection_config` -/
def limitsOf (config : Cfg) : Limits :=
  { maxVars := limitOf config "MAX_VARIABLES" Extracted.Collector.defaultMaxVars,
    maxStr := limitOf config "MAX_STRING_LENGTH" Extracted.Collector.defaultMaxStr,
    maxColl := limitOf config "MAX_COLLECTION_SIZE" Extracted.Collector.defaultMaxColl,
    maxDepth := limitOf config "MAX_VAR_DEPTH" Extracted.Collector.defaultMaxDepth }

/-- the eval oracle: `ev k e` = the object `eval(e, globals, locals)` yields in the frame `k` steps up the stack
    (an exception raised by the expression is that object, as `evaluate_expression` returns it) -/
abbrev EvalOracle := Nat → String → ObjId

def watchIns (config : Cfg) (ev : EvalOracle) : List WatchIn :=
  (watchesOf config).map (fun w => ⟨.watch, w, ev evalLocalsHops w⟩)

def actionIn (config : Cfg) (timeUp : Nat → Bool) (stack : Stack) (ev : EvalOracle) : ActionIn :=
  ⟨limitsOf config, frameIns config timeUp stack, watchIns config ev⟩

structure Snapshot where
  tracepoint : TracePointConfig
  frames : List (StackFrame VarId)
  table : List Entry
  watches : List WatchOut
deriving Repr

/-- `SnapshotActionContext._process_action` (no log message configured, line or call event) -/
def snapshot (H : Heap) (tpId path : String) (line : Int) (config : Cfg) (app : AppCfg) (timeUp : Nat → Bool)
    (stack : Stack) (ev : EvalOracle) : Except String Snapshot :=
  match Collector.collect H (actionIn config timeUp stack ev) with
  | .failed m => .error m
  | .ok s => .ok ⟨tracepointOf tpId path line config, walk H app stack s.frames, s.table, s.watches⟩

/-! ## the description the theorems refine to (statement + the code's conventions, see Props/C02.lean) -/
namespace Spec

/-- frame_type: `all_frame` = every frame, `no_frame` = none, anything else = the paused frame only -/
def collects (frameType : Option String) (idx : Nat) : Prop :=
  frameType = some "all_frame" ∨ (frameType ≠ some "no_frame" ∧ idx = 0)

/-- the configured frame type as text (`none` = not configured, or not a text) -/
def textOf : CfgVal → Option String
  | .text s => some s
  | _ => none

def frameTypeOf (config : Cfg) : Option String :=
  (config.find? (fun e => e.1 == "frame_type")).bind (fun e => textOf e.2)

/-- app frame / short path: the first matching excluded prefix makes it a library frame, else the first matching
    included prefix or the app root makes it an app frame; the matched prefix is cut off the path -/
def appFrame (app : AppCfg) (file : String) : Bool × String :=
  match app.excl.find? (fun p => Py.startsWith file p) with
  | some p => (false, Py.sliceFrom file (Py.len p))
  | none =>
    match (app.incl ++ [app.root]).find? (fun p => Py.startsWith file p) with
    | some p => (true, Py.sliceFrom file (Py.len p))
    | none => (false, file)

/-- class of `self`: the name of the class the local `self` reports (`self.__class__.__name__` — what `isinstance` and
    the developer reading the method see; for ordinary objects the same as `type(self).__name__`); nothing when the
    frame has no `self`, it is `None`, or its class cannot be read -/
def classOfSelf (fr : RawFrame) : Option String :=
  match fr.classes.find? (fun e => e.1 == "self") with
  | some (_, some n) => some n
  | _ => none

/-- one frame of the real stack as a snapshot must show it -/
structure FrameView where
  file : String
  short : String
  func : String
  line : Int
  cls : Option String
  app : Bool
deriving Repr, DecidableEq

def frameView (H : Heap) (app : AppCfg) (fr : RawFrame) : FrameView :=
  ⟨fr.co_filename, (appFrame app fr.co_filename).2, fr.co_name, fr.f_lineno, classOfSelf fr,
   (appFrame app fr.co_filename).1⟩

def viewOf (s : StackFrame VarId) : FrameView :=
  ⟨s.file_name, s.short_path, s.method_name, s.line_number, s.class_name, s.app_frame⟩

def isIterator (o : PyObj) : Bool := o.tyName == "list_iterator" || o.tyName == "list_reverseiterator" ||
  o.tyName == "listiterator" || o.tyName == "listreverseiterator"

def isSeq (o : PyObj) : Bool :=
  o.tyName == "list" || o.tyName == "tuple" || o.tyName == "set" || o.tyName == "frozenset"

def isContainer (o : PyObj) : Bool := o.isDictExact || isSeq o

/-- types whose values are shown as text only — the code's NO_CHILD_TYPES taken over as a convention (the statement only
    says "children of containers and objects") -/
def isScalar (o : PyObj) : Bool :=
  isIterator o || ["str", "int", "float", "bool", "NoneType", "type", "module", "unicode", "long", "traceback"].contains o.tyName

/-- the text of a value: element count for containers, a fixed text for list iterators, `str` otherwise
    (the placeholder when `str` fails) -/
def render (o : PyObj) : String :=
  if isIterator o then "Iterator of type: " ++ o.tyRepr
  else if isContainer o then
    match o.len with
    | .ok n => "Size: " ++ toString n
    | .raises _ => o.str.getD o.placeholder      -- the count cannot be taken: as any other value
  else o.str.getD o.placeholder

/-- a child as shown: displayed name, original name when it differs, the object -/
structure Kid where
  name : String
  orig : Option String
  obj : ObjId
deriving Repr, DecidableEq

def indexed : List ObjId → Nat → List Kid
  | [], _ => []
  | o :: os, i => ⟨toString i, none, o⟩ :: indexed os (i + 1)

/-- a private attribute `_Cls__x` of an object of class `Cls` is shown as `__x` (its stored name kept as original) -/
def attrKid (cls : String) (kv : Key × ObjId) : Kid :=
  let shown := if Py.startsWith kv.1.text ("_" ++ cls) then Py.sliceFrom kv.1.text (Py.len ("_" ++ cls)) else kv.1.text
  ⟨shown, if kv.1.isStr && shown != kv.1.text then some kv.1.text else none, kv.2⟩

/-- the value of a probe that succeeded (the default otherwise) -/
def got {α : Type} (p : Probe α) (d : α) : α :=
  match p with
  | .ok a => a
  | .raises _ => d

/-- children by kind: dict items by key, elements of list/tuple/set/frozenset and exception args by index (at most
    `maxColl`), attributes of other objects by name; none for scalars, none when the object cannot be inspected -/
def kids (L : Limits) (o : PyObj) : List Kid :=
  if isScalar o then []
  else if o.isDictExact then o.dictItems.map (fun kv => ⟨kv.1.text, none, kv.2⟩)
  else if isSeq o then indexed ((got o.seq []).take L.maxColl) 0
  else
    match o.isExc with
    | .raises _ => []            -- an object that cannot be inspected is shown without children
    | .ok true => indexed ((got o.excArgs []).take L.maxColl) 0
    | .ok false =>
      match o.hasDict with
      | .raises _ => []
      | .ok true => (got o.attrs []).map (attrKid o.tyName)
      | .ok false => []

/-- the children an entry recorded at work-list depth `depth` lists: none at the depth limit -/
def kidsAt (L : Limits) (o : PyObj) (depth : Nat) : List Kid :=
  if depth + 1 < L.maxDepth then kids L o else []

/-- modifiers follow the displayed name -/
def modifiers (name : String) : List String :=
  if Py.startsWith name "__" then ["private"] else if Py.startsWith name "_" then ["protected"] else []

end Spec

end Frames
