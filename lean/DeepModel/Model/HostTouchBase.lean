/-
  Model/HostTouchBase — rows of the extracted table of host-touching operations (C01, first sentence).
  Hand-written types only; the table is generated into Extracted/HostTouch.lean by harness/extract/o8_hosttouch.py.
-/
namespace HostTouch

/-- what the agent does with a value that can alias host state -/
inductive Kind where
  | read      -- invokes a protocol of the value (dunder dispatch) without changing it, if the protocol is side-effect free
  | write     -- stores into / deletes from / mutates the value: a change of the host's data
  | pass      -- hands the value to code outside the analysed files (plugins, eval, constructors of agent records)
deriving DecidableEq, Repr

structure Op where
  fn : String
  kind : Kind
  proto : String
  text : String
deriving DecidableEq, Repr

/-- the protocols C01's quantifier assumes to be side-effect free on host objects ("objects with raising dunder methods"
    are allowed — raising is contained, see `c01_guarded` —, side effects are not): attribute read, item read, `str`,
    `repr`, `len`, iteration, membership, comparison, truth value, `hash`, `type`/`id`/`isinstance` (no dispatch), string
    formatting, and the read-only access methods of the built-in containers and of `str`. -/
def allowedReads : List String :=
  ["getattr", "getitem", "str", "repr", "len", "iter", "contains", "eq", "bool", "hash", "type", "format",
   "method:get", "method:keys", "method:items", "method:values", "method:startswith", "method:endswith", "method:copy"]

/-- methods of AGENT objects that carry a host value (the carrier over-approximation of the extractor): calling them is
    not an operation on the host value itself -/
def agentMethods : List String :=
  ["method:process", "method:can_trigger", "method:action_context", "method:at_location", "method:append_variable",
   "method:append_child", "method:check_id", "method:new_var_id", "method:add_child", "method:evaluate_expression",
   "method:attach_result", "method:hold", "method:process_variable", "method:search_function", "method:collect",
   "method:push_snapshot", "method:complete", "method:add_watch_result", "method:process_log", "method:format",
   "method:vformat", "method:close", "method:process_capture_variable", "method:eval_watch", "method:has_triggered",
   "method:record_triggered", "method:should_collect_vars", "method:is_app_frame", "method:merge_var_lookup",
   "method:log_tracepoint", "method:decorate", "method:push_snapshot"]

def Op.ok (o : Op) : Bool :=
  match o.kind with
  | .write => false
  | .pass => true
  | .read => allowedReads.contains o.proto || agentMethods.contains o.proto

end HostTouch
