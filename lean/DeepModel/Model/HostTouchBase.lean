/-
  Model/HostTouchBase — rows of the extracted table of host-touching operations (C01, first sentence).
  Hand-written types only; the table is generated into Extracted/HostTouch.lean by harness/extract/o8_hosttouch.py.
-/
namespace HostTouch

/-! Dynamic tie (harness/props/c01.py, recording host `spy`): every dunder the real agent touches must be EXPLAINED by a
  row.  The explanation is closed under what CPython itself invokes on behalf of an allowed read:
  `__repr__` ⇐ `repr` | `str` | `format` (a container renders its elements with repr; `str` falls back to `__repr__`);
  `__str__`, `__format__` ⇐ `str` | `format`;  `__iter__` ⇐ `iter`;  `__len__` ⇐ `len` | `iter` (size hint) | `bool`;
  `__getitem__` ⇐ `getitem` | `iter` (sequence-protocol iteration) | `contains`;  `__contains__` ⇐ `contains`;
  `__eq__` ⇐ `eq` | `contains` | `getitem` | `method:get`;  `__hash__` ⇐ `hash` | `contains` | `getitem` | `method:get` | `iter`
  (membership / dict-key / set operations on a CONTAINER holding the object);  `__bool__` ⇐ `bool`;
  `__float__` / `__int__` / `__index__` ⇐ `number`.  Everything else (`__call__`, `__enter__`, `__next__`, arithmetic,
  stores and deletes) is explained only by a row of its own kind — and those kinds are not allowed. -/

/-- what the agent does with a value that can alias host state -/
inductive Kind where
  | read      -- invokes a protocol of the value (dunder dispatch) without changing it, if the protocol is side-effect free
  | write     -- stores into / deletes from / mutates the value: a change of the host's data
  | call      -- CALLS the value (a host callable): runs host code
  | enter     -- `with <value>`: host `__enter__` / `__exit__`
  | arith     -- an arithmetic / unary operator dunder, abs, round, divmod, pow
  | consume   -- `next(<value>)`: advances a host iterator
  | pass      -- hands the value to code outside the analysed files; `proto` = "call:<callee>"
deriving DecidableEq, Repr

structure Op where
  fn : String
  kind : Kind
  proto : String
  text : String
deriving DecidableEq, Repr

/-- the protocols C01's quantifier assumes to be side-effect free on host objects ("objects with raising dunder methods"
    are allowed — raising is contained, see `c01_guarded` —, side effects are not): attribute read, item read, `str`,
    `repr`, `len`, number conversion (`float()` / `int()` of a metric expression's value), iteration (which CONSUMES a
    one-shot iterator: the collector iterates only values whose exact type name is list-like, C05 — not visible here),
    membership, comparison, truth value, `hash`, `type`/`id`/`isinstance` (no dispatch), string formatting, and the
    read-only access methods of the built-in containers and of `str`. -/
def allowedReads : List String :=
  ["getattr", "getitem", "str", "repr", "len", "number", "iter", "contains", "eq", "bool", "hash", "type", "format",
   "method:get", "method:keys", "method:items", "method:values", "method:startswith", "method:endswith", "method:copy",
   "method:strip"]

/-- methods (by bare name — a host object's method of the same name would be taken for these) of AGENT objects that
    the analysis cannot tell from a host value read out of a carrier: the callback contexts' `process`, the push
    service's `push_snapshot`, `BoundedAttributes.merge_in`.  Reviewed on the clean tree. -/
def agentMethods : List String := ["method:process", "method:push_snapshot", "method:merge_in"]

/-- REVIEWED callees a host-aliased value may be handed to (the `pass` rows of the clean tree, each looked at):
    * `eval` — the tracepoint expression itself, in the frame's namespaces (the property's quantifier: side-effect free);
    * constructors of agent records that only STORE the reference or its text: `StackFrame`, `Variable`, `VariableId`,
      `WatchResult`, `EventSnapshot`, the five action contexts; `FormatDict(locals)` copies the dict (reads its items);
    * appending / merging into agent containers and records (`local.*`, `self.*`, the closure variables of `process_log`);
    * plugin callbacks that receive agent records (`decorate`, `log_tracepoint`, `push_snapshot`), C20's business;
    * `func` = the `correct_names` callback of `process_dict_breadth_first` (texts only); `string.Formatter.vformat`;
    * logging (formats `%s` of the value: `str`) and `os.path.basename` of a code object's file name.
    Anything else — `operator.setitem`, `dict.update`, `exec`, ctypes, a helper in a file outside the analysed ones — is
    NOT ok and fails `c01_host_touch_in_table`. -/
def allowedCallees : List String :=
  ["call:eval", "call:StackFrame", "call:Variable", "call:VariableId", "call:WatchResult", "call:EventSnapshot",
   "call:LogActionContext", "call:MetricActionContext", "call:NoActionContext", "call:SnapshotActionContext",
   "call:SpanActionContext", "call:FormatDict", "call:FormatExtractor().vformat", "call:func",
   "call:local.append", "call:self.append", "call:var_ids.append", "call:watch_results.append", "call:_var_lookup.update",
   "call:local.add_watch_result", "call:self.add_watch_result", "call:local.merge_var_lookup", "call:self.merge_var_lookup",
   "call:local.decorate", "call:local.log_tracepoint", "call:local.merge_in", "call:local.push_snapshot",
   "call:logging.debug", "call:logging.exception", "call:deep.logging.exception", "call:os.path.basename"]

def Op.ok (o : Op) : Bool :=
  match o.kind with
  | .read => allowedReads.contains o.proto || agentMethods.contains o.proto
  | .pass => allowedCallees.contains o.proto
  | _ => false

end HostTouch
