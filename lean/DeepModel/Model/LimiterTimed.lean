/-
  Model/LimiterTimed — N threads at one action, WITH the time stamps of the collections (C04, schedule clause).

  Same regions as `Limiter.Conc` (check | proc | record, one schedule entry = one region of one thread), the same
  decision function (`Limiter.allowed` = `Extracted.Limiter.canTrigger`) and the same `fire`; what is added:
    * every thread carries the value ITS clock read returned (`TriggerContext.ts`: `time_ns()` is read once per trace
      event, before the check, on the thread's own stack) — arbitrary per thread, not assumed ordered like the
      arrival order: a thread that read the clock early and reaches the check late is just another list of values;
    * every thread carries the outcome of its condition (evaluated inside the check region, after the limits);
    * the state keeps the time stamps of the collections in the order the `proc` regions ran, and the hits in the order
      the `check` regions ran (a history variable; nothing reads it).
  `mutexOk` is the schedule discipline a critical section around check…record would enforce, stated on the program
  counters: a check region runs only while no thread is between its passed check and its record.
-/
import DeepModel.Model.Limiter

namespace Limiter
open Extracted.Limiter

structure ThrT where
  pc : Pc
  ts : Int
  cond : Bool
deriving Repr, DecidableEq

structure ConcT where
  st : Stats
  thrs : List ThrT
  /-- time stamps of the collections, NEWEST first (pushed by the `proc` region) -/
  collectedAt : List Int
  /-- the hits in the order their `check` region ran, NEWEST first -/
  checked : List Hit
deriving Repr

/-- between a passed check and the record -/
def Pc.inCrit : Pc → Bool
  | .proc => true
  | .record => true
  | _ => false

def ConcT.stepThr (c : Cfg) (s : ConcT) (i : Nat) : ConcT :=
  match s.thrs[i]? with
  | none => s
  | some t =>
    match t.pc with
    | .check =>
      let pc' := if allowed c s.st t.ts && t.cond then Pc.proc else Pc.done
      { s with thrs := s.thrs.set i { t with pc := pc' }, checked := ⟨t.ts, t.cond⟩ :: s.checked }
    | .proc => { s with thrs := s.thrs.set i { t with pc := .record }, collectedAt := t.ts :: s.collectedAt }
    | .record => { s with thrs := s.thrs.set i { t with pc := .done }, st := fire s.st t.ts }
    | .done => s

def ConcT.run (c : Cfg) (s : ConcT) (sched : List Nat) : ConcT := sched.foldl (ConcT.stepThr c) s

def ConcT.init (hs : List Hit) : ConcT := ⟨Stats.init, hs.map (fun h => ⟨.check, h.ts, h.cond⟩), [], []⟩

/-- no thread is between its passed check and its record -/
def ConcT.free (s : ConcT) : Bool := s.thrs.all (fun t => !t.pc.inCrit)

/-- the schedule keeps check…record mutually exclusive: whenever the scheduled thread is about to run its check
    region, no thread is inside check…record.  (Everything else — extra entries for finished threads, threads that
    never run, threads whose check fails, any order of arrival — is allowed.) -/
def ConcT.mutexOk (c : Cfg) : ConcT → List Nat → Bool
  | _, [] => true
  | s, i :: is =>
    (match s.thrs[i]? with
     | some t => t.pc != .check || s.free
     | none => true) && ConcT.mutexOk c (s.stepThr c i) is

end Limiter
