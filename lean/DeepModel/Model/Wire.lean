/-
  Model/Wire — the wire side of a snapshot (C08).

  The conversion itself (`convertSnapshotRaw`, `convertFrame`, …, `convert_value`, `convertAttributes`), the source
  structures, the protobuf argument structures with their `accepts`, the field maps, the stub call sites and
  `basicProvide` are `Extracted.Wire.*`, regenerated from the Python source on every run.  Written here:
    * `convertSnapshot`  — `try: return Snapshot(...) except Exception: return None` around the translated expression;
    * `project*`         — how the documented wire format is READ BACK (which message field carries which snapshot
                           field); this is the specification side of the round trip, written from the .proto;
    * the predicates naming what a snapshot must satisfy: `collectable` (ranges the collector guarantees),
      `textOk` (no surrogate code point), `intsFit` (the two recorded findings);
    * the auth path: metadata cache, poll / push calls.
-/
import DeepModel.Extracted.Wire

namespace Wire
open Extracted.Wire

/-- `convert_snapshot`: any exception while building the message gives `None` -/
def convertSnapshot (s : EventSnapshot) : Option PSnapshot :=
  let m := convertSnapshotRaw s
  if m.accepts then some m else none

/-- `convert_resource` inside `PollRequest(...)`: an exception propagates out of `poll` (`none`) -/
def convertResource (a : BoundedAttributes) : Option PResource :=
  let m := convertAttributes a
  if m.accepts then some m else none

/-- the `line_no` of the TracePointConfig a trigger builds for a location whose line is `l`
    (`LocationAction.tracepoint` → `TracePointConfig.__init__` → the `line_no` property; all three translated) -/
def configuredLineNo (l : Int) : Int := tracepointLineNo (tracepointStoredLine l)

/-! ### reading a message back (the documented wire naming) -/

def projectVariableId (m : PVariableID) : VariableId :=
  { vid := m.ID, name := m.name, original_name := m.original_name, modifiers := m.modifiers }

def projectVariable (m : PVariable) : Variable :=
  { «type» := m.«type», value := m.value, «hash» := m.«hash», children := m.children.map projectVariableId,
    truncated := m.truncated.getD false }

def projectFrame (m : PStackFrame) : StackFrame :=
  { file_name := m.file_name, short_path := m.short_path.getD [], method_name := m.method_name,
    line_number := m.line_number, class_name := m.class_name, is_async := m.is_async.getD false,
    column_number := m.column_number.getD 0, transpiled_file_name := m.transpiled_file_name,
    transpiled_line_number := m.transpiled_line_number.getD 0,
    transpiled_column_number := m.transpiled_column_number.getD 0,
    variables := m.variables.map projectVariableId, app_frame := m.app_frame.getD false }

def watchSourceName (n : Option Nat) : Text :=
  match n with
  | none => []
  | some k => ((watchSourceNames.find? (fun kv => kv.2 == k)).map (fun kv => Text.ofString kv.1)).getD []

/-- `result` is a oneof: when both members were given the later one (`error_result`) is what the message holds -/
def projectWatch (m : PWatchResult) : WatchResult :=
  { expression := m.expression,
    result := if m.error_result.isSome then none else m.good_result.map projectVariableId,
    error := m.error_result, source := watchSourceName m.source }

def projectTracepoint (m : PTracePointConfig) : TracePointConfig :=
  { id := m.ID, path := m.path, line_no := m.line_number, args := m.args, watches := m.watches }

mutual
  /-- an `AnyValue` read back as the attribute value it stands for (arrays are the tuples BoundedAttributes holds) -/
  def projectValue : PAnyValue → PyVal
    | .pyNone => .none
    | .empty => .none
    | .string_value t => .str t
    | .bool_value b => .bool b
    | .int_value i => .int i
    | .double_value f => .float f
    | .array_value vs => .tuple (projectList vs)
    | .kvlist_value kvs => .dict (projectKVs kvs)
    | .bytes_value b => .bytes b
  def projectList : PAnyList → PyVals
    | .nil => .nil
    | .cons v r => .cons (projectValue v) (projectList r)
  def projectKVs : PKVList → PyKVs
    | .nil => .nil
    | .cons k v r => .cons k (projectValue v) (projectKVs r)
end

def projectKeyValue (m : PKeyValue) : Text × PyVal := (m.key, projectValue m.value)

def projectSnapshot (m : PSnapshot) : EventSnapshot :=
  { id := fromBytesBig (m.ID.getD []),
    tracepoint := projectTracepoint (m.tracepoint.getD {}),
    var_lookup := m.var_lookup.map (fun kv => (kv.1, projectVariable kv.2)),
    ts_nanos := m.ts_nanos, frames := m.frames.map projectFrame, watches := m.watches.map projectWatch,
    attributes := m.attributes.map projectKeyValue, duration_nanos := m.duration_nanos,
    resource := m.resource.map projectKeyValue, log_msg := m.log_msg }

/-! ### what is asked of a snapshot -/

def PyVals.all (p : PyVal → Bool) : PyVals → Bool
  | .nil => true
  | .cons v r => p v && PyVals.all p r

def PyVal.isPrim : PyVal → Bool
  | .bool _ | .str _ | .int _ | .float _ => true
  | _ => false

def PyVal.isNone : PyVal → Bool
  | .none => true
  | _ => false

/-- a value `BoundedAttributes` can hold (`_clean_attribute`): bool / str / int / float (bytes are decoded to str), or
    a tuple of those in which `None` elements are kept -/
def PyVal.holdable : PyVal → Bool
  | .tuple vs => PyVals.all (fun x => x.isPrim || x.isNone) vs
  | v => v.isPrim

def PyVal.intFits : PyVal → Bool
  | .int i => inI64 i
  | _ => true

/-- every int fits an int64 (finding `C08/attr-int-out-of-range-dropped`) -/
def PyVal.intsFit : PyVal → Bool
  | .tuple vs => PyVals.all PyVal.intFits vs
  | v => v.intFits

def PyVal.strOk : PyVal → Bool
  | .str t => t.ok
  | _ => true

/-- no surrogate code point in any text of the value -/
def PyVal.textOk : PyVal → Bool
  | .tuple vs => PyVals.all PyVal.strOk vs
  | v => v.strOk

/-! every float is a 64-bit pattern (the model carries the IEEE-754 pattern of a Python float as a `Nat`) -/
mutual
  def PyVal.floatsOk : PyVal → Bool
    | .float b => decide (b < 2 ^ 64)
    | .dict kvs => kvs.floatsOk
    | .list vs => vs.floatsOk
    | .tuple vs => vs.floatsOk
    | _ => true
  def PyVals.floatsOk : PyVals → Bool
    | .nil => true
    | .cons v r => v.floatsOk && r.floatsOk
  def PyKVs.floatsOk : PyKVs → Bool
    | .nil => true
    | .cons _ v r => v.floatsOk && r.floatsOk
end

def attrsAll (p : PyVal → Bool) (a : List (Text × PyVal)) : Bool := a.all (fun kv => p kv.2)
def attrKeysOk (a : List (Text × PyVal)) : Bool := a.all (fun kv => kv.1.ok)

def _root_.Extracted.Wire.VariableId.textOk (v : VariableId) : Bool :=
  v.vid.ok && v.name.ok && v.modifiers.all Text.ok && v.original_name.all Text.ok

def _root_.Extracted.Wire.Variable.textOk (v : Variable) : Bool :=
  v.«type».ok && v.value.ok && v.«hash».ok && v.children.all VariableId.textOk

def _root_.Extracted.Wire.StackFrame.textOk (f : StackFrame) : Bool :=
  f.file_name.ok && f.short_path.ok && f.method_name.ok && f.class_name.all Text.ok &&
  f.transpiled_file_name.all Text.ok && f.variables.all VariableId.textOk

def _root_.Extracted.Wire.WatchResult.textOk (w : WatchResult) : Bool :=
  w.expression.ok && w.result.all VariableId.textOk && w.error.all Text.ok

def _root_.Extracted.Wire.TracePointConfig.textOk (t : TracePointConfig) : Bool :=
  t.id.ok && t.path.ok && t.args.all (fun kv => kv.1.ok && kv.2.ok) && t.watches.all Text.ok

/-- **well-formed text**: no text field of the snapshot contains a surrogate code point
    (finding `C08/lone-surrogate-dropped` is the complement) -/
def _root_.Extracted.Wire.EventSnapshot.textOk (s : EventSnapshot) : Bool :=
  s.tracepoint.textOk && s.var_lookup.all (fun kv => kv.1.ok && kv.2.textOk) && s.frames.all StackFrame.textOk &&
  s.watches.all WatchResult.textOk && attrKeysOk s.attributes && attrsAll PyVal.textOk s.attributes &&
  attrKeysOk s.resource && attrsAll PyVal.textOk s.resource && s.log_msg.all Text.ok

def _root_.Extracted.Wire.StackFrame.inRange (f : StackFrame) : Bool :=
  inU32 f.line_number && inU32 f.column_number && inU32 f.transpiled_line_number &&
  inU32 f.transpiled_column_number

/-- a watch carries a result or an error, not both, and one of the sources the agent writes -/
def _root_.Extracted.Wire.WatchResult.wellFormed (w : WatchResult) : Bool :=
  !(w.result.isSome && w.error.isSome) && watchSources.any (fun n => Text.ofString n == w.source)

/-- what the collector guarantees by construction: a 128-bit id, `time_ns` stamps, line numbers of real frames, watch
    results of the four sources, attribute values that went through `BoundedAttributes` -/
def _root_.Extracted.Wire.EventSnapshot.collectable (s : EventSnapshot) : Bool :=
  decide (s.id < 256 ^ 16) && inU64 s.ts_nanos && inU64 s.duration_nanos && inU32 s.tracepoint.line_no &&
  s.frames.all StackFrame.inRange && s.watches.all WatchResult.wellFormed &&
  attrsAll PyVal.holdable s.attributes && attrsAll PyVal.holdable s.resource

def _root_.Extracted.Wire.EventSnapshot.intsFit (s : EventSnapshot) : Bool :=
  attrsAll PyVal.intsFit s.attributes && attrsAll PyVal.intsFit s.resource

def _root_.Extracted.Wire.EventSnapshot.floatsOk (s : EventSnapshot) : Bool :=
  attrsAll PyVal.floatsOk s.attributes && attrsAll PyVal.floatsOk s.resource

/-! ### auth: provider → metadata → every request -/

abbrev Metadata := List (String × String)

/-- what the configured provider class does -/
inductive ProviderKind where
  | basic                         -- deep.api.auth.BasicAuthProvider
  | custom (md : Metadata)        -- any other class: `provide()` returns `md`
  /-- `get_provider` RAISES for the configured name: no dot (ValueError), unknown module (ModuleNotFoundError), unknown
      attribute (AttributeError), the attribute is `None` — e.g. `builtins.None` — (UnknownAuthProvider), not callable /
      abstract (TypeError); also a loaded object without `provide` (AttributeError in `_build_metadata`) -/
  | unloadable
  /-- the configured name is a callable that returns `None` (e.g. `builtins.print`): `get_provider` returns `None`, which
      `_build_metadata` treats as "no provider" -/
  | notAProvider
deriving Repr, DecidableEq

structure AuthCfg where
  providerName : Option String    -- SERVICE_AUTH_PROVIDER
  kind : ProviderKind
  username : Option String
  password : Option String
deriving Repr

/-- the metadata the configured auth provider supplies (the statement's side) -/
def expectedMetadata (c : AuthCfg) : Metadata :=
  match c.providerName with
  | none => []
  | some "" => []
  | some _ =>
    match c.kind with
    | .custom md => md
    | .unloadable => []             -- it supplies nothing (and nothing is ever sent: `c08_auth_unloadable_sends_nothing`)
    | .notAProvider => []
    | .basic =>
      match c.username, c.password with
      | some u, some p => [("authorization", "Basic%20" ++ b64encode (utf8 (u ++ ":" ++ p)))]
      | _, _ => []

/-- `AuthProvider.get_provider(config)` followed by `provide()` -/
def provided (c : AuthCfg) : Option Metadata :=
  if noProvider c.providerName then none
  else match c.kind with
       | .basic => some (basicProvide c.username c.password)
       | .custom md => some md
       | .unloadable => some []     -- never reached: `effFaults` makes `_build_metadata` raise first
       | .notAProvider => none

/-- `GRPCService`: the metadata cache, and how often the provider has been asked so far -/
structure Grpc where
  cache : Option Metadata
  asked : Nat := 0
deriving Repr

/-- `GRPCService.metadata()`.  `faults i = true`: `_build_metadata` raises the i-th time it is entered with a provider
    configured — `provide()` raises (token not available yet, …) or `get_provider` cannot load the configured class
    (`getProviderLoad`: no statement of it is guarded; a class that cannot be loaded is `faults = fun _ => true`) — the
    exception propagates (`none`), nothing is cached, the next call asks again. -/
def Grpc.metadata (g : Grpc) (c : AuthCfg) (faults : Nat → Bool) : Option Metadata × Grpc :=
  match g.cache with
  | some md => (some md, g)
  | none =>
    match provided c with
    | none => let md := buildMetadata none; (some md, if metadataCached then { g with cache := some md } else g)
    | some p =>
      if faults g.asked then (none, { g with asked := g.asked + 1 })
      else
        let md := buildMetadata (some p)
        (some md, { cache := if metadataCached then some md else none, asked := g.asked + 1 })

/-- a provider configured and `get_provider` raises for it -/
def AuthCfg.unloadable (c : AuthCfg) : Bool := !noProvider c.providerName && decide (c.kind = .unloadable)

/-- the faults of a configuration: those of the environment, and EVERY call when the class cannot be loaded -/
def effFaults (c : AuthCfg) (faults : Nat → Bool) : Nat → Bool := fun i => c.unloadable || faults i

/-- what reaches a stub: the request and the `metadata=` keyword (`none` = the call has no such keyword) -/
structure Sent (α : Type) where
  request : α
  metadata : Option Metadata

inductive Op where
  | poll (ts : Int) (hash : Text) (resource : BoundedAttributes)
  | push (s : EventSnapshot)

inductive Wire where
  | polled (c : Sent PPollRequest)
  | pushed (c : Sent PSnapshot)
  | dropped                       -- conversion failed / the provider raised: nothing sent

def Wire.metadata : Wire → Option (Option Metadata)
  | .polled c => some c.metadata
  | .pushed c => some c.metadata
  | .dropped => none

/-- one `LongPoll.poll()` / `PushService._push_task(snapshot)` -/
def step (c : AuthCfg) (faults : Nat → Bool) (g : Grpc) : Op → Wire × Grpc
  | .poll ts hash res =>
    match convertResource res with
    | none => (.dropped, g)
    | some r =>
      let req : PPollRequest := { ts_nanos := ts, current_hash := hash, resource := some r }
      if req.accepts then
        match pollMetadataArg with
        | some "self.grpc.metadata()" =>
          match g.metadata c faults with
          | (some md, g') => (.polled ⟨req, some md⟩, g')
          | (none, g') => (.dropped, g')
        | _ => (.polled ⟨req, none⟩, g)
      else (.dropped, g)
  | .push s =>
    match convertSnapshot s with
    | none => (.dropped, g)
    | some m =>
      match sendMetadataArg with
      | some "self.grpc.metadata()" =>
        match g.metadata c faults with
        | (some md, g') => (.pushed ⟨m, some md⟩, g')
        | (none, g') => (.dropped, g')
      | _ => (.pushed ⟨m, none⟩, g)

def run (c : AuthCfg) (faults : Nat → Bool) : Grpc → List Op → List Wire
  | _, [] => []
  | g, op :: ops => let (w, g') := step c faults g op; w :: run c faults g' ops

/-- the operations of an agent configured with `c` (`run` with the configuration's own faults) -/
def runCfg (c : AuthCfg) (faults : Nat → Bool) (g : Grpc) (ops : List Op) : List Wire := run c (effFaults c faults) g ops

/-! ### several threads at `metadata()` (poll timer thread, task pool threads)

  `if self._metadata is None: self._metadata = self._build_metadata(); return self._metadata` has two atomic
  regions per thread: `look` (read the cache; a hit is returned and sent) and `store` (the provider's answer, computed
  on this thread, is stored and sent).  A schedule is a list of thread ids. -/
structure Conc where
  cache : Option Metadata
  pcs : List Nat                  -- per thread: 0 = before look, 1 = asked the provider, 2 = sent
  sent : List Metadata

def cstep (c : AuthCfg) (s : Conc) (tid : Nat) : Conc :=
  match s.pcs[tid]? with
  | some 0 =>
    match s.cache with
    | some md => { s with pcs := s.pcs.set tid 2, sent := s.sent ++ [md] }
    | none => { s with pcs := s.pcs.set tid 1 }
  | some 1 =>
    let md := buildMetadata (provided c)
    { cache := if metadataCached then some md else s.cache, pcs := s.pcs.set tid 2, sent := s.sent ++ [md] }
  | _ => s

def crun (c : AuthCfg) (n : Nat) (sched : List Nat) : Conc := sched.foldl (cstep c) ⟨none, List.replicate n 0, []⟩

/-! ### a provider whose answer changes (token rotation / expiry)

  `answers t` = what the configured provider supplies when asked at time `t`.  `metadata()` with its cache asks only
  while nothing is cached. -/
def metadataAt (cache : Option Metadata) (answers : Nat → Metadata) (t : Nat) : Metadata × Option Metadata :=
  match cache with
  | some md => (md, cache)
  | none => (answers t, if metadataCached then some (answers t) else none)

/-- the metadata of the requests sent at the given times, starting from `cache` -/
def sentAt (answers : Nat → Metadata) : Option Metadata → List Nat → List Metadata
  | _, [] => []
  | cache, t :: ts => let (md, cache') := metadataAt cache answers t; md :: sentAt answers cache' ts

end Wire
