/-
  Model/AttrBase — the vocabulary the *translated* attribute code (Extracted/Attributes.lean) is written in (C18).

  Python values as the attribute code can tell them apart, an insertion-ordered dict as an association list,
  and the handful of built-in behaviours `_clean_attribute`, `_clean_attribute_value` and
  `BoundedAttributes.__setitem__/__delitem__` use.  Hand-written, core Lean only.

  Modelled, not verified (trusted base, exercised by the correspondence run):
  * `bytes.decode()` — a bytes value carries the outcome of UTF-8 decoding (`some text` / `none` = UnicodeDecodeError);
  * `float` values are opaque (only their type matters to the code); they carry their `repr`;
  * `OrderedDict`: `del`, `popitem(last=…)`, item assignment (existing key keeps its position), iteration order
    = insertion order; `dict.update` visits the argument in its iteration order;
  * `isinstance(x, T)`: type of `x` is one of `T` (and `bool` is a subclass of `int`).
-/
import DeepModel.Py

namespace Attr

/-- a Python object that is not itself a list/tuple, classified by what the cleaning code can observe. -/
inductive Scalar
  | none
  | bool (b : Bool)
  | str (s : String)
  | bytes (decoded : Option String)
  | int (i : Int)
  | float (repr : String)
  | other (ty : String)        -- any other object (dict, set, list nested in a list, user object, …): its type name
deriving DecidableEq, Repr, Inhabited

/-- an attribute value as handed to `__setitem__`, or as stored (`seq` = the frozen tuple). -/
inductive Val
  | sc (s : Scalar)
  | seq (xs : List Scalar)
deriving DecidableEq, Repr, Inhabited

/-- an attribute key as handed to `__setitem__`: a `str`, or anything else (identified by its repr). -/
inductive Key
  | str (s : String)
  | other (repr : String)
deriving DecidableEq, Repr, Inhabited

class PyObj (α : Type) where
  tyName : α → String

def Scalar.tyName : Scalar → String
  | .none => "NoneType"
  | .bool _ => "bool"
  | .str _ => "str"
  | .bytes _ => "bytes"
  | .int _ => "int"
  | .float _ => "float"
  | .other t => "obj:" ++ t     -- never the name of one of the types the cleaning code knows

def Val.tyName : Val → String
  | .sc s => s.tyName
  | .seq _ => "sequence"

def Key.tyName : Key → String
  | .str _ => "str"
  | .other _ => "object"

instance : PyObj Scalar := ⟨Scalar.tyName⟩
instance : PyObj Val := ⟨Val.tyName⟩
instance : PyObj Key := ⟨Key.tyName⟩

/-- the classes `isinstance` accepts for an object whose exact type is `ty`. -/
def mro (ty : String) : List String := if ty == "bool" then ["bool", "int"] else [ty]

/-- `isinstance(x, (T1, T2, …))` with the classes given by name. -/
def isInstance {α : Type} [PyObj α] (x : α) (tys : List String) : Bool :=
  (mro (PyObj.tyName x)).any (fun t => tys.contains t)

def Scalar.isNone : Scalar → Bool
  | .none => true
  | _ => false

/-- Python `None` as an attribute value. -/
def Val.none : Val := .sc .none

def Val.isNone : Val → Bool
  | .sc .none => true
  | _ => false

/-- `isinstance(value, Sequence)` as reached by `_clean_attribute` (str/bytes/scalars were dealt with before). -/
def Val.isSequence : Val → Bool
  | .seq _ => true
  | .sc _ => false

/-- `for element in value`. -/
def Val.elems : Val → List Scalar
  | .seq xs => xs
  | .sc _ => []

/-- apply a scalar function to a scalar value (a sequence is returned as it is, like Python would). -/
def Val.mapScalar (f : Scalar → Scalar) : Val → Val
  | .sc s => .sc (f s)
  | v => v

/-- `value.decode()`; `none` = `UnicodeDecodeError`. -/
def Scalar.decode : Scalar → Option Scalar
  | .bytes (some s) => some (.str s)
  | .bytes Option.none => Option.none
  | v => some v

/-- `value[:limit]` for a `str` value (`limit = None` keeps everything). -/
def Scalar.sliceTo (v : Scalar) (limit : Option Int) : Scalar :=
  match v, limit with
  | .str s, some n => .str (Py.sliceTo s n)
  | v, _ => v

/-- truth value of a key (`key and …`): only the empty `str` matters, non-`str` keys fail the type test anyway. -/
def Key.truthy : Key → Bool
  | .str s => s != ""
  | .other _ => true

/-- truth value of a stored attribute value (`if not resource.attributes.get(...)`). -/
def Val.truthy : Val → Bool
  | .sc .none => false
  | .sc (.bool b) => b
  | .sc (.str s) => s != ""
  | .sc (.bytes _) => true
  | .sc (.int i) => i != 0
  | .sc (.float r) => !(r == "0.0" || r == "-0.0")
  | .sc (.other _) => true
  | .seq xs => !xs.isEmpty

/-- `repr(x)` of a stored element; text is rendered as `'…'` (exact for text without quotes, backslashes and
    non-printable characters — the alphabet the generators use where a repr matters) -/
def Scalar.pyRepr : Scalar → String
  | .none => "None"
  | .bool b => if b then "True" else "False"
  | .str s => "'" ++ s ++ "'"
  | .bytes _ => "b'…'"
  | .int i => toString i
  | .float r => r
  | .other t => "<" ++ t ++ ">"

/-- `str(value)` of a stored attribute value (a sequence is stored as a tuple) -/
def Val.pyStr : Val → String
  | .sc (.str s) => s
  | .sc x => x.pyRepr
  | .seq [x] => "(" ++ x.pyRepr ++ ",)"
  | .seq xs => "(" ++ ", ".intercalate (xs.map Scalar.pyRepr) ++ ")"

/-! ### insertion-ordered dict -/
abbrev OD := List (Key × Val)

def OD.contains (d : OD) (k : Key) : Bool := d.any (fun e => e.1 == k)
def OD.erase (d : OD) (k : Key) : OD := d.filter (fun e => e.1 != k)
def OD.len (d : OD) : Nat := d.length
def OD.get (d : OD) (k : Key) : Option Val := (d.find? (fun e => e.1 == k)).map (·.2)
def OD.keys (d : OD) : List Key := d.map (·.1)

/-- `del d[k]` -/
def OD.del (d : OD) (k : Key) : Except String OD :=
  if d.contains k then .ok (d.erase k) else .error "KeyError"

/-- `d.popitem(last=…)` (the popped item is not used by the code) -/
def OD.popitem (d : OD) (last : Bool) : Except String OD :=
  if d.isEmpty then .error "KeyError" else .ok (if last then d.dropLast else d.tail)

/-- `d[k] = v` -/
def OD.set (d : OD) (k : Key) (v : Val) : OD :=
  if d.contains k then d.map (fun e => if e.1 == k then (k, v) else e) else d ++ [(k, v)]

/-- `a.update(b)` -/
def OD.update (a b : OD) : OD := b.foldl (fun acc e => acc.set e.1 e.2) a

/-- state of a `BoundedAttributes` -/
structure BA where
  cap : Option Nat          -- max_length (the constructor refuses negative values)
  maxValLen : Option Int    -- max_value_len
  dict : OD                 -- _dict, oldest first
  dropped : Nat
  frozen : Bool             -- _immutable
deriving Repr, DecidableEq

end Attr
