/-
  Model/Guard — guard skeletons: the control/exception structure of a Python function, their semantics
  under arbitrary faults, and the static analyses the containment theorems are stated with.
  Core Lean only.  Shared by C01 / C14 / C20 (and usable for C09).

  ## API (keep small)

  * `Stmt`      skeleton language.  Produced by `harness/skeleton.py` from Python `ast` (see its header for
                the exact mapping); every call expression is a `call site` unless whitelisted there.
  * `Env`       the oracles an execution is run against — all of them functions of the trace so far, so a
                theorem `∀ env` covers every fault placement, every loop length, every branch decision:
                `fault tr site` (does this call raise, and which class), `iters tr id` (length of the loop),
                `cond tr c` (truth of an `if`), `catches tr hid` (does a *named* `except` clause match).
  * `exec env s tr : Out × Trace`   big-step execution; the trace (newest event first) records calls with
                their fault, loop iterations, branch decisions, handlers entered and `self.x = const` stores.
  * `mayRaiseA allowed s : RaiseSet`  which exception classes may escape `s` when calls raise only classes
                in `allowed`;  `mayRaise = mayRaiseA ⟨true, true⟩`;  `AllGuarded s := mayRaise s = ∅` (decidable).
  * `mayRet fx s : List String`     possible `return` values when the conditions listed in `fx` have the
                given truth value;  `mayBreak s`, `mayCont s`, `mayNormal s`, `AlwaysReturns s`, `maySet f v s`.
  * `IsoBody allowed body`          decidable shape "try-body guarded for the allowed classes, handler silent,
                no `return`/`break`" of a loop body — hypothesis of the per-iteration isolation theorem.
  * `findLoop id s`                 the body of the loop with the given id inside a skeleton; `loops s`, `lastLoop s`,
    `IsoLastLoop allowed s` — the same by position instead of by name;
    `lastOf s`, `dropLast s`, `startsWithGuard cond s`, `firstCall s` — shape of a statement sequence.
  * `catchAt s site e : Option Res` static resolution "an exception of class `e` raised by the call at `site`
                is caught by handler `hid` / escapes" — what the correspondence check compares with the real
                code, one frame of the dynamic stack at a time (`resolve`).
  Theorems, all for every `Env`:
    Proofs/Guard.lean     `exec_sound` (raise sets), `guard_sound` (AllGuarded ⇒ nothing escapes), `guard_sound_for`,
                          `mayRet_sound`, `mayBreak_sound`, `exec_inv` / `exec_mono` (the trace only grows),
                          `noSet_preserved`
    Proofs/GuardRet.lean  `mayCont_sound`, `mayNormal_sound`, `returns_one_of`
    Proofs/GuardIso.lean  `isoBody_step`, `iso_loopN`, `iso_loop`, `iso_loopN_calls` (per-iteration isolation),
                          `catchAt_sound`, `catchAt_guarded`
    Proofs/GuardProg.lean `isoLoopIn_spec`, `isoLastLoop_spec`, `isoCallLastLoop_spec`, `finally_runs`,
                          `resolve_guarded`, `guarded_body_skipped`, `normal_last_assign`, `abnormal_before_last_assign`
  Typical use for a new function `f` (e.g. C09's TaskHandler): add it to NAMED in harness/extract/guards.py, then
  `theorem … : AllGuarded Extracted.Guards.f := by decide` + `guard_sound`, or
  `isoLastLoop_spec RaiseSet.all Extracted.Guards.f (by decide)` for "every iteration runs whatever fails".
-/
import DeepModel.Py

namespace Guard
open Py (Exn)

/-- an `except` clause as far as the two fault classes are concerned. `named e b`: specific classes;
    `e` = some class listed is (a subclass of) `Exception`, `b` = some class listed is a `BaseException`
    outside `Exception` (or is unknown to the extractor). -/
inductive Catch where
  | exception
  | baseException
  | named (exc base : Bool)
deriving DecidableEq, Repr

/-- `some true` always caught, `some false` never caught, `none` depends on the concrete class. -/
def Catch.catches : Catch → Exn → Option Bool
  | .baseException, _ => some true
  | .exception, .exc => some true
  | .exception, .base => some false
  | .named e _, .exc => if e then none else some false
  | .named _ b, .base => if b then none else some false

inductive Stmt where
  | call (site : String)                       -- call expression: may raise either class
  | pure                                       -- whitelisted / no call
  | assign (field value : String)              -- `self.<field> = <constant>`; cannot raise, recorded
  | seq (a b : Stmt)
  | branch (cond : String) (a b : Stmt)        -- `if cond: a else: b` (calls of `cond` are emitted before it)
  | loop (id : String) (body : Stmt)           -- `for … in id` / `while id`: any number of iterations
  | tryExcept (body : Stmt) (c : Catch) (hid : String) (handler : Stmt)
  | tryFinally (body fin : Stmt)
  | scope (name : String) (body : Stmt)        -- inlined callee: its `return` ends the scope only
  | ret (v : String)                           -- `return v` (v = source text of the value)
  | raise (e : Exn)                            -- `raise` of a classified class
  | brk
  | cont
deriving Repr, DecidableEq, Inhabited

/-- `with ctx: body` where `enter`/`exit` are the skeletons of evaluating the context expression plus
    `__enter__`, and of `__exit__` (which does not swallow exceptions: checked by the extractor). -/
def Stmt.withCtx (enter exit body : Stmt) : Stmt := .seq enter (.tryFinally body exit)

/-- `a; b; c; …` -/
def Stmt.block : List Stmt → Stmt
  | [] => .pure
  | [s] => s
  | s :: rest => .seq s (Stmt.block rest)

inductive Out where
  | normal
  | returned (v : String)
  | broke
  | continued
  | raised (e : Exn)
deriving DecidableEq, Repr

inductive Ev where
  | call (site : String) (fault : Option Exn)
  | iter (id : String) (i : Nat)
  | took (cond : String) (b : Bool)
  | caught (hid : String) (e : Exn)
  | set (field value : String)
deriving DecidableEq, Repr

/-- newest event first -/
abbrev Trace := List Ev

structure Env where
  fault : Trace → String → Option Exn
  iters : Trace → String → Nat
  cond : Trace → String → Bool
  catches : Trace → String → Bool

/-- `n` iterations of `step`, numbered from `i`. `continue` goes to the next one, `break` ends the loop. -/
def loopN (step : Trace → Out × Trace) (id : String) : Nat → Nat → Trace → Out × Trace
  | 0, _, tr => (.normal, tr)
  | n + 1, i, tr =>
    match step (.iter id i :: tr) with
    | (.normal, tr') => loopN step id n (i + 1) tr'
    | (.continued, tr') => loopN step id n (i + 1) tr'
    | (.broke, tr') => (.normal, tr')
    | r => r

def exec (env : Env) : Stmt → Trace → Out × Trace
  | .call site, tr =>
    match env.fault tr site with
    | some e => (.raised e, .call site (some e) :: tr)
    | none => (.normal, .call site none :: tr)
  | .pure, tr => (.normal, tr)
  | .assign f v, tr => (.normal, .set f v :: tr)
  | .seq a b, tr =>
    match exec env a tr with
    | (.normal, tr') => exec env b tr'
    | r => r
  | .branch c a b, tr =>
    if env.cond tr c then exec env a (.took c true :: tr) else exec env b (.took c false :: tr)
  | .loop id body, tr => loopN (exec env body) id (env.iters tr id) 0 tr
  | .tryExcept body c hid h, tr =>
    match exec env body tr with
    | (.raised e, tr') =>
      if (c.catches e).getD (env.catches tr' hid) then exec env h (.caught hid e :: tr') else (.raised e, tr')
    | r => r
  | .tryFinally body fin, tr =>
    match exec env body tr with
    | (o, tr') =>
      match exec env fin tr' with
      | (.normal, tr'') => (o, tr'')
      | r => r
  | .scope _ body, tr =>
    match exec env body tr with
    | (.returned _, tr') => (.normal, tr')
    | r => r
  | .ret v, tr => (.returned v, tr)
  | .raise e, tr => (.raised e, tr)
  | .brk, tr => (.broke, tr)
  | .cont, tr => (.continued, tr)

/-! ### static analyses -/

structure RaiseSet where
  exc : Bool
  base : Bool
deriving DecidableEq, Repr

def RaiseSet.empty : RaiseSet := ⟨false, false⟩
def RaiseSet.all : RaiseSet := ⟨true, true⟩
def RaiseSet.onlyExc : RaiseSet := ⟨true, false⟩
def RaiseSet.mem (e : Exn) (r : RaiseSet) : Bool := match e with | .exc => r.exc | .base => r.base
def RaiseSet.union (a b : RaiseSet) : RaiseSet := ⟨a.exc || b.exc, a.base || b.base⟩
def RaiseSet.single : Exn → RaiseSet
  | .exc => ⟨true, false⟩
  | .base => ⟨false, true⟩

/-- the part of class `e` (present in the try-body's raise set or not) that a clause does not surely catch -/
def uncaught (c : Catch) (e : Exn) (present : Bool) : RaiseSet :=
  if present && (c.catches e != some true) then RaiseSet.single e else RaiseSet.empty

/-- classes that may escape `s` when a call raises only classes in `allowed`. -/
def mayRaiseA (allowed : RaiseSet) : Stmt → RaiseSet
  | .call _ => allowed
  | .pure => .empty
  | .assign _ _ => .empty
  | .seq a b => (mayRaiseA allowed a).union (mayRaiseA allowed b)
  | .branch _ a b => (mayRaiseA allowed a).union (mayRaiseA allowed b)
  | .loop _ b => mayRaiseA allowed b
  | .tryExcept b c _ h =>
    let rb := mayRaiseA allowed b
    ((uncaught c .exc rb.exc).union (uncaught c .base rb.base)).union (mayRaiseA allowed h)
  | .tryFinally b f => (mayRaiseA allowed b).union (mayRaiseA allowed f)
  | .scope _ b => mayRaiseA allowed b
  | .ret _ => .empty
  | .raise e => RaiseSet.single e
  | .brk => .empty
  | .cont => .empty

/-- the same analysis when each call site has its own set of classes it may raise (`at site`): e.g. "only the
    plugin callbacks fail, and only with an `Exception`" -/
def mayRaiseF (at_ : String → RaiseSet) : Stmt → RaiseSet
  | .call s => at_ s
  | .pure => .empty
  | .assign _ _ => .empty
  | .seq a b => (mayRaiseF at_ a).union (mayRaiseF at_ b)
  | .branch _ a b => (mayRaiseF at_ a).union (mayRaiseF at_ b)
  | .loop _ b => mayRaiseF at_ b
  | .tryExcept b c _ h =>
    let rb := mayRaiseF at_ b
    ((uncaught c .exc rb.exc).union (uncaught c .base rb.base)).union (mayRaiseF at_ h)
  | .tryFinally b f => (mayRaiseF at_ b).union (mayRaiseF at_ f)
  | .scope _ b => mayRaiseF at_ b
  | .ret _ => .empty
  | .raise e => RaiseSet.single e
  | .brk => .empty
  | .cont => .empty

/-- the faults of `env` respect the per-site sets -/
def FaultsAt (at_ : String → RaiseSet) (env : Env) : Prop :=
  ∀ tr site e, env.fault tr site = some e → (at_ site).mem e = true

def mayRaise (s : Stmt) : RaiseSet := mayRaiseA .all s

def AllGuarded (s : Stmt) : Prop := mayRaise s = RaiseSet.empty
instance (s : Stmt) : Decidable (AllGuarded s) := by unfold AllGuarded; infer_instance

/-- the faults of `env` are of the allowed classes only -/
def FaultsIn (allowed : RaiseSet) (env : Env) : Prop :=
  ∀ tr site e, env.fault tr site = some e → allowed.mem e = true

/-- conditions with a known truth value -/
abbrev Fixed := List (String × Bool)

def Fixed.get (fx : Fixed) (c : String) : Option Bool := (fx.find? (fun p => p.1 == c)).map (·.2)

def Agrees (fx : Fixed) (env : Env) : Prop := ∀ c b, fx.get c = some b → ∀ tr, env.cond tr c = b

/-- the values `s` may `return`, when the conditions in `fx` evaluate as listed. -/
def mayRet (fx : Fixed) : Stmt → List String
  | .ret v => [v]
  | .seq a b => mayRet fx a ++ mayRet fx b
  | .branch c a b =>
    match fx.get c with
    | some true => mayRet fx a
    | some false => mayRet fx b
    | none => mayRet fx a ++ mayRet fx b
  | .loop _ b => mayRet fx b
  | .tryExcept b _ _ h => mayRet fx b ++ mayRet fx h
  | .tryFinally b f => mayRet fx b ++ mayRet fx f
  | .scope _ _ => []
  | _ => []

/-- may `s` end with `break` (of an enclosing loop)? -/
def mayBreak : Stmt → Bool
  | .brk => true
  | .seq a b => mayBreak a || mayBreak b
  | .branch _ a b => mayBreak a || mayBreak b
  | .loop _ _ => false
  | .tryExcept b _ _ h => mayBreak b || mayBreak h
  | .tryFinally b f => mayBreak b || mayBreak f
  | .scope _ b => mayBreak b
  | _ => false

/-- may `s` end with `continue` (of an enclosing loop)? -/
def mayCont : Stmt → Bool
  | .cont => true
  | .seq a b => mayCont a || mayCont b
  | .branch _ a b => mayCont a || mayCont b
  | .loop _ _ => false
  | .tryExcept b _ _ h => mayCont b || mayCont h
  | .tryFinally b f => mayCont b || mayCont f
  | .scope _ b => mayCont b
  | _ => false

/-- may `s` run to its end (fall through to the next statement)? -/
def mayNormal : Stmt → Bool
  | .call _ => true
  | .pure => true
  | .assign _ _ => true
  | .seq a b => mayNormal a && mayNormal b
  | .branch _ a b => mayNormal a || mayNormal b
  | .loop _ _ => true
  | .tryExcept b _ _ h => mayNormal b || mayNormal h
  | .tryFinally b f => mayNormal b && mayNormal f
  | .scope _ _ => true
  | .ret _ => false
  | .raise _ => false
  | .brk => false
  | .cont => false

/-- a function body that always ends in an explicit `return` (or an exception) -/
def AlwaysReturns (s : Stmt) : Bool := !mayNormal s && !mayBreak s && !mayCont s

/-- may `s` store `value` into `self.field`? -/
def maySet (f v : String) : Stmt → Bool
  | .assign f' v' => f' == f && v' == v
  | .seq a b => maySet f v a || maySet f v b
  | .branch _ a b => maySet f v a || maySet f v b
  | .loop _ b => maySet f v b
  | .tryExcept b _ _ h => maySet f v b || maySet f v h
  | .tryFinally b fin => maySet f v b || maySet f v fin
  | .scope _ b => maySet f v b
  | _ => false

/-- last statement of a sequence -/
def lastOf : Stmt → Stmt
  | .seq _ b => lastOf b
  | s => s

/-- the sequence without its last statement -/
def dropLast : Stmt → Stmt
  | .seq a (.seq b c) => .seq a (dropLast (.seq b c))
  | .seq a _ => a
  | _ => .pure

/-- `s` begins with `if cond: return …` -/
def startsWithGuard (cond : String) : Stmt → Bool
  | .seq (.branch c (.ret _) .pure) _ => c == cond
  | _ => false

/-- every class the try-body may raise (under `allowed`) is definitely caught by `c` -/
def Covers (c : Catch) (rb : RaiseSet) : Bool :=
  (!rb.exc || c.catches .exc == some true) && (!rb.base || c.catches .base == some true)

/-- loop body of the shape `try: b except C: h` where, for faults of the allowed classes, nothing escapes `b`
    past `C`, `h` is silent, and neither returns nor breaks: one iteration cannot end the loop. -/
def IsoBody (allowed : RaiseSet) : Stmt → Bool
  | .tryExcept b c _ h =>
    Covers c (mayRaiseA allowed b) && (mayRet [] b).isEmpty && !mayBreak b &&
    (mayRaise h == RaiseSet.empty) && (mayRet [] h).isEmpty && !mayBreak h
  | _ => false

/-- body of the (first, in source order) loop with the given id -/
def findLoop (id : String) : Stmt → Option Stmt
  | .loop id' b => if id' == id then some b else findLoop id b
  | .seq a b => (findLoop id a).orElse (fun _ => findLoop id b)
  | .branch _ a b => (findLoop id a).orElse (fun _ => findLoop id b)
  | .tryExcept b _ _ h => (findLoop id b).orElse (fun _ => findLoop id h)
  | .tryFinally b f => (findLoop id b).orElse (fun _ => findLoop id f)
  | .scope _ b => findLoop id b
  | _ => none

/-- every loop of a skeleton with its body, outer loops before the loops nested in them, in source order -/
def loops : Stmt → List (String × Stmt)
  | .loop id b => (id, b) :: loops b
  | .seq a b => loops a ++ loops b
  | .branch _ a b => loops a ++ loops b
  | .tryExcept b _ _ h => loops b ++ loops h
  | .tryFinally b f => loops b ++ loops f
  | .scope _ b => loops b
  | _ => []

/-- the last loop in source order (for a function with one loop: that loop; with a nested pair: the inner one) —
    lets theorems name a loop by position, so renaming the iterated variable does not matter -/
def lastLoop (s : Stmt) : Option (String × Stmt) := (loops s).getLast?

/-- the last loop of `s` is isolated for faults of the allowed classes -/
def IsoLastLoop (allowed : RaiseSet) (s : Stmt) : Bool :=
  match lastLoop s with
  | some (_, b) => IsoBody allowed b
  | none => false

/-- the loop `id` of `s` is isolated for faults of the allowed classes -/
def IsoLoopIn (allowed : RaiseSet) (id : String) (s : Stmt) : Bool :=
  match findLoop id s with
  | some b => IsoBody allowed b
  | none => false

/-! ### static resolution of one fault (used by the correspondence check) -/

inductive Res where
  | caught (hid : String)          -- definitely caught by this handler
  | maybe (hid : String) (e : Exn) -- a named clause that may or may not match; otherwise continues as `e`
  | escapes (e : Exn)
deriving DecidableEq, Repr

/-- where does an exception of class `e` raised by the call at `site` end up? `none`: no such site. -/
def catchAt (site : String) (e : Exn) : Stmt → Option Res
  | .call s => if s == site then some (.escapes e) else none
  | .seq a b => (catchAt site e a).orElse (fun _ => catchAt site e b)
  | .branch _ a b => (catchAt site e a).orElse (fun _ => catchAt site e b)
  | .loop _ b => catchAt site e b
  | .tryExcept b c hid h =>
    match catchAt site e b with
    | some (.escapes e') =>
      match c.catches e' with
      | some true => some (.caught hid)
      | some false => some (.escapes e')
      | none => some (.maybe hid e')
    | some r => some r
    | none => catchAt site e h
  | .tryFinally b f => (catchAt site e b).orElse (fun _ => catchAt site e f)
  | .scope _ b => catchAt site e b
  | _ => none

/-- the call sites of a skeleton, in source order -/
def sites : Stmt → List String
  | .call s => [s]
  | .seq a b => sites a ++ sites b
  | .branch _ a b => sites a ++ sites b
  | .loop _ b => sites b
  | .tryExcept b _ _ h => sites b ++ sites h
  | .tryFinally b f => sites b ++ sites f
  | .scope _ b => sites b
  | _ => []

/-- a program: skeletons by qualified function name. Functions not listed contain no `try` (the extractor
    lists every function with one), so an exception passes straight through them. -/
abbrev Prog := List (String × Stmt)

def Prog.get (p : Prog) (fn : String) : Option Stmt := (p.find? (fun q => q.1 == fn)).map (·.2)

inductive Verdict where
  | caughtIn (fn hid : String)
  | maybeIn (fn hid : String)
  | unknownSite (fn site : String)
  | escaped (e : Exn)
deriving DecidableEq, Repr

/-- resolve a fault through a dynamic stack, innermost frame first: `(function, call site active in it)`. -/
def resolve (p : Prog) (e : Exn) : List (String × String) → Verdict
  | [] => .escaped e
  | (fn, site) :: outer =>
    match p.get fn with
    | none => resolve p e outer
    | some s =>
      match catchAt site e s with
      | none => .unknownSite fn site
      | some (.caught hid) => .caughtIn fn hid
      | some (.maybe hid _) => .maybeIn fn hid
      | some (.escapes e') => resolve p e' outer

end Guard
