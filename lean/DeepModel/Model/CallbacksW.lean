/-
  Model/CallbacksW — the weaker form of the recursion hypothesis of C15.

  `Callbacks.Inv.NoClash` forbids every nesting of two invocations with the same (file name, function name) anywhere
  in the program.  What the handler really needs is less: contexts are matched by name, so an invocation is confused
  only with an ENCLOSING invocation of the same key that has a context pending while it runs.  `NoClashW opens` tracks,
  like `NoStack`, which own contexts (`m`: opened at the call event, `l`: opened at the latest line event) an invocation
  has pending at each of its nested calls, and passes down `pend`: the keys of the enclosing invocations that have
  something pending.  An invocation must not have a key in `pend` — recursion, same-named methods, nested lambdas are
  fine as long as the enclosing same-named invocation has nothing pending at that moment (no tracepoint with deferred
  work on it, or the gate refused it).
-/
import DeepModel.Model.Callbacks

namespace Callbacks

mutual
def Inv.NoClashW (opens : Event → Bool) : Inv → List Nat → List Key → Prop
  | .mk path func frame ln den body _, p, pend =>
    (fileOf path, func) ∉ pend ∧
    body.NoClashW opens ⟨path, func, frame, p⟩ 0
      (opens ((FrameInfo.mk path func frame p).ev "call" ln 0 den)) false pend
def Items.NoClashW (opens : Event → Bool) : Items → FrameInfo → Nat → Bool → Bool → List Key → Prop
  | .nil, _, _, _, _, _ => True
  | .line n den rest, fi, k, m, _, pend => rest.NoClashW opens fi k m (opens (fi.ev "line" n 0 den)) pend
  | .caught _ _ rest, fi, k, m, l, pend => rest.NoClashW opens fi k (m && l) false pend
  | .call i rest, fi, k, m, l, pend =>
    i.NoClashW opens (fi.inv ++ [k]) (if m || l then (fileOf fi.path, fi.func) :: pend else pend) ∧
      rest.NoClashW opens fi (k + 1) m l pend
end

def forestNoClashW (opens : Event → Bool) : List Inv → Nat → Prop
  | [], _ => True
  | i :: is, k => i.NoClashW opens [k] [] ∧ forestNoClashW opens is (k + 1)

/-! Boolean mirror (for the driver; `Proofs/CallbacksW` shows it decides the Prop) -/
mutual
def Inv.noClashWB (opens : Event → Bool) : Inv → List Nat → List Key → Bool
  | .mk path func frame ln den body _, p, pend =>
    !(pend.contains (fileOf path, func)) &&
    body.noClashWB opens ⟨path, func, frame, p⟩ 0
      (opens ((FrameInfo.mk path func frame p).ev "call" ln 0 den)) false pend
def Items.noClashWB (opens : Event → Bool) : Items → FrameInfo → Nat → Bool → Bool → List Key → Bool
  | .nil, _, _, _, _, _ => true
  | .line n den rest, fi, k, m, _, pend => rest.noClashWB opens fi k m (opens (fi.ev "line" n 0 den)) pend
  | .caught _ _ rest, fi, k, m, l, pend => rest.noClashWB opens fi k (m && l) false pend
  | .call i rest, fi, k, m, l, pend =>
    i.noClashWB opens (fi.inv ++ [k]) (if m || l then (fileOf fi.path, fi.func) :: pend else pend) &&
      rest.noClashWB opens fi (k + 1) m l pend
end

end Callbacks
