/-
  Model/CollectorDeferred — a DEFERRED snapshot (stage line_capture / method_capture) (C05, C07).

  Phase 1, at the tracepoint's line: `SnapshotActionContext._process_action` (`Collector.collectFrom`: frames, watches, log
  fields).  The action context is then closed.  Phase 2, at a later trace event of the same line / function:
  `DeferredSnapshotActionCallback.process` — at a `return` / `exception` event it collects the returned / raised value through
  the same action context (`process_capture_variable`: the identity cache the action left behind, the action's limits, an own
  table merged into the snapshot) and pushes the snapshot; at any other event (the next line) it pushes it as it is.

  What phase 2 finds of phase 1 is decided by `Extracted.CollectorDeferred` (regenerated from the source): the cache survives
  `ActionContext.__exit__` and is never emptied.  Core Lean only.
-/
import DeepModel.Extracted.CollectorDeferred
import DeepModel.Model.Collector

namespace Collector
open Heap Extracted.Collector Extracted.CollectorDeferred

/-- the identity cache the callback works with, given the one the action ended with -/
def cacheAtCallback (c : Cache) : Cache := if exitKeepsCache && cacheOnlyGrows && cacheRebinds.isEmpty then c else []

/-- the snapshot a deferred snapshot action pushes when its callback runs at `event` with trace argument `value`.
    TWO heaps: `H` = the program state at the tracepoint's line (phase 1), `H'` = the state at the completing event — the host
    has run in between and may have changed the objects phase 1 recorded.  Object identities are the same in both (`ObjId`:
    recorded roots are held alive, so their `id()` is stable); the cache and the table keep what was made under `H`: an
    object phase 1 recorded is answered by the cache in phase 2 and is NOT looked at again. -/
def deferredSnapshot2 (H H' : Heap) (a : ActionIn) (event : String) (value : ObjId) : Outcome :=
  let r := collectFrom H a [] []
  match r.outcome with
  | .failed m => .failed m
  | .ok s =>
    if callbackCaptureEvents.contains event then
      let w := collectWatches H' a.limits [⟨.capture, event, value⟩] (cacheAtCallback r.cache) s.table
      match w.failed with
      | some m => .failed m
      | none => .ok ⟨s.frames, w.table, s.watches ++ w.outs⟩
    else .ok s

/-- the special case in which the host changed nothing the snapshot looks at between the two phases -/
def deferredSnapshot (H : Heap) (a : ActionIn) (event : String) (value : ObjId) : Outcome :=
  deferredSnapshot2 H H a event value

end Collector
