/-
  Model/HandlerTL — `TriggerHandler.trace_call` written against the `ThreadLocal` API (C15).

  `Callbacks.stepWith` keeps a thread's pending contexts in an `Option (List Ctx)` (unset / the deque).  Here the same
  statements are written over the *translated* `ThreadLocal` methods (`Extracted.ThreadLocal`, via `TLocal.opStep`), in
  the order of the source text: `self._callbacks.is_set`, `self._callbacks.value` (+ in-place pop / append of the
  deque), `self._callbacks.clear()`, `self._callbacks.get().append(..)`; and the machine of all threads over ONE
  `ThreadLocal` store keyed by the thread object (`TLocal.St`).  `Proofs/HandlerTL` shows that this is `stepWith` /
  `Trigger.runG` exactly (`stepTL_refines`, `runGTL_refines`), so every C15 theorem about `runG` is a theorem about the
  handler over the translated per-thread store.
-/
import DeepModel.Model.Trigger
import DeepModel.Model.ThreadLocal

namespace HandlerTL
open Callbacks Extracted.Locations TLocal Extracted.ThreadLocal

/-- the handler's default provider: `lambda: deque()` -/
def dq : Nat → Option (Option (List Ctx)) := fun _ => some (some [])

def embSlot (s : Option (List Ctx)) : Slot (List Ctx) := s.map some

/-- one call of `TriggerHandler.trace_call` written against the `ThreadLocal` API, in the order of the source text:
    `self._callbacks.is_set`, `self._callbacks.value` (+ in-place pop / append of the deque), `self._callbacks.clear()`,
    `self._callbacks.get().append(..)`.  State: the calling thread's `ThreadLocal` slot and the provider call counter. -/
def stepTL (ncfg : Int) (acts : Event → List Action) (calls : Nat) (slot : Slot (List Ctx)) (ev : Event) :
    (Slot (List Ctx) × Nat) × List Eff :=
  match locationFromEvent ev.kind ev.path ev.line ev.func with
  | (event, file, line, function) =>
    let r0 := opStep dq calls slot .isSet
    let isset := decide (r0.2.2 = Res.flag true)
    let r : Option ((Slot (List Ctx) × Nat) × List Ctx) :=
      if callbackEvent event isset then
        let r1 := opStep dq r0.2.1 r0.1 .valueGet
        match r1.2.2 with
        | .val (some value) =>
          match processCallBacks (fun c => cbAtLocation c.event c.file c.func event file line function) value with
          | none => none
          | some (none, done) =>
            let r2 := opStep dq r1.2.1 r1.1 .clear
            some ((r2.1, r2.2.1), done)
          | some (some value', done) =>
            let r2 := opStep dq r1.2.1 r1.1 (.update (fun _ => value'))
            some ((r2.1, r2.2.1), done)
        | _ => none
      else some ((r0.1, r0.2.1), [])
    match r with
    | none => ((slot, calls), [])
    | some (st1, done) =>
      let closes := done.map (fun c => Eff.closed c ev)
      if noTracepoints ncfg then (st1, closes) else
      if noActions ((acts ev).length : Int) then (st1, closes) else
      let fired := (acts ev).filter (fun a => !ev.denied.contains a)
      let cbs := fired.filter Action.hasCallback
      let fx := closes ++ fired.map (fun a => Eff.fired a ev)
      if pushCallbacks (cbs.length : Int) then
        let c : Ctx := ⟨event, file, line, function, cbs, ev⟩
        let r3 := opStep dq st1.2 st1.1 (.update (c :: ·))
        ((r3.1, r3.2.1), fx ++ [Eff.opened c])
      else (st1, fx)


/-- one event of one thread on the store of all threads (one `ThreadLocal` instance: `TriggerHandler._callbacks`) -/
def stepGTL (cfg : List Trigger.Trig) (S : St Thr (List Ctx)) (te : Thr × Event) :
    St Thr (List Ctx) × List (Thr × Eff) :=
  let r := stepTL (cfg.length : Int) (Trigger.actionsFor cfg) S.calls (S.store te.1) te.2
  (⟨fun t => if t = te.1 then r.1.1 else S.store t, r.1.2⟩, r.2.map (fun e => (te.1, e)))

def runGTL (cfg : List Trigger.Trig) : St Thr (List Ctx) → List (Thr × Event) → St Thr (List Ctx) × List (Thr × Eff)
  | S, [] => (S, [])
  | S, te :: rest =>
    let r1 := stepGTL cfg S te
    let r2 := runGTL cfg r1.1 rest
    (r2.1, r1.2 ++ r2.2)

end HandlerTL
