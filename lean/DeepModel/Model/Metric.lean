/-
  Model/Metric — metric tracepoints (C17).

  From the source (Extracted.Expr, regenerated every run): `convertType` (`_convert_type`), `metricCanTrigger`
  (`MetricActionContext.can_trigger`), `metricCallArgs` (positional arguments of the processor call),
  `processorSignatures` (parameters of `MetricProcessor.counter/gauge/histogram/summary`), `namespaceOf`
  (`metric.namespace or "deep"`), `metricValueDefault`, `processorCallGuard` (the `try` around one processor call).
  Hand-written here: the two loops of `_process_action` (metrics outer, processors inner — shape checked by the
  extractor), `_process_metric` (shape checked), Python's `float()` for the generated alphabet, dict update.
-/
import DeepModel.Model.ActionCtx

namespace Metric
open Extracted.Expr Extracted.Limiter

/-- Python truthiness of an optional text: `None` and `''` are false -/
def truthy (o : Option String) : Option String :=
  match o with
  | none => none
  | some s => if s.isEmpty then none else some s

/-! ### `float(x)` and `repr` of the result, without floats

  ints print as `n.0` (|n| < 10^16; from 2^1024 on `float()` raises OverflowError), bools as `1.0` / `0.0`, a float is given by its `repr` already, a str is
  parsed as `[ws][sign] digits[.digits] | .digits [ws]` (underscores between digits allowed) and printed
  normalised — exact for decimals of at most 15 significant digits in [1e-4, 1e16) and for zero, which is what the
  generators produce.  Exponents, `inf`, `nan` are outside the modelled alphabet. -/

def isDigit (c : Char) : Bool := '0' ≤ c ∧ c ≤ '9'

/-- digits with single underscores between them; returns (digits, rest) -/
def digitPart : List Char → List Char × List Char
  | '_' :: c :: cs => ([], '_' :: c :: cs)
  | c :: cs => if isDigit c then go [c] cs else ([], c :: cs)
  | [] => ([], [])
where
  go (acc : List Char) : List Char → List Char × List Char
    | '_' :: c :: cs => if isDigit c then go (c :: acc) cs else (acc.reverse, '_' :: c :: cs)
    | c :: cs => if isDigit c then go (c :: acc) cs else (acc.reverse, c :: cs)
    | [] => (acc.reverse, [])

def dropLeadingZeros (ds : List Char) : List Char :=
  match ds.dropWhile (· = '0') with
  | [] => ['0']
  | r => r

def dropTrailingZeros (ds : List Char) : List Char :=
  match (ds.reverse.dropWhile (· = '0')).reverse with
  | [] => ['0']
  | r => r

def reprDecimal (neg : Bool) (ip fp : List Char) : String :=
  String.ofList ((if neg then ['-'] else []) ++ dropLeadingZeros ip ++ ['.'] ++ dropTrailingZeros fp)

def parseFloatText (s : String) : Option String :=
  let cs := (Py.strip s).toList
  let (neg, cs) : Bool × List Char :=
    match cs with
    | '-' :: r => (true, r)
    | '+' :: r => (false, r)
    | _ => (false, cs)
  match cs with
  | '.' :: r =>
    match digitPart r with
    | (fp, []) => if fp.isEmpty then none else some (reprDecimal neg [] fp)
    | _ => none
  | _ =>
    match digitPart cs with
    | (ip, []) => if ip.isEmpty then none else some (reprDecimal neg ip [])
    | (ip, ['.']) => if ip.isEmpty then none else some (reprDecimal neg ip [])
    | (ip, '.' :: r) =>
      if ip.isEmpty then none else
      match digitPart r with
      | (fp, []) => if fp.isEmpty then none else some (reprDecimal neg ip fp)
      | _ => none
    | _ => none

def intFloat (n : Int) : String := toString n ++ ".0"

/-- `repr(float(result))`; none = `float()` raises (TypeError / ValueError) -/
def floatRepr (o : Outcome) : Option String :=
  if o.failed || o.isExc then none else
  match o.val with
  | .int n => if n.natAbs ≥ 2 ^ 1024 then none else some (intFloat n)      -- OverflowError: int too large
  | .bool b => some (if b then "1.0" else "0.0")
  | .float r => some r
  | .str s => parseFloatText s
  | .other => none

/-! ### definitions, labels, calls -/

/-- a label: static values are carried opaquely (the harness' canonical text of the value; none = `None`) -/
structure Label where
  key : String
  static : Option String
  expr : Option String
deriving Repr, DecidableEq

structure MDef where
  name : String
  type : String
  labels : List Label
  expr : Option String
  ns : Option String
  help : Option String
  unit : Option String
deriving Repr, DecidableEq

inductive LVal
  | text (s : String)              -- `str(eval expression)`
  | static (s : Option String)     -- the static value as is
deriving Repr, DecidableEq

def labelValue (ev : String → Outcome) (l : Label) : LVal :=
  match truthy l.expr with
  | some e => .text (ev e).text
  | none => .static l.static

/-- `labels[key] = value` on an insertion-ordered dict (keys unique): an existing key keeps its position and
    takes the new value, a new key goes to the end -/
def dictSet : List (String × LVal) → String → LVal → List (String × LVal)
  | [], k, v => [(k, v)]
  | (k', v') :: rest, k, v => if k' = k then (k, v) :: rest else (k', v') :: dictSet rest k v

def labelsOf (ev : String → Outcome) (ls : List Label) : List (String × LVal) :=
  ls.foldl (fun d l => dictSet d l.key (labelValue ev l)) []

def defaultValue : String := intFloat metricValueDefault

def metricValue (ev : String → Outcome) (d : MDef) : String :=
  match truthy d.expr with
  | none => defaultValue
  | some e => (floatRepr (ev e)).getD defaultValue

inductive ArgVal
  | str (s : Option String)
  | labels (l : List (String × LVal))
  | num (v : String)
deriving Repr, DecidableEq

/-- what an argument expression of the processor call evaluates to -/
def argValue (ev : String → Outcome) (d : MDef) : MArg → ArgVal
  | .name => .str (some d.name)
  | .labels => .labels (labelsOf ev d.labels)
  | .namespace => .str (namespaceOf d.ns)
  | .namespaceRaw => .str d.ns
  | .help => .str d.help
  | .unit => .str d.unit
  | .value => .num (metricValue ev d)

/-- the operation `getattr(processor, op)` resolves to a metric operation of the processor interface -/
def validOp (op : String) : Bool := (processorSignatures.lookup op).isSome

/-- one call as a processor sees it: which processor, which operation, and what each of the operation's
    parameters (named by meaning, from the signature) received -/
structure Call where
  proc : Nat
  op : String
  args : List (MArg × ArgVal)
deriving Repr, DecidableEq

def callOf (ev : String → Outcome) (d : MDef) (j : Nat) : Call :=
  let op := convertType d.type
  ⟨j, op, ((processorSignatures.lookup op).getD []).zip (metricCallArgs.map (argValue ev d))⟩

/-- a processor: the attempt numbers (0-based, counted per processor) at which it raises an Exception -/
structure Proc where
  fails : List Nat
deriving Repr, DecidableEq

/-- inner loop: `for processor in metric_processors: [try:] getattr(processor, op)(...)`.
    `k` = number of calls this hit has attempted on each processor so far.  Second component: the loop was left by
    an exception (no guard). -/
def procLoop (ev : String → Outcome) (d : MDef) (k : Nat) : Nat → List Proc → List Call × Bool
  | _, [] => ([], false)
  | j, p :: ps =>
    if validOp (convertType d.type) && !p.fails.contains k then
      let r := procLoop ev d k (j + 1) ps
      (callOf ev d j :: r.1, r.2)
    else if processorCallGuard.isSome then procLoop ev d k (j + 1) ps
    else ([], true)

/-- outer loop: `for metric in metrics` -/
def metricLoop (ev : String → Outcome) (procs : List Proc) : Nat → List MDef → List Call
  | _, [] => []
  | k, d :: ds =>
    let r := procLoop ev d k 0 procs
    if r.2 then r.1
    else r.1 ++ metricLoop ev procs (if validOp (convertType d.type) then k + 1 else k) ds

/-- `MetricActionContext._process_action` -/
def process (ev : String → Outcome) (procs : List Proc) (defs : List MDef) : List Call := metricLoop ev procs 0 defs

def callsTo (q : Nat) (cs : List Call) : List Call := cs.filter (fun c => c.proc == q)

/-! ### hits -/

structure Cfg where
  act : ActionCtx.Cfg
  defs : List MDef
deriving Repr

/-- a hit: time stamp + condition outcome, and the oracle for the frame of this hit -/
structure Hit where
  hit : ActionCtx.Hit
  ev : String → Outcome

/-- one hit of a metric action: new stats, calls made, oracle calls made for the condition -/
def stepHit (c : Cfg) (procs : List Proc) (st : Stats) (h : Hit) : Stats × List Call × Nat :=
  let r := metricCanTrigger (!procs.isEmpty) (fun _ => ActionCtx.check c.act st h.hit)
  if r.1 then (fire st h.hit.ts, process h.ev procs c.defs, r.2) else (st, [], r.2)

def runFrom (c : Cfg) (procs : List Proc) : Stats → List Hit → Stats × List (List Call × Nat)
  | st, [] => (st, [])
  | st, h :: hs =>
    let r := stepHit c procs st h
    let rest := runFrom c procs r.1 hs
    (rest.1, (r.2.1, r.2.2) :: rest.2)

end Metric
