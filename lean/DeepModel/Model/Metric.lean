/-
  Model/Metric — metric tracepoints (C17).

  From the source (Extracted.Expr, regenerated every run): `convertType` (`_convert_type`), `metricCanTrigger`
  (`MetricActionContext.can_trigger`), `metricCallArgs` (positional arguments of the processor call),
  `processorSignatures` (parameters of `MetricProcessor.counter/gauge/histogram/summary`), `namespaceOf`
  (`metric.namespace or "deep"`), `metricValueDefault`, `processorCallGuard` (the `try` around one processor call).
  Hand-written here: the two loops of `_process_action` (metrics outer, processors inner — shape checked by the
  extractor), `_process_metric` (shape checked), Python's `float()` for the generated alphabet, dict update.
-/
import DeepModel.Model.ActionCtx

namespace Metric
open Extracted.Expr Extracted.Limiter

/-- Python truthiness of an optional text: `None` and `''` are false -/
def truthy (o : Option String) : Option String :=
  match o with
  | none => none
  | some s => if s.isEmpty then none else some s

/-! ### `float(x)` and `repr` of the result, without floats

  A float is given by its `repr` already; bools are `1.0` / `0.0`; an int or a text is read as a decimal (`Dec`:
  sign, significant digits, position of the point; text may carry `_` between digits and an exponent; `inf` /
  `nan` words) and printed the way CPython prints the nearest double (`Dec.repr`).  That print is CPython's answer
  for decimals of at most 15 significant digits with |exponent| ≤ 300 (`Dec.inAlphabet`): beyond that the nearest
  double need not have the decimal itself as its shortest representation (2^53+1 prints as …992.0) — outside the
  modelled alphabet, crossed by the generators in a stream that is judged by the oracle only. -/

def isDigit (c : Char) : Bool := '0' ≤ c ∧ c ≤ '9'

/-- digits with single underscores between them; returns (digits, rest) -/
def digitPart : List Char → List Char × List Char
  | '_' :: c :: cs => ([], '_' :: c :: cs)
  | c :: cs => if isDigit c then go [c] cs else ([], c :: cs)
  | [] => ([], [])
where
  go (acc : List Char) : List Char → List Char × List Char
    | '_' :: c :: cs => if isDigit c then go (c :: acc) cs else (acc.reverse, '_' :: c :: cs)
    | c :: cs => if isDigit c then go (c :: acc) cs else (acc.reverse, c :: cs)
    | [] => (acc.reverse, [])

/-- a decimal number: sign, significant digits (no leading / trailing zeros; empty = zero) and `decpt`: the value is
    0.d₁d₂…dₙ × 10^decpt -/
structure Dec where
  neg : Bool
  digits : List Char
  decpt : Int
deriving Repr, DecidableEq

/-- normalise all digits `ds` of a literal whose decimal point sits after `point` of them -/
def mkDec (neg : Bool) (ds : List Char) (point : Int) : Dec :=
  let lead := (ds.takeWhile (· = '0')).length
  let body := ((ds.drop lead).reverse.dropWhile (· = '0')).reverse
  if body.isEmpty then ⟨neg, [], 0⟩ else ⟨neg, body, point - lead⟩

def natDigitsFuel : Nat → Nat → List Char → List Char
  | 0, _, acc => acc
  | f + 1, n, acc =>
    if n < 10 then Char.ofNat (48 + n) :: acc else natDigitsFuel f (n / 10) (Char.ofNat (48 + n % 10) :: acc)

/-- decimal digits of a natural number (up to 400 digits — more than any int `float()` accepts) -/
def natDigits (n : Nat) : List Char := natDigitsFuel 400 n []

/-- `repr` of the float nearest to the decimal — CPython's `float_repr_style = 'short'`: the shortest digit string
    that round-trips, in fixed notation when -4 < decpt ≤ 16, else in exponent notation with at least two exponent
    digits.  Exact when the decimal has at most 15 significant digits (every such decimal is the shortest
    representation of its nearest double) and lies well inside the double range (`Dec.inAlphabet`). -/
def Dec.repr (d : Dec) : String :=
  let sign : List Char := if d.neg then ['-'] else []
  match d.digits with
  | [] => String.ofList (sign ++ "0.0".toList)
  | d1 :: rest =>
    let n : Int := (d.digits.length : Int)
    if -4 < d.decpt ∧ d.decpt ≤ 16 then
      if d.decpt ≤ 0 then
        String.ofList (sign ++ '0' :: '.' :: (List.replicate (-d.decpt).toNat '0' ++ d.digits))
      else if d.decpt ≥ n then
        String.ofList (sign ++ d.digits ++ List.replicate (d.decpt - n).toNat '0' ++ ".0".toList)
      else
        String.ofList (sign ++ d.digits.take d.decpt.toNat ++ '.' :: d.digits.drop d.decpt.toNat)
    else
      let e : Int := d.decpt - 1
      let ed := natDigits e.natAbs
      let ed := if ed.length < 2 then '0' :: ed else ed
      String.ofList (sign ++ d1 :: ((if rest.isEmpty then [] else '.' :: rest) ++ 'e' :: (if e < 0 then '-' else '+') :: ed))

/-- the inputs on which `Dec.repr` is CPython's answer -/
def Dec.inAlphabet (d : Dec) : Bool := d.digits.length ≤ 15 && decide (-300 ≤ d.decpt) && decide (d.decpt ≤ 300)

/-- `[eE][+-]?digits` (underscores between digits allowed); returns the exponent -/
def parseExp (cs : List Char) : Option Int :=
  match cs with
  | e :: rest =>
    if e = 'e' ∨ e = 'E' then
      let (neg, ds) : Bool × List Char :=
        match rest with
        | '-' :: r => (true, r)
        | '+' :: r => (false, r)
        | _ => (false, rest)
      match digitPart ds with
      | (x, []) => if x.isEmpty then none else
          let v : Nat := x.foldl (fun acc c => acc * 10 + (c.toNat - 48)) 0
          some (if neg then -(v : Int) else (v : Int))
      | _ => none
    else none
  | [] => none

/-- mantissa `digits[.digits] | .digits | digits.` then optional exponent, everything consumed -/
def parseDec (neg : Bool) (cs : List Char) : Option Dec :=
  let finish (ip fp : List Char) (rest : List Char) : Option Dec :=
    if ip.isEmpty && fp.isEmpty then none else
    match rest with
    | [] => some (mkDec neg (ip ++ fp) ip.length)
    | _ => match parseExp rest with
      | some e => some (mkDec neg (ip ++ fp) (ip.length + e))
      | none => none
  match cs with
  | '.' :: r =>
    let (fp, rest) := digitPart r
    if fp.isEmpty then none else finish [] fp rest
  | _ =>
    let (ip, rest) := digitPart cs
    if ip.isEmpty then none else
    match rest with
    | '.' :: r =>
      let (fp, rest') := digitPart r
      -- `1._5` is not a number: after the point either a digit part or nothing
      (match r with
       | '_' :: _ => none
       | _ => finish ip fp rest')
    | _ => finish ip [] rest

/-- `repr(float(s))` for text; none = ValueError -/
def parseFloatText (s : String) : Option String :=
  let cs := (Py.strip s).toList
  let (neg, cs) : Bool × List Char :=
    match cs with
    | '-' :: r => (true, r)
    | '+' :: r => (false, r)
    | _ => (false, cs)
  let low := String.ofList (cs.map Char.toLower)
  if low = "inf" ∨ low = "infinity" then some (if neg then "-inf" else "inf")
  else if low = "nan" then some "nan"
  else (parseDec neg cs).map Dec.repr

/-- is the text inside the alphabet on which `parseFloatText` is CPython's `repr(float(s))` -/
def textInAlphabet (s : String) : Bool :=
  let cs := (Py.strip s).toList
  let cs := match cs with | '-' :: r => r | '+' :: r => r | _ => cs
  match parseDec false cs with
  | some d => d.inAlphabet
  | none => true

def intDec (n : Int) : Dec := mkDec (decide (n < 0)) (natDigits n.natAbs) (natDigits n.natAbs).length

/-- 2^1024 − 2^970: the smallest int whose nearest double would be 2^1024 (written out: the elaborator does not
    evaluate such powers) -/
def floatOverflowFrom : Nat :=
  179769313486231580793728971405303415079934132710037826936173778980444968292764750946649017977587207096330286416692887910946555547851940402630657488671505820681908902000708383676273854845817711531764475730270069855571366959622842914819860834936475292719074168444365510704342711559699508093042880177904174497792

/-- `repr(float(n))` for an int: OverflowError from 2^1024 − 2^970 on -/
def intFloat (n : Int) : Option String :=
  if n.natAbs ≥ floatOverflowFrom then none else some (intDec n).repr

/-- `repr(float(result))`; none = `float()` raises (TypeError / ValueError / OverflowError) -/
def floatRepr (o : Outcome) : Option String :=
  if o.failed || o.isExc then none else
  match o.val with
  | .int n => intFloat n
  | .bool b => some (if b then "1.0" else "0.0")
  | .float r => some r
  | .str s => parseFloatText s
  | .other => none

/-! ### definitions, labels, calls -/

/-- a label: static values are carried opaquely (the harness' canonical text of the value; none = `None`) -/
structure Label where
  key : String
  static : Option String
  expr : Option String
deriving Repr, DecidableEq

structure MDef where
  name : String
  type : String
  labels : List Label
  expr : Option String
  ns : Option String
  help : Option String
  unit : Option String
deriving Repr, DecidableEq

inductive LVal
  | text (s : String)              -- `str(eval expression)`
  | static (s : Option String)     -- the static value as is
deriving Repr, DecidableEq

def labelValue (ev : String → Outcome) (l : Label) : LVal :=
  match truthy l.expr with
  | some e => .text (if (ev e).strRaises then labelFailedText else (ev e).text)   -- `str(...)` raising: the failure text
  | none => .static l.static

/-- `labels[key] = value` on an insertion-ordered dict (keys unique): an existing key keeps its position and
    takes the new value, a new key goes to the end -/
def dictSet : List (String × LVal) → String → LVal → List (String × LVal)
  | [], k, v => [(k, v)]
  | (k', v') :: rest, k, v => if k' = k then (k, v) :: rest else (k', v') :: dictSet rest k v

def labelsOf (ev : String → Outcome) (ls : List Label) : List (String × LVal) :=
  ls.foldl (fun d l => dictSet d l.key (labelValue ev l)) []

/-- the value as it reaches the processor, with its Python type: `float:<repr>` for a converted expression; the
    default is the literal of the source — an `int` when written `1` -/
def defaultValue : String :=
  if metricValueDefaultIsInt then
    String.ofList ("int:".toList ++ (if metricValueDefault < 0 then ['-'] else []) ++ natDigits metricValueDefault.natAbs)
  else "float:" ++ (intFloat metricValueDefault).getD ""

def metricValue (ev : String → Outcome) (d : MDef) : String :=
  match truthy d.expr with
  | none => defaultValue
  | some e => match floatRepr (ev e) with
    | some r => "float:" ++ r
    | none => defaultValue

inductive ArgVal
  | str (s : Option String)
  | labels (l : List (String × LVal))
  | num (v : String)
deriving Repr, DecidableEq

/-- what an argument expression of the processor call evaluates to -/
def argValue (ev : String → Outcome) (d : MDef) : MArg → ArgVal
  | .name => .str (some d.name)
  | .labels => .labels (labelsOf ev d.labels)
  | .namespace => .str (namespaceOf d.ns)
  | .namespaceRaw => .str d.ns
  | .help => .str d.help
  | .unit => .str d.unit
  | .value => .num (metricValue ev d)

/-- the operation `getattr(processor, op)` resolves to a metric operation of the processor interface -/
def validOp (op : String) : Bool := (processorSignatures.lookup op).isSome

/-- one call as a processor sees it: which processor, which operation, and what each of the operation's
    parameters (named by meaning, from the signature) received -/
structure Call where
  proc : Nat
  op : String
  args : List (MArg × ArgVal)
deriving Repr, DecidableEq

def callOf (ev : String → Outcome) (d : MDef) (j : Nat) : Call :=
  let op := convertType d.type
  ⟨j, op, ((processorSignatures.lookup op).getD []).zip (metricCallArgs.map (argValue ev d))⟩

/-- a processor: the attempt numbers (0-based, counted per processor) at which it raises an Exception -/
structure Proc where
  fails : List Nat
deriving Repr, DecidableEq

/-- inner loop: `for processor in metric_processors: [try:] getattr(processor, op)(...)`.
    `k` = number of calls this hit has attempted on each processor so far.  Second component: the loop was left by
    an exception (no guard). -/
def procLoop (ev : String → Outcome) (d : MDef) (k : Nat) : Nat → List Proc → List Call × Bool
  | _, [] => ([], false)
  | j, p :: ps =>
    if validOp (convertType d.type) && !p.fails.contains k then
      let r := procLoop ev d k (j + 1) ps
      (callOf ev d j :: r.1, r.2)
    else if processorCallGuard.isSome then procLoop ev d k (j + 1) ps
    else ([], true)

/-- outer loop: `for metric in metrics` -/
def metricLoop (ev : String → Outcome) (procs : List Proc) : Nat → List MDef → List Call
  | _, [] => []
  | k, d :: ds =>
    let r := procLoop ev d k 0 procs
    if r.2 then r.1
    else r.1 ++ metricLoop ev procs (if validOp (convertType d.type) then k + 1 else k) ds

/-- `MetricActionContext._process_action` -/
def process (ev : String → Outcome) (procs : List Proc) (defs : List MDef) : List Call := metricLoop ev procs 0 defs

def callsTo (q : Nat) (cs : List Call) : List Call := cs.filter (fun c => c.proc == q)

/-! ### hits -/

structure Cfg where
  act : ActionCtx.Cfg
  defs : List MDef
deriving Repr

/-- a hit: time stamp + condition outcome, and the oracle for the frame of this hit -/
structure Hit where
  hit : ActionCtx.Hit
  ev : String → Outcome

/-- one hit of a metric action: new stats, calls made, oracle calls made for the condition -/
def stepHit (c : Cfg) (procs : List Proc) (st : Stats) (h : Hit) : Stats × List Call × Nat :=
  let r := metricCanTrigger (!procs.isEmpty) (fun _ => ActionCtx.check c.act st h.hit)
  if r.1 then (fire st h.hit.ts, process h.ev procs c.defs, r.2) else (st, [], r.2)

def runFrom (c : Cfg) (procs : List Proc) : Stats → List Hit → Stats × List (List Call × Nat)
  | st, [] => (st, [])
  | st, h :: hs =>
    let r := stepHit c procs st h
    let rest := runFrom c procs r.1 hs
    (rest.1, (r.2.1, r.2.2) :: rest.2)

end Metric
