/-
  Model/LimiterHandOver — the hand-over of a configuration change to the trigger handler is NOT immediate (C04 ∩ C12).

  `TracepointConfigService.__trigger_update` only SUBMITS `update_listeners` to the task pool; until a pool worker has run
  it the trigger handler keeps the configuration it had: a tracepoint that was removed / unregistered keeps firing, a new
  one does not fire yet, a re-delivered one is still the old object.  `Model/LimiterInstall.stepOp` folds the hand-over
  into the operation.  Here the two are separate: `.op` changes what the SERVICE holds, `.applied` is the pool worker
  handing it to the handler, hits go to what the HANDLER holds.  `atOnce` is the named assumption under which the two
  models coincide (Props/C04: `c04_handover_at_once`).
-/
import DeepModel.Model.LimiterInstall

namespace Limiter
open Extracted.Limiter

inductive OpD where
  | op (o : Op)
  | applied
deriving DecidableEq, Repr

/-- what the service holds for our tracepoint, relative to what the handler holds: the same object / a NEW object
    (built since the last hand-over) / nothing -/
inductive Pending where
  | same | fresh | gone
deriving DecidableEq, Repr

def svInstalled (hd : Option Stats) : Pending → Bool
  | .same => hd.isSome
  | .fresh => true
  | .gone => false

/-- a statistics value no run produces, to read off `stepOp` whether an operation keeps the object -/
def marked : Stats := ⟨-1, -1⟩

/-- what a configuration operation does on the service side, read off `stepOp` (no second copy of its table) -/
def effect (c : Cfg) (o : Origin) (inst : Bool) (op : Op) : Pending :=
  match (stepOp c o (if inst then some marked else none) op).1 with
  | none => if inst then .gone else .same
  | some st => if inst && st == marked then .same else .fresh

def compose (p e : Pending) : Pending := match e with | .same => p | e => e

/-- what the handler holds after the hand-over -/
def resolve (hd : Option Stats) : Pending → Option Stats
  | .same => hd
  | .fresh => some Stats.init
  | .gone => none

def stepD (c : Cfg) (o : Origin) (hd : Option Stats) (p : Pending) : OpD → (Option Stats × Pending) × Option Int
  | .applied => ((resolve hd p, .same), none)
  | .op (.hit h) => let r := stepOp c o hd (.hit h); ((r.1, p), r.2)
  | .op cfg => ((hd, compose p (effect c o (svInstalled hd p) cfg)), none)

def runOpsDFrom (c : Cfg) (o : Origin) : Option Stats → Pending → List OpD → List Int
  | _, _, [] => []
  | hd, p, d :: ds =>
    let r := stepD c o hd p d
    outOf r.2 ++ runOpsDFrom c o r.1.1 r.1.2 ds

def runOpsD (c : Cfg) (o : Origin) (ds : List OpD) : List Int := runOpsDFrom c o none .same ds

/-- **hand-over at once** — every configuration operation is followed by its hand-over before anything else happens -/
def atOnce : List OpD → Bool
  | [] => true
  | .applied :: r => atOnce r
  | .op (.hit _) :: r => atOnce r
  | .op _ :: .applied :: r => atOnce r
  | .op _ :: _ => false

def stripD (ds : List OpD) : List Op := ds.filterMap (fun d => match d with | .op o => some o | .applied => none)

end Limiter
