/-
  Model/Collector — the variable collector of a snapshot action (C05, C06, C07; used by C02).

  One `step` is one iteration of `breadth_first_search` with `VariableSetProcessor.search_function` as the
  consumer; `run k` iterates it; `runToEnd` iterates it `fuelBound` times, which is proved sufficient
  (`Proofs/CollectorTerm`).  On top: `processVariable` (one `VariableSetProcessor.process_variable` call),
  `collectFrames` (`FrameCollector.collect` with the locals "unwrap"), `collectWatches` (`eval_watch` for watches
  and log fields, `process_capture_variable`), `collect` (`SnapshotActionContext._process_action`) and
  `processActions` (the per-action loop of `trace_call`).

  Every *decision* is taken by a definition of `Extracted.Collector` (regenerated from the Python source on
  every run): budget test, id arithmetic, truncation, depth test, collection cap, type-name lists, rendering kind,
  order of the kind tests, queue end, modifiers, private-name correction, scopes of cache and table.
  Core Lean only.
-/
import DeepModel.Extracted.Collector
import DeepModel.Model.Heap

namespace Collector
open Heap Extracted.Collector

structure Limits where
  maxVars : Nat
  maxStr : Nat
  maxColl : Nat
  maxDepth : Nat
deriving Repr, DecidableEq

def Limits.default : Limits := ⟨defaultMaxVars, defaultMaxStr, defaultMaxColl, defaultMaxDepth⟩

/-- `VariableId`: a reference to an entry of the table.  `obj` is a ghost: the object the reference was made for. -/
structure VarId where
  vid : Nat
  name : String
  mods : List String
  orig : Option String
  obj : ObjId
deriving Repr, DecidableEq

/-- `Variable` with its key in `var_lookup`.  `depth` is a ghost: the depth of the node that recorded it. -/
structure Entry where
  vid : Nat
  ty : String
  value : String
  obj : ObjId
  children : List VarId
  truncated : Bool
  depth : Nat
deriving Repr, DecidableEq

/-- a `bfs.Node` waiting in the work list; `parent = none` is the `FrameParent` of the root -/
structure Node where
  name : String
  orig : Option String
  obj : ObjId
  depth : Nat
  parent : Option Nat
deriving Repr, DecidableEq

abbrev Cache := List (ObjId × Nat)

structure BState where
  queue : List Node
  cache : Cache
  table : List Entry
  rootIds : List VarId
  /-- `check_var_count` failed: the search returned -/
  stopped : Bool
  /-- an exception left the search (text of the exception) -/
  failed : Option String
  /-- ghost: nodes taken from the work list that passed the budget test, in order -/
  popped : List Node
  /-- ghost: the nodes that got a new id, with that id, in order -/
  recorded : List (Node × Nat)
deriving Repr

/-- `VariableCacheProvider.check_id` -/
def lookupId (c : Cache) (o : ObjId) : Option Nat :=
  match c with
  | [] => none
  | (o', id) :: rest => if o' = o then some id else lookupId rest o

/-- `safe_str` -/
def safeStr (o : PyObj) : String := o.str.getD o.placeholder

/-- `variable_to_string` -/
def renderText (o : PyObj) : Except String String :=
  match renderKind o.tyName o.isDictExact with
  | .typeFmt pre post => .ok (pre ++ o.tyRepr ++ post)
  | .lenFmt pre post =>
    match o.len with
    | .ok n => .ok (pre ++ toString n ++ post)
    | .raises m => if lenGuarded then .ok (safeStr o) else .error m
  | .safeStr => .ok (safeStr o)

/-- `NodeValue.__init__`: the original name is kept only when it differs from the name -/
def nodeOrig (name : String) (orig : Option String) : Option String :=
  match orig with
  | some o => if name != o then some o else none
  | none => none

/-- `process_dict_breadth_first` -/
def dictChildren (f : String → String) (pvid depth : Nat) (items : List (Key × ObjId)) : List Node :=
  items.map (fun kv => ⟨f kv.1.text, nodeOrig (f kv.1.text) (if kv.1.isStr then some kv.1.text else none),
                        kv.2, depth, some pvid⟩)

/-- `process_list_breadth_first` -/
def listChildrenFrom (maxColl pvid depth : Nat) : List ObjId → Nat → List Node
  | [], _ => []
  | v :: vs, total =>
    if collStop total maxColl then []
    else ⟨toString total, none, v, depth, some pvid⟩ :: listChildrenFrom maxColl pvid depth vs (total + 1)

def probeList {α : Type} (p : Probe (List α)) (f : List α → List Node) : Except String (List Node) :=
  match p with
  | .ok xs => .ok (f xs)
  | .raises m => .error m

/-- `find_children_for_parent`, following the extracted order of the kind tests -/
def branchChildren (L : Limits) (pvid depth : Nat) (o : PyObj) : List Branch → Except String (List Node)
  | [] => .ok []
  | .dictExact :: bs =>
    if o.isDictExact then .ok (dictChildren id pvid depth o.dictItems) else branchChildren L pvid depth o bs
  | .listLike :: bs =>
    if listLikeTypes.contains o.tyName then probeList o.seq (fun xs => listChildrenFrom L.maxColl pvid depth xs 0)
    else branchChildren L pvid depth o bs
  | .isException :: bs =>
    match o.isExc with
    | .raises m => .error m
    | .ok true => probeList o.excArgs (fun xs => listChildrenFrom L.maxColl pvid depth xs 0)
    | .ok false => branchChildren L pvid depth o bs
  | .hasDict :: bs =>
    match o.hasDict with
    | .raises m => .error m
    | .ok true => probeList o.attrs (fun kvs => dictChildren (correctNames o.tyName) pvid depth kvs)
    | .ok false => branchChildren L pvid depth o bs

/-- `process_child_nodes` for a value recorded under `pvid` by a node of depth `depth` -/
def childNodes (L : Limits) (pvid : Nat) (o : PyObj) (depth : Nat) : Except String (List Node) :=
  if noChildTypes.contains o.tyName then .ok []
  else if depthStop depth L.maxDepth then .ok []
  else
    match branchChildren L pvid (depth + 1) o childBranches with
    | .ok cs => .ok cs
    | .error m => if childrenGuarded then .ok [] else .error m

def mkRef (n : Node) (id : Nat) : VarId := ⟨id, n.name, varModifiers n.name, n.orig, n.obj⟩

def addChild (p : Nat) (c : VarId) (t : List Entry) : List Entry :=
  t.map (fun e => if e.vid = p then { e with children := e.children ++ [c] } else e)

/-- `node.parent.add_child(var_id)` -/
def attach (parent : Option Nat) (c : VarId) (s : BState) : BState :=
  match parent with
  | none => { s with rootIds := s.rootIds ++ [c] }
  | some p => { s with table := addChild p c s.table }

def popWith (e : QueueEnd) (q : List Node) : Option (Node × List Node) :=
  match e with
  | .front =>
    match q with
    | [] => none
    | n :: r => some (n, r)
  | .back =>
    match q.getLast? with
    | none => none
    | some n => some (n, q.dropLast)

def pop (q : List Node) : Option (Node × List Node) := popWith queueEnd q

def BState.final (s : BState) : Bool := s.stopped || s.failed.isSome || s.queue.isEmpty

def newId (c : Cache) : Nat := (newVarId c.length).toNat

def budgetOk (L : Limits) (c : Cache) : Bool := checkVarCount c.length L.maxVars

def mkEntry (L : Limits) (id : Nat) (o : PyObj) (text : String) (n : Node) : Entry :=
  let tv := truncateString text L.maxStr
  ⟨id, o.tyName, tv.1, n.obj, [], tv.2, n.depth⟩

/-- one iteration of the `while` loop of `breadth_first_search` (a final state does not move).  When the search
    returns early (budget, exception) the work list is left as it is and the state is marked instead. -/
def step (H : Heap) (L : Limits) (s : BState) : BState :=
  if s.final then s else
  match pop s.queue with
  | none => s
  | some (n, rest) =>
    if !budgetOk L s.cache then { s with stopped := true }
    else
      match lookupId s.cache n.obj with
      | some id => attach n.parent (mkRef n id) { s with queue := rest, popped := s.popped ++ [n] }
      | none =>
        let id := newId s.cache
        let o := H.obj n.obj
        let s1 := { s with cache := s.cache ++ [(n.obj, id)] }
        match renderText o with
        | .error m => { s1 with failed := some m }
        | .ok text =>
          let s2 := attach n.parent (mkRef n id)
            { s1 with table := s1.table ++ [mkEntry L id o text n], popped := s.popped ++ [n],
                      recorded := s.recorded ++ [(n, id)] }
          match childNodes L id o n.depth with
          | .error m => { s2 with queue := rest, failed := some m }
          | .ok cs => { s2 with queue := rest ++ cs }

def run (H : Heap) (L : Limits) : Nat → BState → BState
  | 0, s => s
  | k + 1, s => run H L k (step H L s)

/-- the state `VariableSetProcessor.process_variable` starts the search in, after the value-less root node has
    been looked at (budget test, then its one child — the named value — is queued at depth 0) -/
def bfsInit (L : Limits) (c : Cache) (t : List Entry) (name : String) (obj : ObjId) : BState :=
  if budgetOk L c then ⟨[⟨name, none, obj, 0, none⟩], c, t, [], false, none, [], []⟩
  else ⟨[], c, t, [], true, none, [], []⟩

/-- enough iterations for any search to finish (`Proofs/CollectorTerm.run_fuelBound_final`) -/
def fuelBound (H : Heap) (L : Limits) (s : BState) : Nat :=
  s.queue.length + (L.maxVars + 1 - s.cache.length) * (H.maxKids + 1) + 1

def runToEnd (H : Heap) (L : Limits) (s : BState) : BState := run H L (fuelBound H L s) s

/-- result of one `VariableSetProcessor.process_variable(name, value)` -/
structure PV where
  cache : Cache
  table : List Entry
  vid : Option Nat
  failed : Option String
deriving Repr

def processVariable (H : Heap) (L : Limits) (c : Cache) (t : List Entry) (name : String) (obj : ObjId) : PV :=
  match lookupId c obj with
  | some id => ⟨c, t, some id, none⟩
  | none =>
    let s := runToEnd H L (bfsInit L c t name obj)
    ⟨s.cache, s.table, lookupId s.cache obj, s.failed⟩

/-! ### the snapshot action -/

structure FrameIn where
  locals : ObjId
  /-- `should_collect_vars(index) and not time_exceeded` -/
  collect : Bool
deriving Repr, DecidableEq

inductive Source | watch | log | capture
deriving Repr, DecidableEq

/-- an expression of the action with the object `evaluate_expression` returned for it (an exception raised by
    the expression is returned as an object too) or the captured return value / exception triple -/
structure WatchIn where
  source : Source
  expr : String
  value : ObjId
deriving Repr, DecidableEq

structure ActionIn where
  limits : Limits
  frames : List FrameIn
  watches : List WatchIn
deriving Repr

/-- `WatchResult`: `hasResult` = a `VariableId` is attached; its `vid` may still be `None` -/
structure WatchOut where
  source : Source
  expr : String
  hasResult : Bool
  vid : Option Nat
  error : Option String
  obj : ObjId
deriving Repr, DecidableEq

structure Snapshot where
  frames : List (List VarId)
  table : List Entry
  watches : List WatchOut
deriving Repr, DecidableEq

inductive Outcome where
  | failed (msg : String)
  | ok (s : Snapshot)
deriving Repr, DecidableEq

def findEntry (t : List Entry) (v : Nat) : Option Entry :=
  match t with
  | [] => none
  | e :: es => if e.vid = v then some e else findEntry es v

def removeEntry (t : List Entry) (v : Nat) : List Entry := t.filter (fun e => e.vid ≠ v)

/-- the "unwrap" of `_process_frame`: the entry of the locals dict is removed and its children become the
    variables of the frame -/
def unwrap (t : List Entry) (vid : Option Nat) : List VarId × List Entry :=
  match vid with
  | none => ([], t)
  | some v =>
    match findEntry t v with
    | some e => (e.children, removeEntry t v)
    | none => ([], t)

structure FramesOut where
  cache : Cache
  table : List Entry
  frames : List (List VarId)
  failed : Option String
deriving Repr

/-- `FrameCollector.collect`: one table and one cache for all frames -/
def collectFrames (H : Heap) (L : Limits) : List FrameIn → Cache → List Entry → FramesOut
  | [], c, t => ⟨c, t, [], none⟩
  | f :: fs, c, t =>
    if !f.collect then
      let r := collectFrames H L fs c t
      { r with frames := [] :: r.frames }
    else
      let pv := processVariable H L c t localsName f.locals
      match pv.failed with
      | some m => ⟨pv.cache, pv.table, [], some m⟩
      | none =>
        let u := unwrap pv.table pv.vid
        let r := collectFrames H L fs pv.cache u.2
        { r with frames := u.1 :: r.frames }

structure WatchesOut where
  cache : Cache
  table : List Entry
  outs : List WatchOut
  failed : Option String
deriving Repr

/-- `eval_watch` for watches and log fields (own table, merged on success; failures contained per watch) and
    `process_capture_variable` (no containment of failures; the budget guard is the extracted one) -/
def collectWatches (H : Heap) (L : Limits) : List WatchIn → Cache → List Entry → WatchesOut
  | [], c, t => ⟨c, t, [], none⟩
  | w :: ws, c, t =>
    let pv := processVariable H L c [] w.expr w.value
    match w.source with
    | .capture =>
      match pv.failed with
      | some m => ⟨pv.cache, t, [], some m⟩
      | none =>
        match pv.vid, captureLimitError with
        | none, some msg =>
          let r := collectWatches H L ws pv.cache t
          { r with outs := ⟨w.source, w.expr, false, none, some msg, w.value⟩ :: r.outs }
        | v, _ =>
          let r := collectWatches H L ws pv.cache (t ++ pv.table)
          { r with outs := ⟨w.source, w.expr, true, v, none, w.value⟩ :: r.outs }
    | _ =>
      match pv.failed with
      | some m =>
        let r := collectWatches H L ws pv.cache t
        { r with outs := ⟨w.source, w.expr, false, none, some m, w.value⟩ :: r.outs }
      | none =>
        match pv.vid, watchLimitError with
        | none, some msg =>
          let r := collectWatches H L ws pv.cache t
          { r with outs := ⟨w.source, w.expr, false, none, some msg, w.value⟩ :: r.outs }
        | v, _ =>
          let r := collectWatches H L ws pv.cache (t ++ pv.table)
          { r with outs := ⟨w.source, w.expr, true, v, none, w.value⟩ :: r.outs }

structure CollectOut where
  cache : Cache
  table : List Entry
  outcome : Outcome
deriving Repr

/-- `SnapshotActionContext._process_action` started with a given cache and table -/
def collectFrom (H : Heap) (a : ActionIn) (c : Cache) (t : List Entry) : CollectOut :=
  let fr := collectFrames H a.limits a.frames c t
  match fr.failed with
  | some m => ⟨fr.cache, fr.table, .failed m⟩
  | none =>
    let wr := collectWatches H a.limits a.watches fr.cache fr.table
    match wr.failed with
    | some m => ⟨wr.cache, wr.table, .failed m⟩
    | none => ⟨wr.cache, wr.table, .ok ⟨fr.frames, wr.table, wr.outs⟩⟩

/-- a snapshot action on its own -/
def collect (H : Heap) (a : ActionIn) : Outcome := (collectFrom H a [] []).outcome

/-! ### the class name of `self` (`_process_frame` reads it for every frame, collected or not) -/

/-- `f_locals.get('self', None)` with the `is not None` test: the object bound to the local `self`, unless it is `None` -/
def selfOf (H : Heap) (locals : ObjId) : Option ObjId :=
  match (H.obj locals).dictItems.find? (fun kv => kv.1.isStr && kv.1.text == "self") with
  | none => none
  | some kv => if (H.obj kv.2).tyName == "NoneType" then none else some kv.2

/-- the first frame whose `_self.__class__.__name__` raises, when the read is not guarded: the exception leaves
    `_process_frame` and the action produces no snapshot -/
def selfClassFailure (H : Heap) : List FrameIn → Option String
  | [] => none
  | f :: fs =>
    match selfOf H f.locals with
    | none => selfClassFailure H fs
    | some o =>
      match (H.obj o).clsName with
      | .ok _ => selfClassFailure H fs
      | .raises m => if selfClassGuarded then selfClassFailure H fs else some m

/-- the whole `_process_action`: the frame walk with its class-name reads, then the collection -/
def snapshotAction (H : Heap) (a : ActionIn) : Outcome :=
  match selfClassFailure H a.frames with
  | some m => .failed m
  | none => collect H a

/-- what the trigger context could hand from one action to the next -/
structure TrigState where
  cache : Cache
  table : List Entry
deriving Repr

/-- the loop over the actions of one trace event: where each action's cache and table come from is decided by
    the extracted scopes -/
def processActions (H : Heap) : TrigState → List ActionIn → List Outcome
  | _, [] => []
  | ts, a :: as =>
    let c0 := match cacheScope with | .perAction => [] | .perTrigger => ts.cache
    let t0 := match tableScope with | .perAction => [] | .perTrigger => ts.table
    let r := collectFrom H a c0 t0
    (match selfClassFailure H a.frames with | some m => .failed m | none => r.outcome) ::
      processActions H ⟨r.cache, r.table⟩ as

end Collector
