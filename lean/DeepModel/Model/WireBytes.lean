/-
  Model/WireBytes — the protobuf WIRE FORMAT (C08 "…and survives serialisation"), core Lean only.

  Layer 1 (schema free): a serialised message is a sequence of records `tag payload`, tag = varint (field number * 8
  + wire type); payloads: varint (wire type 0), 8 bytes little endian (1: fixed64 / double), length-delimited (2:
  string, bytes, embedded message, map entry), 4 bytes little endian (5).  `encRecs` / `decRecs`.
  Layer 2 (typed): field emitters (`pStr`, `pOptMsg`, …: what a field of a given descriptor type contributes — proto3
  implicit presence drops a default value, explicit presence keeps it, repeated fields one record per element) and
  the matching readers (`dStr`, `dOptMsg`, …: last occurrence wins for a singular field, all occurrences in order
  for a repeated one, unknown field numbers and mismatched wire types are skipped).  The per-message codecs built
  from them are GENERATED from the installed descriptors (`Extracted/WireCodec.lean`).
  UTF-8 (`utf8Enc` / `utf8Dec`, strict: no overlong forms, no surrogates, nothing above U+10FFFF) over `Text`.

  Deviations from a real parser (upb), all only reachable with bytes no encoder produces; none enters a theorem's
  hypothesis.  The list is what the `wirebytes` stream of harness/props/c08.py and the audit probe (notes/audit3/a1.md,
  25 crafted byte strings) found — it is checked by that stream where marked (*), not claimed complete:
    1. varints are not limited to 10 bytes / 64 bits (so no 2 GiB message limit either);
    2. groups (wire types 3 / 4) are refused instead of skipped;
    3. a repeated occurrence of a singular embedded message replaces instead of merging (also: a repeated
       `array_value` / `kvlist_value` member of an AnyValue);
    4. (*) a map KEY occurring twice gives two entries here, one entry (the later value) in the runtime;
    5. a map ENTRY whose key field is repeated and that carries an unknown field is moved to the unknown fields by
       upb (no entry), it is an entry here;
    6. an enum varint with bit 31 set is a NEGATIVE value in the runtime (int32), here it is the 32-bit pattern;
       (*) the cut to 32 bits itself is modelled (`dEnum`), and so is (*) last-member-wins for a real oneof
       (`oneofPick`: WatchResult.good_result / error_result), both exercised by the stream;
    7. a oneof member record with the WRONG wire type still counts as "written last" here.
-/
import DeepModel.Model.WireBase

namespace Wire

abbrev Bytes := List Nat

/-! ### varint, little-endian fixed width -/

/-- structural in the fuel, so that `decide` can evaluate concrete encodings; `n` itself always suffices as fuel -/
def encVarintF : Nat → Nat → Bytes
  | 0, n => [n]
  | f + 1, n => if n < 128 then [n] else (n % 128 + 128) :: encVarintF f (n / 128)

def encVarint (n : Nat) : Bytes := encVarintF n n

def decVarint : Bytes → Option (Nat × Bytes)
  | [] => none
  | b :: bs =>
    if b < 128 then some (b, bs)
    else if b < 256 then
      match decVarint bs with
      | some (v, r) => some (b - 128 + 128 * v, r)
      | none => none
    else none

def leBytes : Nat → Nat → Bytes
  | 0, _ => []
  | k + 1, n => n % 256 :: leBytes k (n / 256)

def fromLE : Bytes → Nat
  | [] => 0
  | b :: r => b + 256 * fromLE r

def takeN (k : Nat) (bs : Bytes) : Option (Bytes × Bytes) :=
  if k ≤ bs.length then some (bs.take k, bs.drop k) else none

/-! ### records -/

inductive Payload where
  | varint (n : Nat)
  | fixed64 (n : Nat)
  | len (b : Bytes)
  | fixed32 (n : Nat)
deriving Repr, DecidableEq

structure Rec where
  fno : Nat
  p : Payload
deriving Repr, DecidableEq

def Payload.wt : Payload → Nat
  | .varint _ => 0
  | .fixed64 _ => 1
  | .len _ => 2
  | .fixed32 _ => 5

def encPayload : Payload → Bytes
  | .varint n => encVarint n
  | .fixed64 n => leBytes 8 n
  | .len b => encVarint b.length ++ b
  | .fixed32 n => leBytes 4 n

def encRec (r : Rec) : Bytes := encVarint (r.fno * 8 + r.p.wt) ++ encPayload r.p

def encRecs : List Rec → Bytes
  | [] => []
  | r :: rs => encRec r ++ encRecs rs

def decPayload (wt : Nat) (bs : Bytes) : Option (Payload × Bytes) :=
  match wt with
  | 0 => match decVarint bs with
         | some (v, r) => some (.varint v, r)
         | none => none
  | 1 => match takeN 8 bs with
         | some (b, r) => some (.fixed64 (fromLE b), r)
         | none => none
  | 2 => match decVarint bs with
         | some (n, r) => match takeN n r with
                          | some (b, r') => some (.len b, r')
                          | none => none
         | none => none
  | 5 => match takeN 4 bs with
         | some (b, r) => some (.fixed32 (fromLE b), r)
         | none => none
  | _ => none

def decRec (bs : Bytes) : Option (Rec × Bytes) :=
  match decVarint bs with
  | some (tag, r1) =>
    if tag / 8 = 0 then none
    else match decPayload (tag % 8) r1 with
         | some (p, r2) => some (⟨tag / 8, p⟩, r2)
         | none => none
  | none => none

/-- fuel = an upper bound of the number of records (every record takes at least one byte) -/
def decRecsF : Nat → Bytes → Option (List Rec)
  | _, [] => some []
  | 0, _ :: _ => none
  | f + 1, b :: bs =>
    match decRec (b :: bs) with
    | some (r, rest) => (decRecsF f rest).map (r :: ·)
    | none => none

def decRecs (bs : Bytes) : Option (List Rec) := decRecsF bs.length bs

/-- what a stream of records must satisfy to be written at all: a field number of 1 … 2^29-1, payloads in range -/
def Payload.ok : Payload → Bool
  | .varint _ => true
  | .fixed64 n => n < 2 ^ 64
  | .len _ => true
  | .fixed32 n => n < 2 ^ 32

def Rec.ok (r : Rec) : Bool := 0 < r.fno && r.p.ok

/-! ### UTF-8 over code points -/

def encCp (c : Nat) : Bytes :=
  if c < 0x80 then [c]
  else if c < 0x800 then [0xC0 + c / 64, 0x80 + c % 64]
  else if c < 0x10000 then [0xE0 + c / 4096, 0x80 + c / 64 % 64, 0x80 + c % 64]
  else [0xF0 + c / 262144, 0x80 + c / 4096 % 64, 0x80 + c / 64 % 64, 0x80 + c % 64]

def utf8Enc : Text → Bytes
  | [] => []
  | c :: t => encCp c ++ utf8Enc t

def isCont (b : Nat) : Bool := 0x80 ≤ b && b < 0xC0

/-- strict UTF-8 decoding (what a proto3 `string` field demands of its bytes) -/
def utf8Dec : Bytes → Option Text
  | [] => some []
  | b0 :: rest =>
    if b0 < 0x80 then (utf8Dec rest).map (b0 :: ·)
    else if b0 < 0xC2 then none
    else if b0 < 0xE0 then
      match rest with
      | b1 :: r =>
        if isCont b1 then (utf8Dec r).map (((b0 - 0xC0) * 64 + (b1 - 0x80)) :: ·) else none
      | _ => none
    else if b0 < 0xF0 then
      match rest with
      | b1 :: b2 :: r =>
        let c := (b0 - 0xE0) * 4096 + (b1 - 0x80) * 64 + (b2 - 0x80)
        if isCont b1 && isCont b2 && decide (0x800 ≤ c) && !(decide (0xD800 ≤ c) && decide (c ≤ 0xDFFF)) then
          (utf8Dec r).map (c :: ·)
        else none
      | _ => none
    else if b0 < 0xF5 then
      match rest with
      | b1 :: b2 :: b3 :: r =>
        let c := (b0 - 0xF0) * 262144 + (b1 - 0x80) * 4096 + (b2 - 0x80) * 64 + (b3 - 0x80)
        if isCont b1 && isCont b2 && isCont b3 && decide (0x10000 ≤ c) && decide (c < 0x110000) then
          (utf8Dec r).map (c :: ·)
        else none
      | _ => none
    else none

/-! ### typed layer: what one field contributes, and how it is read back -/

def fld (k : Nat) (ps : List Payload) : List Rec := ps.map (Rec.mk k)

/-- the payloads of field number `k`, in stream order (everything else is skipped: unknown fields) -/
def sel (k : Nat) (rs : List Rec) : List Payload := rs.filterMap (fun r => if r.fno = k then some r.p else none)

def allVarint (ps : List Payload) : List Nat := ps.filterMap (fun p => match p with | .varint n => some n | _ => none)
def allFixed64 (ps : List Payload) : List Nat := ps.filterMap (fun p => match p with | .fixed64 n => some n | _ => none)
def allLen (ps : List Payload) : List Bytes := ps.filterMap (fun p => match p with | .len b => some b | _ => none)

def lastVarint (ps : List Payload) : Option Nat := (allVarint ps).getLast?
def lastFixed64 (ps : List Payload) : Option Nat := (allFixed64 ps).getLast?
def lastLen (ps : List Payload) : Option Bytes := (allLen ps).getLast?

/-- `List.mapM` in `Option`, spelled out (structural, easy to reason about) -/
def allSome {α β} (f : α → Option β) : List α → Option (List β)
  | [] => some []
  | a :: r =>
    match f a, allSome f r with
    | some b, some bs => some (b :: bs)
    | _, _ => none

-- emitters
def pUInt (i : Int) : List Payload := if i = 0 then [] else [.varint i.toNat]
def pOptUInt : Option Int → List Payload
  | none => []
  | some i => [.varint i.toNat]
def pOptBool : Option Bool → List Payload
  | none => []
  | some b => [.varint (if b then 1 else 0)]
/-- an enum field holding a value (`none`: the conversion raised — nothing to write) -/
def pEnum : Option Nat → List Payload
  | none => []
  | some n => if n = 0 then [] else [.varint n]
def pFixed64 (i : Int) : List Payload := if i = 0 then [] else [.fixed64 i.toNat]
def pStr (t : Text) : List Payload := if t = [] then [] else [.len (utf8Enc t)]
def pOptStr : Option Text → List Payload
  | none => []
  | some t => [.len (utf8Enc t)]
def pRepStr (ts : List Text) : List Payload := ts.map (fun t => .len (utf8Enc t))
def pBytes (b : Bytes) : List Payload := if b = [] then [] else [.len b]
def pOptMsg : Option (List Rec) → List Payload
  | none => []
  | some rs => [.len (encRecs rs)]
def pRepMsg (ms : List (List Rec)) : List Payload := ms.map (fun rs => .len (encRecs rs))

-- readers
def dU32 (ps : List Payload) : Int := Int.ofNat (((lastVarint ps).getD 0) % 2 ^ 32)
def dU64 (ps : List Payload) : Int := Int.ofNat (((lastVarint ps).getD 0) % 2 ^ 64)
def dOptU32 (ps : List Payload) : Option Int := (lastVarint ps).map (fun n => Int.ofNat (n % 2 ^ 32))
def dOptBool (ps : List Payload) : Option Bool := (lastVarint ps).map (fun n => n != 0)
/-- an enum is an int32 on the wire: the varint is cut to 32 bits (a value with bit 31 set is NEGATIVE in the runtime —
    the model has no negative enum value: listed deviation) -/
def dEnum (ps : List Payload) : Option Nat := some (((lastVarint ps).getD 0) % 2 ^ 32)
def dFixed64 (ps : List Payload) : Int := Int.ofNat ((lastFixed64 ps).getD 0)
def dStr (ps : List Payload) : Option Text :=
  match lastLen ps with
  | none => some []
  | some b => utf8Dec b
def dOptStr (ps : List Payload) : Option (Option Text) :=
  match lastLen ps with
  | none => some none
  | some b => (utf8Dec b).map some
def dRepStr (ps : List Payload) : Option (List Text) := allSome utf8Dec (allLen ps)
def dBytes (ps : List Payload) : Bytes := (lastLen ps).getD []
def dOptMsg {α} (dec : Bytes → Option α) (ps : List Payload) : Option (Option α) :=
  match lastLen ps with
  | none => some none
  | some b => (dec b).map some
def dRepMsg {α} (dec : Bytes → Option α) (ps : List Payload) : Option (List α) := allSome dec (allLen ps)

/-- the field number (among `ks`, the members of a oneof) that is written LAST in the stream -/
def lastField (ks : List Nat) (rs : List Rec) : Option Nat :=
  ((rs.filter (fun r => ks.contains r.fno)).getLast?).map (·.fno)

/-- a member of a oneof is set only when it is the member written last (a later member clears the earlier ones) -/
def oneofPick {α} (ks : List Nat) (k : Nat) (rs : List Rec) (read : Option (Option α)) : Option (Option α) :=
  if lastField ks rs = some k then read else some none

/-! map fields: one entry message per pair, key = field 1, value = field 2 (fixed by the protobuf specification),
    both always written -/
def encStrEntry (kv : Text × Text) : List Rec := fld 1 (pOptStr (some kv.1)) ++ fld 2 (pOptStr (some kv.2))

def decStrEntry (bs : Bytes) : Option (Text × Text) :=
  match decRecs bs with
  | none => none
  | some rs =>
    match dStr (sel 1 rs), dStr (sel 2 rs) with
    | some k, some v => some (k, v)
    | _, _ => none

def encMsgEntry {α} (enc : α → List Rec) (kv : Text × α) : List Rec :=
  fld 1 (pOptStr (some kv.1)) ++ fld 2 (pOptMsg (some (enc kv.2)))

/-- an entry without a value holds the default message (`dec []`) -/
def decMsgEntry {α} (dec : Bytes → Option α) (bs : Bytes) : Option (Text × α) :=
  match decRecs bs with
  | none => none
  | some rs =>
    match dStr (sel 1 rs), dOptMsg dec (sel 2 rs) with
    | some k, some (some v) => some (k, v)
    | some k, some none => (dec []).map (fun v => (k, v))
    | _, _ => none

/-- int64 as the unsigned 64-bit varint value (two's complement) and back -/
def i64ToU (i : Int) : Nat := if i < 0 then (i + 2 ^ 64).toNat else i.toNat
def uToI64 (n : Nat) : Int := if n % 2 ^ 64 < 2 ^ 63 then Int.ofNat (n % 2 ^ 64) else Int.ofNat (n % 2 ^ 64) - 2 ^ 64

/-! every double is a 64-bit pattern (the model carries the pattern as a `Nat`) -/
mutual
  def PAnyValue.bitsOk : PAnyValue → Bool
    | .double_value b => decide (b < 2 ^ 64)
    | .array_value vs => vs.bitsOk
    | .kvlist_value kvs => kvs.bitsOk
    | _ => true
  def PAnyList.bitsOk : PAnyList → Bool
    | .nil => true
    | .cons v r => v.bitsOk && r.bitsOk
  def PKVList.bitsOk : PKVList → Bool
    | .nil => true
    | .cons _ v r => v.bitsOk && r.bitsOk
end

def PAnyList.ofList : List PAnyValue → PAnyList
  | [] => .nil
  | v :: r => .cons v (PAnyList.ofList r)

def PKVList.ofList : List (Text × PAnyValue) → PKVList
  | [] => .nil
  | (k, v) :: r => .cons k v (PKVList.ofList r)

def hexDigit (n : Nat) : Char := "0123456789abcdef".toList.getD n '?'
def toHex (bs : Bytes) : String := String.ofList (bs.flatMap (fun b => [hexDigit (b / 16), hexDigit (b % 16)]))
def hexVal (c : Char) : Nat :=
  if '0' ≤ c ∧ c ≤ '9' then c.toNat - 48 else if 'a' ≤ c ∧ c ≤ 'f' then c.toNat - 87 else 0
def ofHexChars : List Char → Bytes
  | a :: b :: r => (hexVal a * 16 + hexVal b) :: ofHexChars r
  | _ => []
def ofHex (s : String) : Bytes := ofHexChars s.toList

end Wire
