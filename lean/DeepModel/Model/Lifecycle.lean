/-
  Model/Lifecycle — the agent's life: `Deep.start`, `Deep.shutdown`, config updates, poll ticks (C14).

  What is NOT written here:
  * the hook handling — `Extracted.TH.thStart / thShutdown / thNewConfig / thInit` are the bodies of
    `TriggerHandler.start / shutdown / new_config / __init__` translated statement by statement;
  * whether a failing shutdown step stops the following steps, whether `flush` survives a failing task, whether
    the timer survives a failing poll, whether `start`/`shutdown` are guarded by `started`, whether `started` is
    the last thing `start` sets: these are *computed* from the extracted guard skeletons
    (`stepsIsolated`, `flushIsolated`, `timerGuarded`, `startGuarded`, `shutdownGuarded`, `startedSetLast`) and
    the model behaves accordingly — so it follows the code when the code changes, and the theorems of C14 need
    the facts to be `true` (`by decide` on the skeletons regenerated this run).
  Hand-written glue (validated by the correspondence runs against real `Deep` objects): what each step does to the
  state.  `start` / `shutdown` below are the SPECIFICATION machine; the two method bodies as the source has them now
  are `startX` / `shutdownX` (Model/LifecyclePlan.lean, translated statement lists), proved equal to these in
  Props/C14 (`c14_start_translated`, `c14_shutdown_translated`).
-/
import DeepModel.Model.Guard
import DeepModel.Extracted.Guards

namespace Lifecycle
open Extracted.TH Guard

/-! ### facts read off the extracted skeletons -/

def stepsIsolated : Bool := IsoLastLoop RaiseSet.all Extracted.Guards.deepShutdown
def flushIsolated : Bool := IsoLastLoop RaiseSet.all Extracted.Guards.taskFlush
def timerGuarded : Bool := mayRaiseA RaiseSet.onlyExc
  ((lastLoop Extracted.Guards.timerTarget).elim (.call "?") (fun p => lastOf p.2))
  == RaiseSet.empty
def startGuarded : Bool := startsWithGuard "self.started" Extracted.Guards.deepStart
def shutdownGuarded : Bool := startsWithGuard "not self.started" Extracted.Guards.deepShutdown
def startedSetLast : Bool :=
  lastOf Extracted.Guards.deepStart == .assign "started" "True" &&
  !maySet "started" "True" (dropLast Extracted.Guards.deepStart)
def shutdownClearsStarted : Bool := lastOf Extracted.Guards.deepShutdown == .assign "started" "False"

/-- the statements of a function body, in order -/
def flat : Stmt → List Stmt
  | .seq a b => a :: flat b
  | s => [s]

def isGuard (cond : String) : Stmt → Bool
  | .branch c (.ret _) .pure => c == cond
  | _ => false

/-- `Deep.start` refuses to start an instance that was shut down: its second statement is `if self._shutdown: return` -/
def restartRefused : Bool := ((flat Extracted.Guards.deepStart)[1]?.map (isGuard "self._shutdown")).getD false
/-- … and `Deep.shutdown` of a started instance records that, before it runs any step -/
def shutdownMarksShut : Bool := (flat Extracted.Guards.deepShutdown)[1]? == some (.assign "_shutdown" "True")

/-! ### state -/

structure Deep where
  w : World                 -- hooks + TriggerHandler fields
  noTrace : Bool            -- config NO_TRACE
  started : Bool            -- Deep.started
  pollAlive : Bool          -- the poll timer thread is running
  tasksOpen : Bool          -- TaskHandler._open
  pending : List Nat        -- ids of submitted sends that flush has not waited for yet
  plugins : List Nat        -- loaded plugins, in load order
  shutCalls : List Nat      -- plugin.shutdown() calls made so far, oldest first
  everShut : Bool           -- Deep._shutdown: this instance was shut down once (its handlers are closed for good)
deriving DecidableEq, Repr

def init (sys thr : Hook) (noTrace : Bool) (plugins : List Nat) (pending : List Nat) : Deep :=
  { w := thInit sys thr, noTrace := noTrace, started := false, pollAlive := false, tasksOpen := true,
    pending := pending, plugins := plugins, shutCalls := [], everShut := false }

def Deep.hooks (d : Deep) : Hook × Hook := (d.w.sysHook, d.w.thrHook)

/-- `Deep.start`.  An instance that was shut down is not started again (its task handler and trigger handler are
    closed for good: the first poll of a restart would hand an update to the closed task handler, which raises a
    `BaseException` out of `start` before `started` is set — the reason the guard exists).  Otherwise no step of it
    fails: the property's quantifier has no failing start steps. -/
def start (d : Deep) : Deep :=
  if startGuarded && d.started then d else
  if restartRefused && d.everShut then d else
  { d with w := thStart d.noTrace d.w, pollAlive := true, started := true }

/-- which things fail during a shutdown -/
structure Faults where
  plugin : Nat → Bool       -- this plugin's `shutdown()` raises
  task : Nat → Bool         -- this pending send fails
  pluginBase : Bool         -- the plugin failures are of a `BaseException` class (else `Exception`)
  /-- reading this plugin's `shutdown` ATTRIBUTE raises (an object without one, a property that raises).  Only the
      translated `Deep.shutdown` (`shutdownX`, Model/LifecyclePlan.lean) looks at it: the list `steps` is built outside
      the per-step `try`.  The specification machine below does not — it is what the property asks for. -/
  attrUnreadable : Nat → Bool := fun _ => false
deriving Inhabited

inductive Step where
  | thShutdown | flush | pollShutdown | plugin (p : Nat)
deriving DecidableEq, Repr

/-- `TaskHandler.flush`: wait for every pending future; when the per-future wait is guarded a failed send is
    swallowed, otherwise the first failed one ends the flush with its error. Returns the sends still unwaited. -/
def flushPending (f : Faults) : List Nat → List Nat × Bool
  | [] => ([], false)
  | t :: ts => if f.task t && !flushIsolated then (ts, true) else flushPending f ts

/-- one step: its effect on the state, and whether it raises -/
def runStep (f : Faults) (d : Deep) : Step → Deep × Bool
  | .thShutdown => ({ d with w := thShutdown d.w }, false)
  | .flush =>
    let (rest, raised) := flushPending f d.pending
    ({ d with tasksOpen := false, pending := rest }, raised)
  | .pollShutdown => ({ d with pollAlive := false }, false)
  | .plugin p => ({ d with shutCalls := d.shutCalls ++ [p] }, f.plugin p)

/-- `for step in steps: try: step() except BaseException: log` — or, when the loop is not guarded that way,
    the first raising step ends it. Returns the state and whether the exception propagates. -/
def runSteps (isolated : Bool) (f : Faults) : List Step → Deep → Deep × Bool
  | [], d => (d, false)
  | s :: rest, d =>
    let (d', raised) := runStep f d s
    if raised && !isolated then (d', true) else runSteps isolated f rest d'

def steps (d : Deep) : List Step := [.thShutdown, .flush, .pollShutdown] ++ d.plugins.map .plugin

/-- `Deep.shutdown`: new state, and whether it raises into the caller -/
def shutdown (f : Faults) (d : Deep) : Deep × Bool :=
  if shutdownGuarded && !d.started then (d, false) else
  let d := { d with everShut := d.everShut || shutdownMarksShut }
  let (d', raised) := runSteps stepsIsolated f (steps d) d
  if raised then (d', true)
  else ({ d' with started := if shutdownClearsStarted then false else d'.started }, false)

/-- a poll on the timer thread that fails: an `Exception` is logged and the timer goes on (when `_target` guards
    the call), a `BaseException` ends the thread. -/
def pollTick (fails : Option Py.Exn) (d : Deep) : Deep :=
  match fails with
  | none => d
  | some .exc => if timerGuarded then d else { d with pollAlive := false }
  | some .base => { d with pollAlive := false }

/-- the application changes its own trace functions.  It may do so whenever the agent's function is not
    installed (before a start, after a shutdown, any time under NO_TRACE); a change while the agent traces is
    outside the model (assumption of C14) and ignored. -/
def hostSet (s t : Hook) (d : Deep) : Deep :=
  if d.w.tracing then d else { d with w := { d.w with sysHook := s, thrHook := t } }

inductive Op where
  | start
  | shutdown (f : Faults)
  | newConfig (cfg : List Nat)
  | pollTick (fails : Option Py.Exn)
  | hostSet (s t : Hook)        -- the application installs other trace functions (while the agent is not tracing)

def step (d : Deep) : Op → Deep
  | .start => start d
  | .shutdown f => (shutdown f d).1
  | .newConfig cfg => { d with w := thNewConfig d.w cfg }
  | .pollTick fl => pollTick fl d
  | .hostSet s t => hostSet s t d

def run (ops : List Op) (d : Deep) : Deep := ops.foldl step d

/-- what the application itself last installed, along a history: the hooks "present before start" that a
    shutdown has to put back (ghost state of the specification, not of the agent) -/
def hostView (d : Deep) (h : Hook × Hook) : Op → Hook × Hook
  | .hostSet s t => if d.w.tracing then h else (s, t)
  | _ => h

def runH : List Op → Deep × (Hook × Hook) → Deep × (Hook × Hook)
  | [], x => x
  | op :: ops, (d, h) => runH ops (step d op, hostView d h op)

/-! ### several threads

  `sys.settrace` acts on the CALLING thread only (`threading.settrace` is the process-wide one, for threads started
  later).  `World.sysHook` above is therefore the slot of the thread that calls `start` / `shutdown`.  With several
  threads each has its own slot; an operation called on thread `t` sees and writes thread `t`'s slot. -/

structure MT where
  d : Deep
  slots : Nat → Hook        -- sys.gettrace() of each thread

def stepOn (t : Nat) (m : MT) (op : Op) : MT :=
  let d1 : Deep := { m.d with w := { m.d.w with sysHook := m.slots t } }
  let d2 := step d1 op
  { d := d2, slots := fun u => if u = t then d2.w.sysHook else m.slots u }

def runMT : List (Nat × Op) → MT → MT
  | [], m => m
  | (t, op) :: rest, m => runMT rest (stepOn t m op)

/-- the triggers a trace event is matched against: an event can only cause actions when this is non-empty
    (`trace_call` returns before matching when `len(self._tp_config) == 0`). -/
def armed (d : Deep) : Nat := d.w.tpConfig.length

end Lifecycle
