/-
  Model/AttrConc — several threads writing to one `BoundedAttributes` (C18, schedules).

  Regions of one `attrs[k] = v` / `del attrs[k]` as the source has them (Extracted.Attributes.setItemAtomic,
  delItemAtomic: every statement except the immutability test is inside `with self._lock`):
    outside the lock : the immutability test, then the thread arrives at the lock (a frozen container raises here);
    inside the lock  : the whole of the translated `setItem` / `delItem`.
  `merge_in` is a sequence of such item assignments (`program`).  A schedule is a list of thread ids; each
  occurrence advances that thread by one region.  `log` is a ghost: the item operations in lock order.

  `Stale.*` is NOT the code: it is the hypothetical variant in which cleaning and the "full?" decision are taken
  before the lock and only delete/evict/insert remain inside — kept to show (Props/C18) what the lock placement
  buys: the variant agrees with `setItem` on every sequential use and breaks the capacity bound under a schedule.
-/
import DeepModel.Model.Attributes

namespace AttrConc
open Attr Extracted.Attributes Attributes

/-- the item-level operations a writer performs, each through the lock on its own: `merge_in` is a loop of item
    assignments (the lock is taken per item, so two `merge_in` calls can interleave item by item) -/
def program : Op → List Op
  | .mergeIn kvs => kvs.map (fun kv => Op.set kv.1 kv.2)
  | op => [op]

structure Thr where
  rem : List Op            -- item-level operations still to do
  atLock : Bool            -- the head operation passed its immutability test and waits for the lock
  err : Option String      -- the exception that ended the writer
deriving Repr

structure Conc where
  st : BA
  thrs : List Thr
  log : List (Nat × Op)    -- ghost: (writer, operation) in the order they went through the lock
deriving Repr

def Conc.init (st : BA) (ws : List Op) : Conc := ⟨st, ws.map (fun w => ⟨program w, false, none⟩), []⟩

def Conc.stepThr (s : Conc) (i : Nat) : Conc :=
  match s.thrs[i]? with
  | none => s
  | some t =>
    if t.err.isSome then s else
    match t.rem with
    | [] => s
    | op :: rest =>
      if !t.atLock then
        if s.st.frozen then { s with thrs := s.thrs.set i { t with err := some "TypeError" } }
        else { s with thrs := s.thrs.set i { t with atLock := true } }
      else
        let r := step s.st op
        { st := r.1, thrs := s.thrs.set i ⟨rest, false, r.2⟩, log := s.log ++ [(i, op)] }

def Conc.run (s : Conc) (sched : List Nat) : Conc := sched.foldl Conc.stepThr s

/-- what writer `i` has put through the lock so far -/
def Conc.committed (s : Conc) (i : Nat) : List Op := (s.log.filter (fun e => e.1 == i)).map (·.2)

/-! ### the hypothetical "decide before the lock" variant -/
namespace Stale

/-- what a writer carries into the critical section -/
structure Pending where
  key : Key
  value : Val
  atCapacity : Bool
deriving Repr, DecidableEq

inductive Pre | raised (e : String) | finished (st : BA) | pending (p : Pending)
deriving Repr

/-- before the lock (capacity 0 is handled completely here, under its own short lock) -/
def prepare (st : BA) (k : Key) (v : Val) : Pre :=
  if st.frozen then .raised "TypeError" else
  if st.cap == some 0 then .finished { st with dropped := st.dropped + 1 } else
  let value := cleanAttribute k v st.maxValLen
  if value.isNone then .finished st else
  .pending ⟨k, value, st.cap == some st.dict.length⟩

/-- inside the lock: delete / evict / insert with the decision taken earlier -/
def commit (st : BA) (p : Pending) : BA :=
  if OD.contains st.dict p.key then { st with dict := OD.set (OD.erase st.dict p.key) p.key p.value }
  else if p.atCapacity then { st with dict := OD.set st.dict.tail p.key p.value, dropped := st.dropped + 1 }
  else { st with dict := OD.set st.dict p.key p.value }

/-- sequential use: prepare immediately followed by commit -/
def setSeq (st : BA) (k : Key) (v : Val) : BA × Option String :=
  match prepare st k v with
  | .raised e => (st, some e)
  | .finished st' => (st', none)
  | .pending p => (commit st p, none)

/-- two writers, schedule = order of the four regions (0 = writer A, 1 = writer B; first occurrence = prepare) -/
def run2 (st : BA) (a b : Key × Val) (sched : List Nat) : BA :=
  let step := fun (acc : BA × Option Pre × Option Pre) (i : Nat) =>
    let (s, pa, pb) := acc
    if i == 0 then
      match pa with
      | none => (match prepare s a.1 a.2 with
          | .finished s' => (s', some (.finished s'), pb)
          | r => (s, some r, pb))
      | some (.pending p) => (commit s p, some (.finished s), pb)
      | _ => acc
    else
      match pb with
      | none => (match prepare s b.1 b.2 with
          | .finished s' => (s', pa, some (.finished s'))
          | r => (s, pa, some r))
      | some (.pending p) => (commit s p, pa, some (.finished s))
      | _ => acc
  (sched.foldl step (st, none, none)).1

end Stale
end AttrConc
