/-
  Model/Config — configuration resolution as the agent uses it (C19).

  From the source (Extracted/Config.lean, regenerated every run): the lookup chain `lookup`, the module settings with
  their environment variables and defaults, the translated `IN_APP_INCLUDE` / `IN_APP_EXCLUDE` functions,
  `isAppFrame`, `parseShortName`, the APP_ROOT amendment of `deep.start`, whether the poll timer coerces its
  interval.  This file adds the glue between them: which configuration values `is_app_frame` iterates over, and how
  the poll interval is used.

  Modelled, not verified: Python iterates a `str` character by character and a list element by element;
  `filename.startswith(x)` raises TypeError for an `x` that is not text; `float(text)` for integer texts
  (`Py.parseInt`; the generators keep interval texts integral or compare through the real timer only).
-/
import DeepModel.Extracted.Config

namespace Config
open Cfg Extracted.Config

/-- everything a configuration value depends on: the dict given in code, the process environment (the same at
    import and at use), `sys.exec_prefix`. -/
structure World where
  custom : List (String × CVal)
  env : Env
  execPrefix : String

/-- `ConfigService(custom).<name>` -/
def World.get (w : World) (name : String) : CVal := lookup w.custom w.env w.execPrefix name

/-- the world after `deep.start(custom)` amended the dict (`calcRoot` = directory computed from the caller) -/
def World.started (w : World) (calcRoot : String) : World :=
  { w with custom := startConfig w.custom w.env calcRoot }

def World.appRoot (w : World) : Option String :=
  match w.get "APP_ROOT" with
  | .str s => some s
  | _ => none

/-- `config.is_app_frame(filename)`; `none` = TypeError (a configured value is not iterable / not text) -/
def World.appFrame (w : World) (filename : String) : Option (Bool × Option String) := do
  let incl ← pathList (w.get "IN_APP_INCLUDE")
  let excl ← pathList (w.get "IN_APP_EXCLUDE")
  let root ← w.appRoot
  pure (isAppFrame incl excl root filename)

/-- `FrameCollector.parse_short_name(filename)` -/
def World.shortName (w : World) (filename : String) : Option (String × Bool) := do
  let incl ← pathList (w.get "IN_APP_INCLUDE")
  let excl ← pathList (w.get "IN_APP_EXCLUDE")
  let root ← w.appRoot
  pure (parseShortName (isAppFrame incl excl root) filename)

/-- the interval `RepeatedTimer` computes with (`float(interval)`), in seconds; `none` = no usable interval: the
    arithmetic of `_time` raises TypeError and the timer thread dies (text without the float() coercion), or the
    value is not a number. -/
def pollInterval (v : CVal) : Option Dec :=
  match v with
  | .int i => some ⟨i, 0⟩
  | .bool b => some ⟨if b then 1 else 0, 0⟩
  | .float r => parseDecimal r
  | .str s => if timerCoercesWithFloat then parseDecimal s else none
  | _ => none

/-- `str2bool(x)` at its use sites; `none` = AttributeError (`x.lower()` on a value that is not text, when the
    source does not convert with str() first) or a value whose text the model does not know. -/
def str2bool (v : CVal) : Option Bool :=
  match v with
  | .str s => some (truthyTexts.contains (Py.lower s))
  | v => if str2boolCoercesWithStr then (pyStr v).map (fun s => truthyTexts.contains (Py.lower s)) else none

/-- `GRPCService.start`: secure channel? -/
def World.secure (w : World) : Option Bool := str2bool (w.get "SERVICE_SECURE")

/-- `Plugin.is_active()` for a plugin called `name` (upper case): `PLUGIN_<NAME>` absent = active -/
def World.pluginActive (w : World) (name : String) : Option Bool :=
  let v := w.get ("PLUGIN_" ++ name)
  if v.isNone then some true else str2bool v

/-! ### use sites: what the consumer of each documented setting makes of the resolved value -/

inductive Use
  | text (s : String)             -- used as the text it is (channel target, file name, class path, root prefix)
  | unset                         -- the consumer's "not configured" branch
  | flag (b : Bool)               -- `str2bool(value)`
  | seconds (d : Dec)             -- `float(value)` in RepeatedTimer
  | prefixes (ps : List String)   -- iterated by is_app_frame
  | fails                         -- the consumer raises (or its thread dies)
  | unmodelled                    -- a value of a type the use-site model does not read (numbers as file names …)
deriving Repr, DecidableEq

/-- is the interval value inside the alphabet the model's `float()` reads — plain decimals: ASCII digits, one sign, one
    ".", ASCII blanks?  Python's `float()` also reads exponents (`1e1`), `inf` / `nan`, `_` separators and non-ASCII digits
    (`١٠`): such texts are OUTSIDE the model (`Use.unmodelled`, nothing claimed), not "fails". -/
def intervalTextModelled : CVal → Bool
  | .str s => s.toList.all (fun c => isDigit c || c == '+' || c == '-' || c == '.' || c == ' ' || c == '\t')
  | .float r => r.toList.all (fun c => isDigit c || c == '+' || c == '-' || c == '.' || c == ' ' || c == '\t')
  | _ => true

/-- what the consumer of setting `k` computes from its resolved value: GRPCService (SERVICE_URL: channel target,
    SERVICE_SECURE: `str2bool`), `logging.init` (LOGGING_CONF: falsy = built-in file), RepeatedTimer via LongPoll.start
    (POLL_TIMER: `float()`), `AuthProvider.get_provider` (SERVICE_AUTH_PROVIDER: `None`/"" = no provider),
    `is_app_frame` (IN_APP_INCLUDE / IN_APP_EXCLUDE iterated, APP_ROOT a `startswith` argument).
    `none` = the setting has no use-site model here. -/
def useOf : String → CVal → Option Use
  | "SERVICE_URL", v => some (match v with
      | .str s => .text s
      | _ => .unmodelled)
  | "SERVICE_SECURE", v => some (match str2bool v with
      | some b => .flag b
      | none => .fails)
  | "LOGGING_CONF", v => some (match v with
      | .none => .unset
      | .str s => if s == "" then .unset else .text s
      | _ => .unmodelled)
  | "POLL_TIMER", v => some (match pollInterval v with
      | some d => .seconds d
      | none => if intervalTextModelled v then .fails else .unmodelled)
  | "SERVICE_AUTH_PROVIDER", v => some (match v with
      | .none => .unset
      | .str s => if s == "" then .unset else .text s
      | _ => .unmodelled)
  | "IN_APP_INCLUDE", v => some (match pathList v with
      | some ps => .prefixes ps
      | none => .fails)
  | "IN_APP_EXCLUDE", v => some (match pathList v with
      | some ps => .prefixes ps
      | none => .fails)
  | "APP_ROOT", v => some (match v with
      | .str s => .text s
      | _ => .fails)
  | _, _ => none

/-- setting `k` as its consumer sees it in world `w` -/
def World.use (w : World) (k : String) : Option Use := useOf k (w.get k)

/-! ### the statement, written independently of the code -/

/-- application frame per the property text: under no exclude prefix, and under an include prefix or the root -/
def specAppFrame (incl excl : List String) (root f : String) : Bool :=
  !(excl.any (fun e => Py.startsWith f e)) && (incl.any (fun i => Py.startsWith f i) || Py.startsWith f root)

end Config
