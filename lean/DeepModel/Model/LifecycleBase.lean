/-
  Model/LifecycleBase — the state the translated `TriggerHandler.start / shutdown / new_config` act on
  (C14).  Hand-written types only; the state *updates* are generated into Extracted/Guards.lean.
-/
namespace Lifecycle

/-- a trace function as the process sees it: none, some function of the host (`host n`), or the agent's
    `TriggerHandler.trace_call`. -/
inductive Hook where
  | none
  | host (n : Nat)
  | agent
deriving DecidableEq, Repr, Inhabited

/-- process-wide hooks plus the fields of `TriggerHandler` the lifecycle methods read and write. -/
structure World where
  sysHook : Hook            -- sys.gettrace()
  thrHook : Hook            -- threading.gettrace()
  oldSys : Hook             -- TriggerHandler.__old_sys_trace
  oldThr : Hook             -- TriggerHandler.__old_thread_trace
  tracing : Bool            -- TriggerHandler.__tracing
  stopped : Bool            -- TriggerHandler.__stopped
  tpConfig : List Nat       -- TriggerHandler._tp_config (trigger ids)
deriving DecidableEq, Repr

end Lifecycle

/-! ### `Deep.start` / `Deep.shutdown` as statement lists (generated into `Extracted.DeepLC`)

  Hand-written types only.  The extractor (harness/extract/guards.py, `deep_plan`) turns every statement of the two
  method bodies into one `LStmt`, in source order; a statement it does not understand becomes `.opaque` (so the
  refinement theorems of C14 fail for it rather than the shape being guessed).  The interpreter is
  `Lifecycle.execPlan` (Model/LifecyclePlan.lean). -/
namespace Lifecycle

/-- the two flags of `Deep`: `self.started`, `self._shutdown` -/
inductive Fld where
  | started | everShut
deriving DecidableEq, Repr

/-- the service calls `Deep.start` makes, by receiver/callee -/
inductive Prim where
  | loadPlugins       -- self.config.plugins = load_plugins(self.config, self.config.PLUGINS)
  | resourceCreate    -- default_resource = Resource.create()
  | providers         -- for provider in self.config.resource_providers: try … except Exception (C20)
  | setResource       -- self.config.resource = default_resource
  | thStart           -- self.trigger_handler.start()
  | grpcStart         -- self.grpc.start()
  | pollStart         -- self.poll.start()
  | log               -- a `deep.logging.*` call
deriving DecidableEq, Repr

/-- what the list `steps` of `Deep.shutdown` is built from, in order -/
inductive StepRef where
  | thShutdown        -- self.trigger_handler.shutdown
  | flush             -- self.task_handler.flush
  | pollShutdown      -- self.poll.shutdown
  | plugins           -- [plugin.shutdown for plugin in self.config.plugins]
deriving DecidableEq, Repr

inductive LStmt where
  | retIf (f : Fld) (neg : Bool) (pre : List Prim)   -- `if [not] self.f: <pre…>; return`
  | set (f : Fld) (v : Bool)                         -- `self.f = True/False`
  | prim (p : Prim)
  /-- `for step in steps: try: step() except <C>: log` — `catchAll` = the handler catches `BaseException` -/
  | stepsLoop (steps : List StepRef) (catchAll : Bool)
  | opaque (what : String)                           -- not understood by the extractor
deriving DecidableEq, Repr

end Lifecycle
