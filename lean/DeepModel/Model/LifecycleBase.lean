/-
  Model/LifecycleBase — the state the translated `TriggerHandler.start / shutdown / new_config` act on
  (C14).  Hand-written types only; the state *updates* are generated into Extracted/Guards.lean.
-/
namespace Lifecycle

/-- a trace function as the process sees it: none, some function of the host (`host n`), or the agent's
    `TriggerHandler.trace_call`. -/
inductive Hook where
  | none
  | host (n : Nat)
  | agent
deriving DecidableEq, Repr, Inhabited

/-- process-wide hooks plus the fields of `TriggerHandler` the lifecycle methods read and write. -/
structure World where
  sysHook : Hook            -- sys.gettrace()
  thrHook : Hook            -- threading.gettrace()
  oldSys : Hook             -- TriggerHandler.__old_sys_trace
  oldThr : Hook             -- TriggerHandler.__old_thread_trace
  tracing : Bool            -- TriggerHandler.__tracing
  stopped : Bool            -- TriggerHandler.__stopped
  tpConfig : List Nat       -- TriggerHandler._tp_config (trigger ids)
deriving DecidableEq, Repr

end Lifecycle
