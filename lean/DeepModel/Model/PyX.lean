/-
  PyX — Python-isms needed by the trigger / callback models (C03, C15) that `Py.lean` does not have.
  Core Lean only.  Modelled, not verified (trusted base): my rendering of `os.path.basename` for POSIX
  paths and of an insertion-ordered `dict` as an association list; both are exercised by the
  correspondence checks of C03 / C15.
-/
namespace PyX

/-- `os.path.basename(p)` on POSIX: the text after the last `/`. -/
def basename (s : String) : String :=
  String.ofList ((s.toList.reverse.takeWhile (fun c => c != '/')).reverse)

/-- `k in d` for an insertion-ordered dict. -/
def dictHas {κ τ : Type} [BEq κ] (d : List (κ × τ)) (k : κ) : Bool := d.any (fun e => e.1 == k)

/-- `d[k] = v`: replaces the value in place when the key exists, else appends (insertion order). -/
def dictSet {κ τ : Type} [BEq κ] (d : List (κ × τ)) (k : κ) (v : τ) : List (κ × τ) :=
  if dictHas d k then d.map (fun e => if e.1 == k then (e.1, v) else e) else d ++ [(k, v)]

/-- `d[k].mutate()`: in-place update of the value stored under `k` (no-op when absent). -/
def dictUpdate {κ τ : Type} [BEq κ] (d : List (κ × τ)) (k : κ) (f : τ → τ) : List (κ × τ) :=
  d.map (fun e => if e.1 == k then (e.1, f e.2) else e)

/-- `list(d.values())`. -/
def dictValues {κ τ : Type} (d : List (κ × τ)) : List τ := d.map (fun e => e.2)

end PyX
