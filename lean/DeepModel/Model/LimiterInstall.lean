/-
  Model/LimiterInstall — "while it stays installed": the life of ONE tracepoint's action among configuration changes (C04).

  The limits live in the statistics object of the action OBJECT (`LocationAction.__init__` creates a fresh
  `TracepointExecutionStats`).  What happens to that object, read from the code:
    * a tracepoint that came from the service lives in `TracepointConfigService._tracepoint_config`; `LongPoll.poll`
      hands every UPDATE response to `convert_response`, which BUILDS every tracepoint of the response anew, and
      `update_new_config` replaces the whole list: still contained = a fresh object, not contained = gone.
      A NO_CHANGE response (`update_no_change`) and registrations in code (`add_custom` / `remove_custom`: they only
      touch `_custom`) hand the SAME objects to the handler again;
    * a tracepoint registered in code lives in `_custom` from `add_custom` until `remove_custom` of ITS id; poll
      responses of either kind never touch `_custom`.
  This file is that reading as a step function over operations; the hits go through the same `stepHit` as
  everywhere else.  Installing takes effect at once (the hand-over to the trigger handler through the task pool is
  C12's subject).
-/
import DeepModel.Model.Limiter

namespace Limiter
open Extracted.Limiter

/-- where the tracepoint came from -/
inductive Origin where
  | service            -- a poll response
  | code               -- `register_tracepoint`
deriving DecidableEq, Repr

/-- what happens to the agent, seen from one tracepoint -/
inductive Op where
  | hit (h : Hit)              -- its location is reached
  | update (present : Bool)    -- an UPDATE response; `present`: it contains this (service) tracepoint
  | noChange                   -- a NO_CHANGE response
  | otherCustom                -- ANOTHER tracepoint is registered / unregistered in code
  | register                   -- this tracepoint is registered in code
  | unregister                 -- its registration is removed
deriving DecidableEq, Repr

/-- `none` = not installed; `some st` = installed, with the statistics of its action object.
    Result: new state, and the time stamp of the collection this operation made (if any). -/
def stepOp (c : Cfg) (o : Origin) (s : Option Stats) : Op → Option Stats × Option Int
  | .hit h =>
    match s with
    | none => (none, none)
    | some st => let r := stepHit c st h; (some r.1, if r.2 then some h.ts else none)
  | .update present =>
    match o with
    | .service => (if present then some Stats.init else none, none)
    | .code => (s, none)
  | .noChange => (s, none)
  | .otherCustom => (s, none)
  | .register =>
    match o, s with
    | .code, none => (some Stats.init, none)
    | _, _ => (s, none)            -- already registered (a second registration is ANOTHER tracepoint) / not ours
  | .unregister =>
    match o with
    | .code => (none, none)
    | .service => (s, none)

def outOf : Option Int → List Int
  | some t => [t]
  | none => []

/-- the time stamps of all collections of the tracepoint over an operation sequence, oldest first -/
def runOpsFrom (c : Cfg) (o : Origin) : Option Stats → List Op → List Int
  | _, [] => []
  | s, op :: ops =>
    let r := stepOp c o s op
    outOf r.2 ++ runOpsFrom c o r.1 ops

def runOps (c : Cfg) (o : Origin) (ops : List Op) : List Int := runOpsFrom c o none ops

/-! ### the statement's reading: installations

  Written from the property text, not from `stepOp`: an operation either STARTS an installation, ENDS the current
  one, or leaves it alone; a hit counts for the installation that is current.  `installations` cuts the operation
  sequence into the hit lists of the successive installations. -/

/-- does this operation start a (new) installation of the tracepoint?  `cur`: is it installed right now -/
def starts (o : Origin) (cur : Bool) : Op → Bool
  | .update present => o == .service && present
  | .register => o == .code && !cur
  | _ => false

/-- does this operation end the current installation without starting another? -/
def ends (o : Origin) : Op → Bool
  | .update present => o == .service && !present
  | .unregister => o == .code
  | _ => false

/-- the installation that is current (`cur` = its hits so far, NEWEST first; `none` = not installed), as a finished one -/
def closedOf : Option (List Hit) → List (List Hit)
  | some hs => [hs.reverse]
  | none => []

/-- does this operation close the current installation (by ending it or by starting the next one)? -/
def closes (o : Origin) (cur : Option (List Hit)) (op : Op) : Bool := starts o cur.isSome op || ends o op

/-- the current installation after the operation: a new empty one, none, the same with one more hit, or the same -/
def instStep (o : Origin) (cur : Option (List Hit)) (op : Op) : Option (List Hit) :=
  if starts o cur.isSome op then some []
  else if ends o op then none
  else match op, cur with
    | .hit h, some hs => some (h :: hs)
    | _, _ => cur

/-- the hit lists of all installations from here on, oldest installation first -/
def installationsFrom (o : Origin) : Option (List Hit) → List Op → List (List Hit)
  | cur, [] => closedOf cur
  | cur, op :: ops => (if closes o cur op then closedOf cur else []) ++ installationsFrom o (instStep o cur op) ops

def installations (o : Origin) (ops : List Op) : List (List Hit) := installationsFrom o none ops

/-! ### one tracepoint, SEVERAL actions (snapshot, log, metric, span)

  `build_trigger` gives a tracepoint up to four `LocationAction`s; they sit in ONE `Trigger`, so being installed is one
  fact for all of them, but `LocationAction.__init__` gives EACH its own `TracepointExecutionStats`, and
  `TriggerHandler` runs check → process → record for each action in turn with that action's object. -/

def nones (cs : List Cfg) : List (Option Int) := cs.map (fun _ => none)

/-- state: `none` = the tracepoint is not installed, `some sts` = installed, one statistics object per action
    (in the order of `cs`).  Result: new state and, per action, the time stamp of the collection it made -/
def stepOpN (cs : List Cfg) (o : Origin) (s : Option (List Stats)) : Op → Option (List Stats) × List (Option Int)
  | .hit h =>
    match s with
    | none => (none, nones cs)
    | some sts =>
      let rs := List.zipWith (fun c st => stepHit c st h) cs sts
      (some (rs.map (·.1)), rs.map (fun r => if r.2 then some h.ts else none))
  | .update present =>
    match o with
    | .service => (if present then some (cs.map (fun _ => Stats.init)) else none, nones cs)
    | .code => (s, nones cs)
  | .noChange => (s, nones cs)
  | .otherCustom => (s, nones cs)
  | .register =>
    match o, s with
    | .code, none => (some (cs.map (fun _ => Stats.init)), nones cs)
    | _, _ => (s, nones cs)
  | .unregister =>
    match o with
    | .code => (none, nones cs)
    | .service => (s, nones cs)

/-- one row per operation, one column per action -/
def runOpsNFrom (cs : List Cfg) (o : Origin) : Option (List Stats) → List Op → List (List (Option Int))
  | _, [] => []
  | s, op :: ops => (stepOpN cs o s op).2 :: runOpsNFrom cs o (stepOpN cs o s op).1 ops

def runOpsN (cs : List Cfg) (o : Origin) (ops : List Op) : List (List (Option Int)) := runOpsNFrom cs o none ops

/-- the collections of action `k`, oldest first -/
def column (k : Nat) (rows : List (List (Option Int))) : List Int :=
  rows.flatMap (fun row => outOf ((row[k]?).getD none))

end Limiter
