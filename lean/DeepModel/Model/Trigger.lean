/-
  Model/Trigger — installed triggers, location matching, the trigger phase of `trace_call`, a thread's run over
  its event stream and the machine of all threads (C03, C15).

  `Loc.atLocation` dispatches to the *translated* `LineLocation.at_location` / named `FunctionLocation.at_location`;
  `install` is the translated `convert_response` (one trigger per location id, same-location tracepoints merged)
  followed by the code-registered tracepoints (`TracepointConfigService.update_listeners`: `new_config +
  self._custom`); `actionsFor` is the translated `__actions_for_location`; `traceCall` is
  `Callbacks.stepWith` (the statement order of `__trace_call`) with these plugged in.

  Abstracted (other properties): what `build_trigger` makes of the tracepoint args (C11) — a tracepoint is given
  as its location and its actions; the gate (C04/C10) — `Event.denied`.
  Location ids (`"%s#%s" % (path, line)` / `(path, name)`) are modelled as the location itself: the text is
  injective for function names that are identifiers (assumption, listed in the check).
-/
import DeepModel.Model.Callbacks

namespace Trigger
open Callbacks Extracted.Locations

inductive Loc
  | line (path : String) (line : Int)      -- LineLocation(path, line)
  | func (path : String) (name : String)   -- FunctionLocation(path, method_name)
  | nosource (path : String)               -- FunctionLocation(path, None) on a file whose source is not available
  | nameless (path : String) (blocks : List (String × Int × Int))
    -- FunctionLocation(path, None) on a file with source; `blocks` = what inspect.getsourcelines gives for the
    -- frames of that file: (co_name, first line, number of lines) of each code scope (absent = it raises)
deriving DecidableEq, Repr

/-- a tracepoint (from the service or registered in code): where, and what to do there -/
structure Tp where
  loc : Loc
  actions : List Action
deriving DecidableEq, Repr

/-- an installed `Trigger` -/
structure Trig where
  loc : Loc
  actions : List Action
deriving DecidableEq, Repr

/-- `location.at_location(..)`: `none` = it raises (a method tracepoint without a method name reads the source
    lines of the frame; `nosource` stands for such a tracepoint on a file whose source is not available) -/
def Loc.atLocation (l : Loc) (event file : String) (lineno : Int) (function : String) : Option Bool :=
  match l with
  | Loc.line p n => some (lineAtLocation p n event file lineno function)
  | Loc.func p f => some (funcAtLocation p f event file lineno function)
  | Loc.nosource p => funcAtLocationNoSource p event file lineno function
  | Loc.nameless p bl =>
    funcAtLocationNameless p ((bl.find? (fun b => b.1 == function)).map (fun b => b.2)) event file lineno function

/-- `trigger.at_location(event, file, line, function, frame)` with the values `location_from_event` computes -/
def Loc.check (l : Loc) (ev : Event) : Option Bool :=
  match locationFromEvent ev.kind ev.path ev.line ev.func with
  | (event, file, lineno, function) => l.atLocation event file lineno function

/-- the location says "here" -/
def Loc.matches (l : Loc) (ev : Event) : Bool := l.check ev == some true

/-- every method location has a name (the only method tracepoints the property speaks of) -/
def Loc.named : Loc → Bool
  | Loc.nameless _ _ => false
  | _ => true

/-- a nameless location that says "here" stores the function name of the event: from then on it is the named
    location of that function (`self.__function_name = function_name`) — the installed triggers are state -/
def Loc.settle (l : Loc) (ev : Event) : Loc :=
  match l with
  | Loc.nameless p _ => if l.matches ev then Loc.func p ev.func else l
  | _ => l

def Tp.build (tp : Tp) : Trig := ⟨tp.loc, tp.actions⟩

/-- `Trigger.merge_actions` -/
def Trig.merge (t u : Trig) : Trig := ⟨t.loc, t.actions ++ u.actions⟩

/-- the trigger list the handler is given: the converted poll response, then the code-registered tracepoints -/
def install (resp custom : List Tp) : List Trig :=
  convertResponse (fun t => t.loc) Trig.merge (resp.map (fun tp => some tp.build)) ++ custom.map Tp.build

/-- `__actions_for_location`; should the exception of a trigger that cannot be matched leave the function, the
    catch-all of `trace_call` ends the event with no action (`[]`: `stepWith` then returns after the callbacks) -/
def actionsFor (cfg : List Trig) (ev : Event) : List Action :=
  (actionsForLocation (fun t => t.loc.check ev) (fun t => t.actions) cfg).getD []

/-- one `trace_call` of a thread -/
def traceCall (cfg : List Trig) (slot : Option (List Ctx)) (ev : Event) : Option (List Ctx) × List Eff :=
  stepWith (cfg.length : Int) (actionsFor cfg) slot ev

/-- a thread's run -/
def run (cfg : List Trig) (slot : Option (List Ctx)) (evs : List Event) : Option (List Ctx) × List Eff :=
  runWith (cfg.length : Int) (actionsFor cfg) slot evs

def AllNamed (cfg : List Trig) : Prop := ∀ t ∈ cfg, t.loc.named = true

def settleCfg (cfg : List Trig) (ev : Event) : List Trig := cfg.map (fun t => { t with loc := t.loc.settle ev })

/-- a thread's run with the installed triggers as state (nameless locations settle); equal to `run` when every
    method location has a name -/
def runS (cfg : List Trig) (slot : Option (List Ctx)) : List Event → (Option (List Ctx) × List Eff) × List Trig
  | [] => ((slot, []), cfg)
  | ev :: evs =>
    let r1 := traceCall cfg slot ev
    let r2 := runS (settleCfg cfg ev) r1.1 evs
    ((r2.1.1, r1.2 ++ r2.1.2), r2.2)

/-- does the handler push a context at this event under this configuration? -/
def opens (cfg : List Trig) (ev : Event) : Bool := opensAt (cfg.length : Int) (actionsFor cfg) ev

/-! ### all threads: the store is keyed by thread (`threading.local`), one event of one thread at a time -/

abbrev Tid := Nat
abbrev Store := Tid → Option (List Ctx)

def Store.empty : Store := fun _ => none

def stepG (cfg : List Trig) (S : Store) (te : Tid × Event) : Store × List (Tid × Eff) :=
  let r := traceCall cfg (S te.1) te.2
  (fun t => if t = te.1 then r.1 else S t, r.2.map (fun e => (te.1, e)))

def runG (cfg : List Trig) : Store → List (Tid × Event) → Store × List (Tid × Eff)
  | S, [] => (S, [])
  | S, te :: rest =>
    let r1 := stepG cfg S te
    let r2 := runG cfg r1.1 rest
    (r2.1, r1.2 ++ r2.2)

/-- the events of thread `t` in a global (interleaved) stream -/
def proj (t : Tid) (gs : List (Tid × Event)) : List Event :=
  gs.filterMap (fun te => if te.1 = t then some te.2 else none)

/-- the effects of thread `t` in a global effect list -/
def projEff (t : Tid) (es : List (Tid × Eff)) : List Eff :=
  es.filterMap (fun te => if te.1 = t then some te.2 else none)

/-! ### the gate oracle for scripted decisions (used by the driver)

  `script a` is the list of the gate's answers for action `a`, one per attempt (an attempt = the action is at its
  location); when the script is used up the gate allows.  `annotate` writes the refusals into the events; it looks
  at the configuration only through `actionsFor`, never at the handler state. -/

def nthD (l : List Bool) (n : Nat) : Bool := (l[n]?).getD true

def bump (hits : List (Action × Nat)) (a : Action) : List (Action × Nat) :=
  if hits.any (fun h => h.1 == a) then hits.map (fun h => if h.1 == a then (h.1, h.2 + 1) else h)
  else hits ++ [(a, 1)]

def hitsOf (hits : List (Action × Nat)) (a : Action) : Nat :=
  match hits.find? (fun h => h.1 == a) with
  | some h => h.2
  | none => 0

def annotate (cfg : List Trig) (script : Action → List Bool) : List (Action × Nat) → List Event → List Event
  | _, [] => []
  | hits, ev :: evs =>
    let attempts := if cfg.isEmpty then [] else actionsFor cfg ev
    let denied := attempts.filter (fun a => !nthD (script a) (hitsOf hits a))
    { ev with denied := denied } :: annotate cfg script (attempts.foldl bump hits) evs

end Trigger
