/-
  Model/WireBase — base vocabulary of the wire model (C08), core Lean only.

  * `Text`     a Python `str` as a list of code points.  A Lean `String` cannot hold a surrogate, a Python `str`
               can (`'v\ud800'`), and protobuf refuses such text — so text is modelled below `String`.
  * `PyVal`    the Python values `convert_value` distinguishes (explicitly mutual, so recursion is structural).
  * `PAnyValue` the ARGUMENT handed to a protobuf `AnyValue` slot: one oneof member, `empty` (`AnyValue()`, no
               member set), or `pyNone` (Python `None`: "unset" where a singular message is expected, a `TypeError`
               inside a repeated field).
  * big-endian bytes of the snapshot id, UTF-8 and base64 for the basic-auth header.

  Modelled, not verified (trusted base): what protobuf accepts — a `str` field iff the text has no surrogate code
  point, an integer field iff the value is in the field's range, a repeated message field iff no element is `None`.
-/
namespace Wire

abbrev Text := List Nat

/-- a Unicode scalar value (what UTF-8 can encode): below 0x110000 and not a surrogate -/
def cpOk (c : Nat) : Bool := c < 0xD800 || (0xDFFF < c && c < 0x110000)
def Text.ok (t : Text) : Bool := t.all cpOk
def Text.ofString (s : String) : Text := s.toList.map Char.toNat

def inU32 (i : Int) : Bool := 0 ≤ i && i < 4294967296
def inU64 (i : Int) : Bool := 0 ≤ i && i < 18446744073709551616
def inI64 (i : Int) : Bool := -9223372036854775808 ≤ i && i < 9223372036854775808
def bytesOk (b : List Nat) : Bool := b.all (· < 256)
/-- an enum value protobuf takes (int32; the model has no negative enum value): `WatchResult(source=2**31)` is a ValueError -/
def inEnum (n : Nat) : Bool := n < 2147483648

mutual
  inductive PyVal where
    | none
    | bool (b : Bool)
    | str (t : Text)
    | int (i : Int)
    | float (bits : Nat)          -- the IEEE-754 bit pattern; carried opaquely
    | bytes (b : List Nat)
    | dict (kvs : PyKVs)
    | list (vs : PyVals)
    | tuple (vs : PyVals)
    | other (ty : String)
  inductive PyVals where
    | nil
    | cons (v : PyVal) (r : PyVals)
  inductive PyKVs where
    | nil
    | cons (k : Text) (v : PyVal) (r : PyKVs)
end

mutual
  inductive PAnyValue where
    | pyNone
    | empty                                 -- `AnyValue()`: a message with no member of the oneof set
    | string_value (t : Text)
    | bool_value (b : Bool)
    | int_value (i : Int)
    | double_value (bits : Nat)
    | array_value (vs : PAnyList)
    | kvlist_value (kvs : PKVList)
    | bytes_value (b : List Nat)
  inductive PAnyList where
    | nil
    | cons (v : PAnyValue) (r : PAnyList)
  inductive PKVList where
    | nil
    | cons (k : Text) (v : PAnyValue) (r : PKVList)
end

def PyVals.ofList : List PyVal → PyVals
  | [] => .nil
  | v :: r => .cons v (PyVals.ofList r)

def PyVals.toList : PyVals → List PyVal
  | .nil => []
  | .cons v r => v :: r.toList

/-! what protobuf makes of the argument: a message (`true`), or an exception (`false`) -/
mutual
  def PAnyValue.accepts : PAnyValue → Bool
    | .pyNone => true                      -- singular slot: unset
    | .empty => true
    | .string_value t => t.ok
    | .bool_value _ => true
    | .int_value i => inI64 i
    | .double_value _ => true
    | .array_value vs => vs.accepts
    | .kvlist_value kvs => kvs.accepts
    | .bytes_value b => bytesOk b
  def PAnyList.accepts : PAnyList → Bool
    | .nil => true
    | .cons .pyNone _ => false             -- `None` in a repeated message field: TypeError
    | .cons v r => v.accepts && r.accepts
  def PKVList.accepts : PKVList → Bool
    | .nil => true
    | .cons k v r => k.ok && v.accepts && r.accepts
end

/-! ### bytes of the 128-bit snapshot id -/

/-- `n.to_bytes(k, "big")` for `n < 256^k` (`OverflowError` otherwise: `none`) -/
def toBytesAux : Nat → Nat → List Nat
  | 0, _ => []
  | k + 1, n => toBytesAux k (n / 256) ++ [n % 256]

def toBytesBig (k n : Nat) : Option (List Nat) := if n < 256 ^ k then some (toBytesAux k n) else none

def fromBytesBig (b : List Nat) : Nat := b.foldl (fun a x => a * 256 + x) 0

/-! ### UTF-8 and base64 (basic auth header) -/

def utf8 (s : String) : List Nat := s.toUTF8.toList.map UInt8.toNat

def b64Alphabet : List Char :=
  "ABCDEFGHIJKLMNOPQRSTUVWXYZabcdefghijklmnopqrstuvwxyz0123456789+/".toList

def b64Char (n : Nat) : Char := b64Alphabet.getD n '?'

/-- standard base64 with `=` padding (`base64.b64encode`) -/
def b64encode : List Nat → String
  | [] => ""
  | [a] => String.ofList [b64Char (a / 4), b64Char (a % 4 * 16), '=', '=']
  | [a, b] => String.ofList [b64Char (a / 4), b64Char (a % 4 * 16 + b / 16), b64Char (b % 16 * 4), '=']
  | a :: b :: c :: rest =>
    String.ofList [b64Char (a / 4), b64Char (a % 4 * 16 + b / 16), b64Char (b % 16 * 4 + c / 64), b64Char (c % 64)]
      ++ b64encode rest

end Wire
