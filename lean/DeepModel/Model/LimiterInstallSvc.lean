/-
  Model/LimiterInstallSvc — the operations of Model/LimiterInstall played on the TRANSLATED configuration service
  (`Extracted.ConfigSvc`: `update_no_change`, `update_new_config`, `add_custom`, `remove_custom`, `update_listeners`,
  regenerated from /repo by harness/extract/configsvc.py; read-only here).

  `Trig.tag` is used as the identity of the OBJECTS a build produced: every `convert_response` and every `add_custom`
  builds new objects (`build_trigger` → `LocationAction.__init__` → a fresh `TracepointExecutionStats`), so each build
  gets a new tag.  `installedObj` is the object of our tracepoint among those `update_listeners` hands to the trigger
  handler.  `Limiter.stepOp` says "fresh statistics" exactly where this object changes, "same statistics" where it stays,
  "not installed" where there is none — checked on generated operation sequences by the driver (op `opsSvc`), proved
  for the single steps in Proofs/LimiterInstallSvc.
-/
import DeepModel.Extracted.ConfigSvc
import DeepModel.Model.LimiterInstall

namespace Limiter
open Extracted.ConfigSvc

def ourTrig (gen : Nat) : Trig := ⟨"host.py", 7, toString gen⟩
def otherTrig (gen : Nat) : Trig := ⟨"elsewhere.py", 3, toString gen⟩

structure World where
  svc : Svc
  gen : Nat                    -- builds so far
  handle : Option Handle       -- our registration, if we are registered in code
deriving Repr

def World.init : World := ⟨Svc.init, 0, none⟩

/-- what `update_listeners` hands to the listeners: `new_config + self._custom`, read under the lock -/
def handed (st : Svc) : List Trig := listenerArg st (listenerRead st (Locals.init []))

def svcOp (o : Origin) (w : World) : Op → World
  | .hit _ => w
  | .update present =>
    -- `convert_response` builds every tracepoint of the response anew
    let cfg := (if present && o == .service then [ourTrig (w.gen + 1)] else []) ++ [otherTrig (w.gen + 1)]
    { w with svc := updateNewConfig w.svc 0 "h" cfg, gen := w.gen + 1 }
  | .noChange => { w with svc := updateNoChange w.svc 0 }
  | .otherCustom =>
    { w with svc := (addCustom w.svc (some (otherTrig (w.gen + 1)))).1, gen := w.gen + 1 }
  | .register =>
    match o, w.handle with
    | .code, none =>
      let r := addCustom w.svc (some (ourTrig (w.gen + 1)))
      { svc := r.1, gen := w.gen + 1, handle := some r.2 }
    | _, _ => w
  | .unregister =>
    match o, w.handle with
    | .code, some h => { w with svc := removeCustom w.svc h, handle := none }
    | _, _ => w

/-- the object of our tracepoint the trigger handler is given (`none` = not installed) -/
def installedObj (w : World) : Option String :=
  ((handed w.svc).find? (fun t => t.path == "host.py")).map (·.tag)

/-- per hit of the operation sequence: how many hits the installed OBJECT has seen, this one included
    (`none` = not installed) — from the translated service -/
def agesSvc (o : Origin) : World → Option String → Nat → List Op → List (Option Nat)
  | _, _, _, [] => []
  | w, last, n, op :: ops =>
    let w' := svcOp o w op
    match op with
    | .hit _ =>
      match installedObj w' with
      | none => none :: agesSvc o w' none 0 ops
      | some t => let n' := (if last == some t then n else 0) + 1
                  some n' :: agesSvc o w' (some t) n' ops
    | _ => agesSvc o w' last n ops

/-- the same from `stepOp` with an unlimited configuration: the counter of the statistics object.  Every hit is played
    as a permitted one (condition true, time stamps increasing: the `k`-th operation at time `k`), so the counter counts
    the hits the object has seen -/
def agesModelFrom (o : Origin) : Nat → Option Extracted.Limiter.Stats → List Op → List (Option Int)
  | _, _, [] => []
  | k, s, op :: ops =>
    match op with
    | .hit _ =>
      let s' := (stepOp ⟨some "-1", some "0", ⟨0, 0⟩⟩ o s (.hit ⟨k, true⟩)).1
      s'.map (·.count) :: agesModelFrom o (k + 1) s' ops
    | _ => agesModelFrom o (k + 1) (stepOp ⟨some "-1", some "0", ⟨0, 0⟩⟩ o s op).1 ops

def agesModel (o : Origin) (s : Option Extracted.Limiter.Stats) (ops : List Op) : List (Option Int) :=
  agesModelFrom o 1 s ops

end Limiter
