/-
  Model/Callbacks — trace events, pending callback contexts, the per-event handler skeleton of
  `TriggerHandler.__trace_call`, and invocation trees (C03, C15).

  The *decisions* are not written here: `locationFromEvent`, `callbackEvent`, `processCallBacks`,
  `cbAtLocation`, `noTracepoints`, `noActions`, `pushCallbacks` are `Extracted.Locations.*`, regenerated from
  the Python source on every run.  This file adds the glue between them in the order of the statements of
  `__trace_call` (the extractor refuses to translate when that order changes), parametrised by the trigger
  phase (`acts`: which actions the installed triggers yield for an event — `Model/Trigger.lean` supplies the
  real one, the C15 theorems hold for every one).

  Gate oracle.  Whether an action that is at its location actually runs (`ActionContext.can_trigger`: fire
  count, fire period, window, condition — C04/C10) is not modelled here: every event carries the list
  `denied` of the actions the gate refuses *at this event*.  Quantifying over all event streams therefore
  quantifies over all gate outcomes as an arbitrary function of the event position.

  Ghost fields.  `Event.frame`, `Event.inv` (the path of the invocation in its tree) and `Ctx.opener` are never
  read by the handler; they exist so that theorems can say *which invocation* an event belongs to.
-/
import DeepModel.Extracted.Locations

namespace Callbacks
open Extracted.Locations

inductive Kind | snapshot | log | metric | span | capture
deriving DecidableEq, Repr

/-- one action of one tracepoint (`tp` = index of the tracepoint in the configuration). `capture` is a
    snapshot action whose config carries a `*_capture` stage: its snapshot is sent by a callback. -/
structure Action where
  tp : Nat
  kind : Kind
deriving DecidableEq, Repr

/-- actions whose result registers a callback (`SpanResult`, `DeferredSnapshotActionResult`). -/
def Action.hasCallback (a : Action) : Bool :=
  match a.kind with
  | .span => true
  | .capture => true
  | _ => false

/-- one trace event as Python delivers it to the trace function. -/
structure Event where
  kind : String            -- "call" | "line" | "return" | "exception"
  path : String            -- frame.f_code.co_filename
  line : Int               -- frame.f_lineno
  func : String            -- frame.f_code.co_name
  arg : Int := 0           -- the trace function's `arg` (return value / exception), abstracted to a number
  frame : Nat := 0         -- ghost: identity of the frame object
  inv : List Nat := []     -- ghost: path of the invocation in its invocation tree
  denied : List Action := []  -- gate oracle: actions `can_trigger` refuses at this event
deriving DecidableEq, Repr

/-- the file name the handler compares (`location_from_event`). -/
def fileOf (path : String) : String := (locationFromEvent "" path 0 "").2.1

/-- a pending `CallbackContext`. -/
structure Ctx where
  event : String
  file : String
  line : Int
  func : String
  cbs : List Action
  opener : Event           -- ghost: the event at which it was pushed
deriving DecidableEq, Repr

inductive Eff
  | fired (a : Action) (ev : Event)      -- `ctx.process()` of action `a` ran at `ev`
  | opened (c : Ctx)                     -- a CallbackContext was pushed
  | closed (c : Ctx) (ev : Event)        -- `context.process(..)` ran: its spans closed / its snapshots sent, at `ev`
deriving DecidableEq, Repr

/-- the actions processed at an event: those at the location which the gate does not refuse. -/
def firedAt (ncfg : Int) (acts : Event → List Action) (ev : Event) : List Action :=
  if noTracepoints ncfg then [] else
  if noActions ((acts ev).length : Int) then [] else
  (acts ev).filter (fun a => !ev.denied.contains a)

/-- one call of `TriggerHandler.trace_call` for the calling thread's slot (`none` = `ThreadLocal` not set). -/
def stepWith (ncfg : Int) (acts : Event → List Action) (slot : Option (List Ctx)) (ev : Event) :
    Option (List Ctx) × List Eff :=
  match locationFromEvent ev.kind ev.path ev.line ev.func with
  | (event, file, line, function) =>
    let r : Option (Option (List Ctx) × List Ctx) :=
      if callbackEvent event slot.isSome then
        -- `self._callbacks.value` creates the default when unset; is_set is part of the guard, so it is set here
        processCallBacks (fun c => cbAtLocation c.event c.file c.func event file line function) (slot.getD [])
      else some (slot, [])
    match r with
    | none => (slot, [])   -- IndexError inside __trace_call: caught by trace_call, the event is abandoned
    | some (slot1, done) =>
      let closes := done.map (fun c => Eff.closed c ev)
      if noTracepoints ncfg then (slot1, closes) else
      if noActions ((acts ev).length : Int) then (slot1, closes) else
      let fired := (acts ev).filter (fun a => !ev.denied.contains a)
      let cbs := fired.filter Action.hasCallback
      let fx := closes ++ fired.map (fun a => Eff.fired a ev)
      if pushCallbacks (cbs.length : Int) then
        -- `self._callbacks.get().append(CallbackContext(event, file, line, function, callbacks))`
        let c : Ctx := ⟨event, file, line, function, cbs, ev⟩
        (some (c :: slot1.getD []), fx ++ [Eff.opened c])
      else (slot1, fx)

/-- a thread's run over its event stream. -/
def runWith (ncfg : Int) (acts : Event → List Action) : Option (List Ctx) → List Event → Option (List Ctx) × List Eff
  | slot, [] => (slot, [])
  | slot, ev :: evs =>
    let r1 := stepWith ncfg acts slot ev
    let r2 := runWith ncfg acts r1.1 evs
    (r2.1, r1.2 ++ r2.2)

/-- does the handler push a context at this event? -/
def opensAt (ncfg : Int) (acts : Event → List Action) (ev : Event) : Bool :=
  pushCallbacks ((((firedAt ncfg acts ev).filter Action.hasCallback).length : Nat) : Int)

/-! ### well-bracketed effect sequences (the statement's "exactly once, in order") -/

/-- replay the open/close effects against a stack of open contexts: a close must close the most recently
    opened context that is still open.  `none` = some close was out of order or closed nothing. -/
def chk : List Ctx → List Eff → Option (List Ctx)
  | s, [] => some s
  | s, .fired _ _ :: w => chk s w
  | s, .opened c :: w => chk (c :: s) w
  | [], .closed _ _ :: _ => none
  | t :: s, .closed c _ :: w => if t = c then chk s w else none

def countOpened (c : Ctx) : List Eff → Nat
  | [] => 0
  | .opened d :: w => (if d = c then 1 else 0) + countOpened c w
  | _ :: w => countOpened c w

def countClosed (c : Ctx) : List Eff → Nat
  | [] => 0
  | .closed d _ :: w => (if d = c then 1 else 0) + countClosed c w
  | _ :: w => countClosed c w

/-! ### invocation trees and CPython's event discipline -/

structure FrameInfo where
  path : String
  func : String
  frame : Nat
  inv : List Nat

def FrameInfo.ev (fi : FrameInfo) (kind : String) (line : Int) (arg : Int) (denied : List Action) : Event :=
  ⟨kind, fi.path, line, fi.func, arg, fi.frame, fi.inv, denied⟩

/-- how an invocation ends: `ret` = a `return` event (a return, or a generator's yield); `raise` = the
    exception leaves the frame: an `exception` event followed by a `return` event (arg None). -/
inductive Exit
  | ret (line : Int) (arg : Int)
  | raise (line : Int) (arg : Int)
deriving DecidableEq, Repr

mutual
/-- one function invocation (or one resumption of a generator: same `frame`, new invocation). -/
inductive Inv where
  | mk (path func : String) (frame : Nat) (line : Int) (denied : List Action) (body : Items) (exit : Exit)
/-- what happens in the frame, in order. -/
inductive Items where
  | nil
  | line (n : Int) (denied : List Action) (rest : Items)          -- a `line` event
  | caught (n : Int) (arg : Int) (rest : Items)                   -- an `exception` event the frame survives
  | call (i : Inv) (rest : Items)                                 -- a nested invocation
end

def Exit.events (fi : FrameInfo) : Exit → List Event
  | .ret n a => [fi.ev "return" n a []]
  | .raise n a => [fi.ev "exception" n a [], fi.ev "return" n 0 []]

mutual
def Inv.flatten : Inv → List Nat → List Event
  | .mk path func frame ln den body exit, p =>
    (FrameInfo.mk path func frame p).ev "call" ln 0 den ::
      (body.flatten ⟨path, func, frame, p⟩ 0 ++ exit.events ⟨path, func, frame, p⟩)
def Items.flatten : Items → FrameInfo → Nat → List Event
  | .nil, _, _ => []
  | .line n den rest, fi, k => fi.ev "line" n 0 den :: rest.flatten fi k
  | .caught n a rest, fi, k => fi.ev "exception" n a [] :: rest.flatten fi k
  | .call i rest, fi, k => i.flatten (fi.inv ++ [k]) ++ rest.flatten fi (k + 1)
end

/-- a thread's whole stream: a sequence of top-level invocations (e.g. `Thread.run`, then `Thread._delete`). -/
def flattenForest : List Inv → Nat → List Event
  | [], _ => []
  | i :: is, k => i.flatten [k] ++ flattenForest is (k + 1)

/-- the (file name, function name) pairs the handler can tell invocations apart by. -/
abbrev Key := String × String

mutual
def Inv.keys : Inv → List Key
  | .mk path func _ _ _ body _ => (fileOf path, func) :: body.keys
def Items.keys : Items → List Key
  | .nil => []
  | .line _ _ rest => rest.keys
  | .caught _ _ rest => rest.keys
  | .call i rest => i.keys ++ rest.keys
end

mutual
/-- no invocation has a (transitively) nested invocation with the same (file name, function name). -/
def Inv.NoClash : Inv → Prop
  | .mk path func _ _ _ body _ => (fileOf path, func) ∉ body.keys ∧ body.NoClash
def Items.NoClash : Items → Prop
  | .nil => True
  | .line _ _ rest => rest.NoClash
  | .caught _ _ rest => rest.NoClash
  | .call i rest => i.NoClash ∧ rest.NoClash
end

mutual
/-- no invocation reaches its own plain `return` with both the context opened at its call (`m`) and a context
    opened at one of its lines (`l`) still pending (only the top one would be examined there).  `opens ev` says
    whether the handler pushes a context at `ev`.  At an own `exception` event the top context is processed: the
    line context if there is one (the call context then stays, `m && l`), else the call context. -/
def Inv.NoStack (opens : Event → Bool) : Inv → List Nat → Prop
  | .mk path func frame ln den body exit, p =>
    body.NoStack opens ⟨path, func, frame, p⟩ 0 exit
      (opens ((FrameInfo.mk path func frame p).ev "call" ln 0 den)) false
def Items.NoStack (opens : Event → Bool) : Items → FrameInfo → Nat → Exit → Bool → Bool → Prop
  | .nil, _, _, .ret _ _, m, l => (m && l) = false
  | .nil, _, _, .raise _ _, _, _ => True      -- the exception event processes one, the return event the other
  | .line n den rest, fi, k, x, m, _ => rest.NoStack opens fi k x m (opens (fi.ev "line" n 0 den))
  | .caught _ _ rest, fi, k, x, m, l => rest.NoStack opens fi k x (m && l) false
  | .call i rest, fi, k, x, m, l => i.NoStack opens (fi.inv ++ [k]) ∧ rest.NoStack opens fi (k + 1) x m l
end

mutual
/-- the stricter variant needed for *which value* a deferred method capture attaches: no invocation reaches any own
    `exception` event or the end of its body with both kinds of context pending. -/
def Inv.NoStackStrict (opens : Event → Bool) : Inv → List Nat → Prop
  | .mk path func frame ln den body exit, p =>
    body.NoStackStrict opens ⟨path, func, frame, p⟩ 0 exit
      (opens ((FrameInfo.mk path func frame p).ev "call" ln 0 den)) false
def Items.NoStackStrict (opens : Event → Bool) : Items → FrameInfo → Nat → Exit → Bool → Bool → Prop
  | .nil, _, _, _, m, l => (m && l) = false
  | .line n den rest, fi, k, x, m, _ => rest.NoStackStrict opens fi k x m (opens (fi.ev "line" n 0 den))
  | .caught _ _ rest, fi, k, x, m, l => (m && l) = false ∧ rest.NoStackStrict opens fi k x false false
  | .call i rest, fi, k, x, m, l =>
    i.NoStackStrict opens (fi.inv ++ [k]) ∧ rest.NoStackStrict opens fi (k + 1) x m l
end

/-- the first own `exception` / `return` event of an invocation (where its call-opened context completes) -/
def Items.firstExit : Items → FrameInfo → Exit → Event
  | .nil, fi, .ret n a => fi.ev "return" n a []
  | .nil, fi, .raise n a => fi.ev "exception" n a []
  | .line _ _ rest, fi, x => rest.firstExit fi x
  | .caught n a _, fi, _ => fi.ev "exception" n a []
  | .call _ rest, fi, x => rest.firstExit fi x

def Inv.callEvent : Inv → List Nat → Event
  | .mk path func frame ln den _ _, p => (FrameInfo.mk path func frame p).ev "call" ln 0 den

def Inv.firstExit : Inv → List Nat → Event
  | .mk path func frame _ _ body exit, p => body.firstExit ⟨path, func, frame, p⟩ exit

/-! Boolean mirrors of `NoClash` / `NoStack` (for the driver; `Proofs/Callbacks` shows they decide the Props) -/
mutual
def Inv.noClashB : Inv → Bool
  | .mk path func _ _ _ body _ => !(body.keys.contains (fileOf path, func)) && body.noClashB
def Items.noClashB : Items → Bool
  | .nil => true
  | .line _ _ rest => rest.noClashB
  | .caught _ _ rest => rest.noClashB
  | .call i rest => i.noClashB && rest.noClashB
end

mutual
def Inv.noStackB (opens : Event → Bool) : Inv → List Nat → Bool
  | .mk path func frame ln den body exit, p =>
    body.noStackB opens ⟨path, func, frame, p⟩ 0 exit
      (opens ((FrameInfo.mk path func frame p).ev "call" ln 0 den)) false
def Items.noStackB (opens : Event → Bool) : Items → FrameInfo → Nat → Exit → Bool → Bool → Bool
  | .nil, _, _, .ret _ _, m, l => !(m && l)
  | .nil, _, _, .raise _ _, _, _ => true
  | .line n den rest, fi, k, x, m, _ => rest.noStackB opens fi k x m (opens (fi.ev "line" n 0 den))
  | .caught _ _ rest, fi, k, x, m, l => rest.noStackB opens fi k x (m && l) false
  | .call i rest, fi, k, x, m, l => i.noStackB opens (fi.inv ++ [k]) && rest.noStackB opens fi (k + 1) x m l
end

def forestNoClash : List Inv → Prop
  | [] => True
  | i :: is => i.NoClash ∧ forestNoClash is

def forestNoStack (opens : Event → Bool) : List Inv → Nat → Prop
  | [], _ => True
  | i :: is, k => i.NoStack opens [k] ∧ forestNoStack opens is (k + 1)

end Callbacks
