/-
  Model/FramesBase — the vocabulary the *translated* frame / tracepoint-echo code (Extracted/Frames.lean) is
  written in (C02).  Hand-written, core Lean only.

  * `CfgVal` / `Cfg`: the config dict of a `LocationAction` as an insertion-ordered association list.  Values the
    code can tell apart: text, `None`, an int (limits given in code), the list of watch expressions.
  * `RawFrame`: what `_process_frame` reads of one real frame (`f_code.co_filename`, `f_code.co_name`, `f_lineno`,
    the `f_locals` dict as a heap reference, the reported class name of each local).

  Modelled, not verified (trusted base, exercised by the correspondence run): `dict(d)` copies, `del d[k]`, `k in d`,
  `d[k]`, `d.get(k, default)` of an insertion-ordered `dict`.
-/
import DeepModel.Py

namespace FrameBase

inductive CfgVal
  | text (s : String)
  | null
  | num (n : Int)
  | strs (xs : List String)
deriving DecidableEq, Repr, Inhabited

abbrev Cfg := List (String × CfgVal)

/-- `k in d` -/
def Cfg.has (d : Cfg) (k : String) : Bool := d.any (fun e => e.1 == k)

/-- `d[k]` (only used under `k in d`; an absent key reads as `None`) -/
def Cfg.get (d : Cfg) (k : String) : CfgVal :=
  match d.find? (fun e => e.1 == k) with
  | some e => e.2
  | none => .null

/-- `d.get(k, default)` -/
def Cfg.getD (d : Cfg) (k : String) (dflt : CfgVal) : CfgVal :=
  match d.find? (fun e => e.1 == k) with
  | some e => e.2
  | none => dflt

/-- `del d[k]` -/
def Cfg.del (d : Cfg) (k : String) : Cfg := d.filter (fun e => e.1 != k)

/-- `d.get(k, [])` read as a list of watch expressions -/
def Cfg.getStrs (d : Cfg) (k : String) : List String :=
  match Cfg.getD d k (.strs []) with
  | .strs xs => xs
  | _ => []

/-- tracepoint args as sent by the service: `map<string,string>` -/
abbrev Args := List (String × String)

/-- `args.get(k, default)` of the tracepoint args, as a config value -/
def Args.getD (a : Args) (k : String) (dflt : CfgVal) : CfgVal :=
  match a.find? (fun e => e.1 == k) with
  | some e => .text e.2
  | none => dflt

structure RawFrame where
  co_filename : String
  co_name : String
  f_lineno : Int
  /-- heap reference of the `f_locals` dict -/
  locals : Nat
  /-- for every local that is not `None`: its name and the outcome of reading `<local>.__class__.__name__`
      (`none` = the read raises).  This is the class the object *reports* (`__class__`), which for proxy objects is
      not `type(o)`. -/
  classes : List (String × Option String)
deriving Repr, DecidableEq

end FrameBase
