/-
  Model/Template — log templates (C16).

  A re-model of what `string.Formatter.vformat` does with a template when `get_field` is the agent's
  (`FormatExtractor.get_field`: the whole field text is evaluated as a LOG watch and its log string returned):

  * `parse`  — CPython's `MarkupIterator_next` / `parse_field` (Objects/stringlib/unicode_format.h) as a
               character-by-character state machine: literal text, `{{` → `{`, `}}` → `}`, a field name up to the
               first `!` / `:` / `}` outside `[...]`, an optional one-character conversion, an optional format spec
               up to the matching `}` (nested braces counted).  Malformed ⇒ error.
  * `render` — `Formatter._vformat`: automatic numbering of empty fields (and its clash with digit fields),
               conversion `!s !r !a` applied to the field's *text* (the agent's `get_field` returns a `str`),
               `format(text, spec)` for `str` (fill / align / width / precision; everything else is an error),
               the message prefix from the source (`Extracted.Expr.logPrefix`).
  Modelled, not verified: this file is my reading of CPython 3.12; it is compared with the real
  `string.Formatter` on every generated template by the correspondence check.  Nested replacement fields inside
  a format spec (`{x:{w}}`) are rendered by `renderNested` (the spec is formatted one level down, its fields are
  further LOG watches).
-/
import DeepModel.Extracted.Expr

namespace Template
open Extracted.Expr

inductive Seg
  | lit (s : List Char)
  | field (name : List Char) (conv : Option Char) (spec : List Char)
deriving DecidableEq, Repr

inductive Err
  | parse        -- ValueError from the template parser
  | numbering    -- switch between automatic and manual field numbering
  | conversion   -- unknown conversion specifier
  | spec         -- invalid format specifier for a str
  | unsupported  -- (flat renderer only) nested replacement field inside a format spec
  | recursion    -- `Max string recursion exceeded`: a replacement field three levels deep
  | tooWide      -- width beyond `maxWidth`: the real formatter allocates the padding (MemoryError, or ValueError
                 -- 'Too many decimal digits' past the ssize_t range) — outside the compared domain
deriving DecidableEq, Repr

/-! ### parser -/

inductive Mode
  | text
  | sawOpen                       -- just read `{` in text
  | sawClose                      -- just read `}` in text
  | name (nm : List Char)         -- inside a field name (reversed)
  | bracket (nm : List Char)      -- inside `[...]` of a field name
  | convCh (nm : List Char)       -- just read `!`
  | afterConv (nm : List Char) (c : Char)
  | spec (nm : List Char) (conv : Option Char) (depth : Nat) (sp : List Char)
deriving DecidableEq, Repr

structure St where
  out : List Seg      -- finished segments, newest first
  lit : List Char     -- pending literal text, reversed
  mode : Mode
deriving DecidableEq, Repr

def St.flush (s : St) : List Seg :=
  if s.lit.isEmpty then s.out else Seg.lit s.lit.reverse :: s.out

def St.emit (s : St) (nm : List Char) (conv : Option Char) (sp : List Char) : St :=
  ⟨Seg.field nm.reverse conv sp.reverse :: s.flush, [], .text⟩

/-- one character of a field name (`parse_field`'s first loop) -/
def nameStep (s : St) (nm : List Char) (c : Char) : Except Err St :=
  if c = '{' then .error .parse
  else if c = '[' then .ok { s with mode := .bracket (c :: nm) }
  else if c = '}' then .ok (s.emit nm none [])
  else if c = ':' then .ok { s with mode := .spec nm none 1 [] }
  else if c = '!' then .ok { s with mode := .convCh nm }
  else .ok { s with mode := .name (c :: nm) }

def step (s : St) (c : Char) : Except Err St :=
  match s.mode with
  | .text =>
    if c = '{' then .ok { s with mode := .sawOpen }
    else if c = '}' then .ok { s with mode := .sawClose }
    else .ok { s with lit := c :: s.lit }
  | .sawOpen =>
    if c = '{' then .ok { s with lit := '{' :: s.lit, mode := .text }
    else nameStep s [] c
  | .sawClose =>
    if c = '}' then .ok { s with lit := '}' :: s.lit, mode := .text }
    else .error .parse
  | .name nm => nameStep s nm c
  | .bracket nm =>
    if c = ']' then .ok { s with mode := .name (c :: nm) }
    else .ok { s with mode := .bracket (c :: nm) }
  | .convCh nm => .ok { s with mode := .afterConv nm c }
  | .afterConv nm cv =>
    if c = '}' then .ok (s.emit nm (some cv) [])
    else if c = ':' then .ok { s with mode := .spec nm (some cv) 1 [] }
    else .error .parse
  | .spec nm cv d sp =>
    if c = '{' then .ok { s with mode := .spec nm cv (d + 1) (c :: sp) }
    else if c = '}' then
      (if d ≤ 1 then .ok (s.emit nm cv sp) else .ok { s with mode := .spec nm cv (d - 1) (c :: sp) })
    else .ok { s with mode := .spec nm cv d (c :: sp) }

def finish (s : St) : Except Err (List Seg) :=
  match s.mode with
  | .text => .ok s.flush.reverse
  | _ => .error .parse

def run (s : St) : List Char → Except Err St
  | [] => .ok s
  | c :: cs => match step s c with
    | .ok s' => run s' cs
    | .error e => .error e

def St.init : St := ⟨[], [], .text⟩

def parseChars (cs : List Char) : Except Err (List Seg) :=
  match run St.init cs with
  | .ok s => finish s
  | .error e => .error e

def parse (t : String) : Except Err (List Seg) := parseChars t.toList

/-! ### writing a segment list back as a template -/

def escape : List Char → List Char
  | [] => []
  | c :: cs => if c = '{' ∨ c = '}' then c :: c :: escape cs else c :: escape cs

def convPart : Option Char → List Char
  | none => []
  | some c => ['!', c]

def specPart (sp : List Char) : List Char := if sp.isEmpty then [] else ':' :: sp

def unparseSeg : Seg → List Char
  | .lit s => escape s
  | .field nm cv sp => '{' :: (nm ++ (convPart cv ++ (specPart sp ++ ['}'])))

def unparse : List Seg → List Char
  | [] => []
  | s :: ss => unparseSeg s ++ unparse ss

/-- adjacent literal runs joined, empty ones dropped (`acc` = pending literal text) -/
def norm (acc : List Char) : List Seg → List Seg
  | [] => if acc.isEmpty then [] else [.lit acc]
  | .lit a :: rest => norm (acc ++ a) rest
  | .field n c s :: rest => (if acc.isEmpty then [] else [.lit acc]) ++ (.field n c s :: norm [] rest)

def normalise (segs : List Seg) : List Seg := norm [] segs

/-- a field name the parser reads back whole: no `{ } ! :` outside `[...]`, brackets closed -/
def nameOk (inBr : Bool) : List Char → Bool
  | [] => !inBr
  | c :: cs =>
    if inBr then (if c = ']' then nameOk false cs else nameOk true cs)
    else if c = '{' ∨ c = '}' ∨ c = ':' ∨ c = '!' then false
    else if c = '[' then nameOk true cs
    else nameOk false cs

def noBrace (cs : List Char) : Bool := cs.all (fun c => c ≠ '{' ∧ c ≠ '}')

/-- a segment list that stands for a template: what the statement calls literal text and `{expression}` fields -/
def Seg.wf : Seg → Bool
  | .lit _ => true
  | .field nm _ sp => nameOk false nm && noBrace sp

/-! ### Python's `repr` / `ascii` of a str, `format(str, spec)` -/

def hexDigit (n : Nat) : Char := if n < 10 then Char.ofNat (48 + n) else Char.ofNat (87 + n)

def hexPad (width : Nat) (n : Nat) : List Char :=
  (List.range width).reverse.map (fun i => hexDigit ((n / 16 ^ i) % 16))

/-- `Py_UNICODE_ISPRINTABLE` — exact for ASCII; above ASCII: 0x80–0xa0 and 0xad are not printable, everything
    else is taken as printable (true for the letters / symbols the generators use) -/
def isPrintable (c : Char) : Bool :=
  let n := c.toNat
  if n < 32 then false else if n < 127 then true else if n ≤ 160 then false else if n = 173 then false else true

def escapeChar (quote : Char) (asciiOnly : Bool) (c : Char) : List Char :=
  let n := c.toNat
  if c = quote ∨ c = '\\' then ['\\', c]
  else if c = '\t' then ['\\', 't']
  else if c = '\n' then ['\\', 'n']
  else if c = '\r' then ['\\', 'r']
  else if n < 32 ∨ n = 127 then '\\' :: 'x' :: hexPad 2 n
  else if n < 127 then [c]
  else if !asciiOnly && isPrintable c then [c]
  else if n < 256 then '\\' :: 'x' :: hexPad 2 n
  else if n < 65536 then '\\' :: 'u' :: hexPad 4 n
  else '\\' :: 'U' :: hexPad 8 n

def pyRepr (asciiOnly : Bool) (s : List Char) : List Char :=
  let quote : Char := if s.contains '\'' && !s.contains '"' then '"' else '\''
  quote :: (s.flatMap (escapeChar quote asciiOnly) ++ [quote])

/-- `Formatter.convert_field` applied to a str -/
def convert (conv : Option Char) (s : List Char) : Except Err (List Char) :=
  match conv with
  | none => .ok s
  | some c =>
    if c = 's' then .ok s
    else if c = 'r' then .ok (pyRepr false s)
    else if c = 'a' then .ok (pyRepr true s)
    else .error .conversion

def isAlign (c : Char) : Bool := c = '<' || c = '>' || c = '=' || c = '^'

def digitOf (c : Char) : Option Nat := if '0' ≤ c ∧ c ≤ '9' then some (c.toNat - 48) else none

/-- leading decimal digits: (value if any digit, rest) -/
def takeNat : List Char → Option Nat → Option Nat × List Char
  | [], acc => (acc, [])
  | c :: cs, acc =>
    match digitOf c with
    | some d => takeNat cs (some (acc.getD 0 * 10 + d))
    | none => (acc, c :: cs)

structure Spec where
  fill : Char
  align : Option Char
  width : Option Nat
  precision : Option Nat
deriving Repr, DecidableEq

/-- `PY_SSIZE_T_MAX` on the 64-bit builds the check runs on -/
def ssizeMax : Nat := 9223372036854775807

/-- `parse_internal_render_format_spec` + the checks of `format_string_internal` for a `str` argument:
    `[[fill]align][sign][z][#][0][width][,|_][.precision][type]`; sign, `z`, `#`, grouping, `=` alignment and any
    type other than `s` are errors for strings. -/
def parseSpec (cs : List Char) : Except Err Spec :=
  -- fill / align
  let (fill?, align?, cs) : Option Char × Option Char × List Char :=
    match cs with
    | f :: a :: rest =>
      if isAlign a then (some f, some a, rest)
      else if isAlign f then (none, some f, a :: rest)
      else (none, none, cs)
    | [a] => if isAlign a then (none, some a, []) else (none, none, cs)
    | [] => (none, none, cs)
  -- sign, z, # : not allowed for strings
  match cs with
  | '+' :: _ => .error .spec
  | '-' :: _ => .error .spec
  | ' ' :: _ => .error .spec
  | 'z' :: _ => .error .spec
  | '#' :: _ => .error .spec
  | _ =>
    -- the 0 flag
    let (fill, cs) : Char × List Char :=
      match fill?, cs with
      | none, '0' :: rest => ('0', rest)
      | none, _ => (' ', cs)
      | some f, _ => (f, cs)
    let (width, cs) := takeNat cs none
    match cs with
    | ',' :: _ => .error .spec
    | '_' :: _ => .error .spec
    | _ =>
      let precR : Except Err (Option Nat × List Char) :=
        match cs with
        | '.' :: rest =>
          match takeNat rest none with
          | (some p, rest') => .ok (some p, rest')
          | (none, _) => .error .spec
        | _ => .ok (none, cs)
      match precR with
      | .error e => .error e
      | .ok (prec, cs) =>
        let tyOk : Bool := match cs with | [] => true | [t] => t = 's' | _ => false
        -- `get_integer`: a width / precision past PY_SSIZE_T_MAX is 'Too many decimal digits in format string'
        if width.getD 0 > ssizeMax || prec.getD 0 > ssizeMax then .error .spec
        else if !tyOk then .error .spec
        else if align? = some '=' then .error .spec
        else .ok ⟨fill, align?, width, prec⟩

/-- declared bound of the model: a width above it is answered with `tooWide` instead of materialising the padding.
    With nested spec fields the width is FRAME DATA (`{x:{n}}`); the real formatter has no bound short of memory. -/
def maxWidth : Nat := 1000000

/-- `format(s, spec)` for a str -/
def formatStr (s : List Char) (spec : List Char) : Except Err (List Char) :=
  if spec.isEmpty then .ok s else
  match parseSpec spec with
  | .error e => .error e
  | .ok sp =>
    if sp.width.getD 0 > maxWidth then .error .tooWide else
    let s := match sp.precision with | some p => s.take p | none => s
    let pad := (sp.width.getD 0) - s.length
    let left := match sp.align with
      | some '>' => pad
      | some '^' => pad / 2
      | _ => 0
    .ok (List.replicate left sp.fill ++ s ++ List.replicate (pad - left) sp.fill)

/-! ### rendering -/

def isDigits (cs : List Char) : Bool := !cs.isEmpty && cs.all (fun c => (digitOf c).isSome)

/-- the expression a field stands for under automatic numbering, and the numbering state after it
    (`none` = manual numbering in force, Python's `auto_arg_index = False`) -/
def fieldExpr (auto : Option Nat) (nm : List Char) : Except Err (List Char × Option Nat) :=
  if nm.isEmpty then
    match auto with
    | none => .error .numbering
    | some n => .ok ((toString n).toList, some (n + 1))
  else if isDigits nm then
    match auto with
    | some (_ + 1) => .error .numbering
    | _ => .ok (nm, none)
  else .ok (nm, auto)

/-- text of one field: log string of the expression's outcome (value text or error text), converted, formatted -/
def fieldText (ev : String → Outcome) (expr : List Char) (conv : Option Char) (spec : List Char) :
    Except Err (List Char) :=
  if !noBrace spec then .error .unsupported else
  match convert conv (ev (String.ofList expr)).text.toList with
  | .error e => .error e
  | .ok t => formatStr t spec

/-- `_vformat` over the parsed segments: pieces of the message and the LOG watch expressions, in order -/
def renderSegs (ev : String → Outcome) : Option Nat → List Seg → Except Err (List (List Char) × List String)
  | _, [] => .ok ([], [])
  | auto, .lit s :: rest =>
    match renderSegs ev auto rest with
    | .ok (ps, ws) => .ok (s :: ps, ws)
    | .error e => .error e
  | auto, .field nm cv sp :: rest =>
    match fieldExpr auto nm with
    | .error e => .error e
    | .ok (expr, auto') =>
      match fieldText ev expr cv sp with
      | .error e => .error e
      | .ok t =>
        match renderSegs ev auto' rest with
        | .ok (ps, ws) => .ok (t :: ps, String.ofList expr :: ws)
        | .error e => .error e

structure Rendered where
  msg : String
  watches : List String      -- expressions of the LOG watches, in order
deriving Repr, DecidableEq

def renderParsed (ev : String → Outcome) (segs : List Seg) : Except Err Rendered :=
  match renderSegs ev (some 0) segs with
  | .ok (ps, ws) => .ok ⟨logPrefix ++ String.ofList ps.flatten ++ logSuffix, ws⟩
  | .error e => .error e

/-! ### replacement fields inside a format spec (`{x:{w}}`)

  `Formatter._vformat(format_string, …, recursion_depth, auto_arg_index)`: after a field's object has been fetched and
  converted, its format spec is itself formatted with `_vformat(spec, …, recursion_depth - 1, auto_arg_index)` — the
  spec's own fields go through the agent's `get_field` too (each is one more LOG watch, evaluated AFTER the field they
  belong to), the automatic numbering runs on through the spec, and `_vformat` entered with a negative depth raises
  (`vformat` starts at depth 2: fields in the template and in the spec of such a field are fine, a field one level
  deeper raises — whatever its own spec is). -/

def plainSpecs (segs : List Seg) : Bool :=
  segs.all (fun s => match s with | .lit _ => true | .field _ _ sp => noBrace sp)

/-- one level of `_vformat` over parsed segments; `specR` formats a spec one level down:
    (text, watches, numbering state) -/
def renderWith (ev : String → Outcome)
    (specR : Option Nat → List Char → Except Err (List Char × List String × Option Nat)) :
    Option Nat → List Seg → Except Err (List Char × List String × Option Nat)
  | auto, [] => .ok ([], [], auto)
  | auto, .lit s :: rest =>
    match renderWith ev specR auto rest with
    | .ok (t, ws, a) => .ok (s ++ t, ws, a)
    | .error e => .error e
  | auto, .field nm cv sp :: rest =>
    match fieldExpr auto nm with
    | .error e => .error e
    | .ok (expr, auto1) =>
      match convert cv (ev (String.ofList expr)).text.toList with
      | .error e => .error e
      | .ok obj =>
        match specR auto1 sp with
        | .error e => .error e
        | .ok (spec, wsSpec, auto2) =>
          match formatStr obj spec with
          | .error e => .error e
          | .ok t =>
            match renderWith ev specR auto2 rest with
            | .ok (t', ws, a) => .ok (t ++ t', String.ofList expr :: (wsSpec ++ ws), a)
            | .error e => .error e

/-- `_vformat(text, …, recursion_depth = lvl - 1, auto)` -/
def renderLvl (ev : String → Outcome) : Nat → Option Nat → List Char → Except Err (List Char × List String × Option Nat)
  | 0, _, _ => .error .recursion
  | lvl + 1, auto, cs =>
    match parseChars cs with
    | .error e => .error e
    | .ok segs => renderWith ev (renderLvl ev lvl) auto segs

/-- `vformat` on parsed segments (`recursion_depth = 2`) -/
def renderNested (ev : String → Outcome) (segs : List Seg) : Except Err Rendered :=
  match renderWith ev (renderLvl ev 2) (some 0) segs with
  | .ok (t, ws, _) => .ok ⟨logPrefix ++ String.ofList t ++ logSuffix, ws⟩
  | .error e => .error e

/-- `LogActionContext.process_log(template)`: templates whose format specs carry no braces go through the flat
    renderer (the theorems of C16 are about it), the others through the nested one -/
def renderChars (ev : String → Outcome) (tpl : List Char) : Except Err Rendered :=
  match parseChars tpl with
  | .ok segs => if plainSpecs segs then renderParsed ev segs else renderNested ev segs
  | .error e => .error e

def render (ev : String → Outcome) (tpl : String) : Except Err Rendered := renderChars ev tpl.toList

/-! ### collection limits -/

/-- the text `eval_watch` hands back for a field, given whether the snapshot's variable budget was already spent
    when the field was evaluated (sources extracted from `ActionContext.eval_watch`) -/
def watchText (budgetSpent : Bool) (o : Outcome) : String :=
  match (if budgetSpent then watchTextOnLimit else watchTextOnValue) with
  | .logStr => o.text
  | .errorText => watchLimitText

/-- rendering on a collecting tracepoint on which the fields in `spent` find the variable budget used up -/
def renderUnderBudget (spent : String → Bool) (ev : String → Outcome) (tpl : String) : Except Err Rendered :=
  render (fun e => { ev e with text := watchText (spent e) (ev e) }) tpl

/-! ### what leaves the agent -/

/-- value handed to one parameter of the tracepoint logger -/
def logArgValue (msg tp ctx : String) : LogArg → String
  | .msg => msg | .tpId => tp | .ctxId => ctx

/-- `LogActionResult.process`: the logger's parameters (by meaning) paired with the values they receive -/
def loggerReceives (msg tp ctx : String) : List (LogArg × String) :=
  logSignature.zip (logCallArgs.map (logArgValue msg tp ctx))

/-- a log tracepoint at one permitted hit.  `collect` = the snapshot action carries the log message
    (snapshot + log) — then the snapshot records the message and one LOG watch per field. -/
structure LogEffect where
  logger : List (List (LogArg × String))     -- calls of the tracepoint logger
  snapLog : Option String                    -- snapshot.log_msg (none = no snapshot)
  snapWatches : List String                  -- expressions of the snapshot's LOG-source watches
  snapshots : Nat                            -- snapshots pushed
deriving Repr, DecidableEq

/-- `process_log` as the actions see it: the rendered message and watch expressions, or none when the formatter raised -/
def procLog (ev : String → Outcome) (tpl : String) : Option ProcLog :=
  match render ev tpl with
  | .ok r => some ⟨r.msg, r.watches⟩
  | .error _ => none

/-- does `LogActionResult.process` find a logger to call (test extracted from the source) -/
def loggerFoundBy (t : LoggerTest) (lg : LoggerObj) : Bool :=
  match lg with
  | .absent => false
  | .plain => true
  | .falsy => (match t with | .truthy => false | .notNone => true)

def loggerFound (lg : LoggerObj) : Bool := loggerFoundBy loggerTest lg

/-- `LogActionResult.process`: the logger calls made for one attached result -/
def logResultProcess (lg : LoggerObj) (tp ctx : String) (msg : String) : List (List (LogArg × String)) :=
  if loggerFound lg then [loggerReceives msg tp ctx] else []

/-- a log tracepoint at one permitted hit, composed from the written-out source shapes
    (`Extracted.Expr.logActionAttach`, `snapshotLogBranch`) and `LogActionResult.process` -/
def logActionWith (lg : LoggerObj) (ev : String → Outcome) (tpl : String) (tp ctx : String) (collect : Bool) : LogEffect :=
  if collect then
    match snapshotLogBranch (some tpl) (procLog ev) with
    | none => ⟨[], none, [], 0⟩          -- the formatter raised inside _process_action: the snapshot is lost too
    | some (lm, ws, attached) => ⟨attached.flatMap (logResultProcess lg tp ctx), lm, ws, 1⟩
  else
    ⟨(logActionAttach (procLog ev tpl)).flatMap (logResultProcess lg tp ctx), none, [], 0⟩

def logAction (ev : String → Outcome) (tpl : String) (tp ctx : String) (collect : Bool) : LogEffect :=
  logActionWith .plain ev tpl tp ctx collect

/-! ### several tracepoints on one event: the results they attach, and `TriggerContext.__exit__` -/

/-- what a tracepoint of the event does: snapshot only, log only, snapshot carrying a log message -/
inductive TpKind | snap | log | snapLog
deriving DecidableEq, Repr

/-- an attached result: the log message for the logger, or the snapshot for the push service -/
inductive ResKind | logMsg | push
deriving DecidableEq, Repr

/-- results attached by the actions of the event, in processing order, tagged with the tracepoint's position
    (a snapshot action with a log message attaches its LogActionResult before its snapshot result) -/
def resultsOf : Nat → List TpKind → List (Nat × ResKind)
  | _, [] => []
  | i, .snap :: r => (i, .push) :: resultsOf (i + 1) r
  | i, .log :: r => (i, .logMsg) :: resultsOf (i + 1) r
  | i, .snapLog :: r => (i, .logMsg) :: (i, .push) :: resultsOf (i + 1) r

/-- `TriggerContext.__exit__`: process the results in order; `fails r` = processing `r` raises an Exception
    (push refused, logger raising).  Returns the results that were processed to the end. -/
def resultLoop (guard : Option Py.Exn) (fails : Nat × ResKind → Bool) : List (Nat × ResKind) → List (Nat × ResKind)
  | [] => []
  | r :: rs =>
    if fails r then (if guard.isSome then resultLoop guard fails rs else [])
    else r :: resultLoop guard fails rs

def delivered (tps : List TpKind) (fails : Nat × ResKind → Bool) : List (Nat × ResKind) :=
  resultLoop resultLoopGuard fails (resultsOf 0 tps)

end Template
