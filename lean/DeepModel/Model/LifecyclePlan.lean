/-
  Model/LifecyclePlan — `Deep.start` / `Deep.shutdown` run from their TRANSLATED statement lists (C14).

  `Extracted.DeepLC.startPlan / shutdownPlan` are the two method bodies, one `LStmt` per source statement, regenerated
  from /repo on every run (harness/extract/guards.py `deep_plan`).  `execPlan` below is the (hand-written, generic)
  interpreter of such lists; `startX` / `shutdownX` are the two methods as the source has them NOW.  Props/C14 proves
  that they are equal to the hand-written specification machine `Lifecycle.start` / `Lifecycle.shutdown` for every
  state and fault assignment (`c14_start_translated`, `c14_shutdown_translated`), so every C14 theorem about histories
  holds of the translated methods — and dropping, adding or moving a statement of either method (a shutdown step, the
  `started` test, `trigger_handler.start()`, the place where a flag is set) breaks a proof obligation.
  Hand-written here: what each service call does to the model state (`primStep`: `trigger_handler.start()` is the
  translated `thStart`, `poll.start()` makes the timer thread alive, the others do not touch the modelled state) and
  what each entry of `steps` is (`Lifecycle.runStep`); both are compared with the real `Deep` by the driver.
  A service call of `start` that RAISES (`StartFaults`) ends the method there — the statements already executed keep
  their effect (see `c14_failed_start_witness`).
-/
import DeepModel.Model.Lifecycle

namespace Lifecycle
open Extracted.TH

def Fld.get (d : Deep) : Fld → Bool
  | .started => d.started
  | .everShut => d.everShut

def Fld.put (d : Deep) (v : Bool) : Fld → Deep
  | .started => { d with started := v }
  | .everShut => { d with everShut := v }

/-- which service calls of `Deep.start` raise (logging never does) -/
abbrev StartFaults := Prim → Bool

def noStartFaults : StartFaults := fun _ => false

/-- the effect of a service call on the modelled state -/
def primStep (d : Deep) : Prim → Deep
  | .thStart => { d with w := thStart d.noTrace d.w }
  | .pollStart => { d with pollAlive := true }
  | _ => d

def stepsOf (d : Deep) : List StepRef → List Step
  | [] => []
  | .thShutdown :: r => .thShutdown :: stepsOf d r
  | .flush :: r => .flush :: stepsOf d r
  | .pollShutdown :: r => .pollShutdown :: stepsOf d r
  | .plugins :: r => d.plugins.map .plugin ++ stepsOf d r

/-- `for step in steps: try: step() except C: log`: with `except BaseException` nothing leaves the loop; with
    `except Exception` a step failing with a `BaseException`-class error ends it. -/
def runLoop (catchAll : Bool) (f : Faults) : List Step → Deep → Deep × Bool
  | [], d => (d, false)
  | s :: rest, d =>
    let (d', raised) := runStep f d s
    if raised && !(catchAll || !f.pluginBase) then (d', true) else runLoop catchAll f rest d'

/-- run a statement list: new state, and whether an exception leaves the method -/
def execPlan (sf : StartFaults) (f : Faults) : List LStmt → Deep → Deep × Bool
  | [], d => (d, false)
  | .retIf fld neg _ :: rest, d => if (fld.get d != neg) then (d, false) else execPlan sf f rest d
  | .set fld v :: rest, d => execPlan sf f rest (fld.put d v)
  | .prim p :: rest, d => if p != .log && sf p then (d, true) else execPlan sf f rest (primStep d p)
  | .stepsLoop refs catchAll :: rest, d =>
    let r := runLoop catchAll f (stepsOf d refs) d
    if r.2 then r else execPlan sf f rest r.1
  | .opaque _ :: _, d => (d, true)

/-- `Deep.start` as translated, when the service calls in `sf` raise -/
def startF (sf : StartFaults) (d : Deep) : Deep × Bool := execPlan sf default Extracted.DeepLC.startPlan d
/-- `Deep.start` as translated (no service call fails: the quantifier of C14 has no failing start steps) -/
def startX (d : Deep) : Deep := (startF noStartFaults d).1
/-- `Deep.shutdown` as translated -/
def shutdownX (f : Faults) (d : Deep) : Deep × Bool := execPlan noStartFaults f Extracted.DeepLC.shutdownPlan d

/-- histories over the translated methods -/
def stepX (d : Deep) : Op → Deep
  | .start => startX d
  | .shutdown f => (shutdownX f d).1
  | op => step d op

def runX (ops : List Op) (d : Deep) : Deep := ops.foldl stepX d

end Lifecycle
