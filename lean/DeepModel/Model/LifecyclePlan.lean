/-
  Model/LifecyclePlan — `Deep.start` / `Deep.shutdown` run from their TRANSLATED statement lists (C14).

  `Extracted.DeepLC.startPlan / shutdownPlan` are the two method bodies, one `LStmt` per source statement, regenerated
  from /repo on every run (harness/extract/guards.py `deep_plan`).  `execPlan` below is the (hand-written, generic)
  interpreter of such lists; `startX` / `shutdownX` are the two methods as the source has them NOW.  Props/C14 proves
  that they are equal to the hand-written specification machine `Lifecycle.start` / `Lifecycle.shutdown` for every
  state and fault assignment (`c14_start_translated`, `c14_shutdown_translated`), so every C14 theorem about histories
  holds of the translated methods.  The STATE refinement alone sees only statements that touch the modelled state (the
  two flags, `trigger_handler.start()`, `poll.start()`, the shutdown steps); the TRACE refinement (`c14_start_trace`,
  `c14_shutdown_trace`: `tracePlan` = the specified call order) sees every statement and its position, so dropping,
  adding or moving any statement of either method breaks a proof obligation.  `steps` is built outside the per-step
  `try`: reading a plugin's `shutdown` attribute can fail (`Faults.attrUnreadable`), then `shutdownX` raises before any
  step — the shutdown refinement is therefore `_partial` (hypothesis `Readable`), with a witness.
  Hand-written here: what each service call does to the model state (`primStep`: `trigger_handler.start()` is the
  translated `thStart`, `poll.start()` makes the timer thread alive, the others do not touch the modelled state) and
  what each entry of `steps` is (`Lifecycle.runStep`); both are compared with the real `Deep` by the driver.
  A service call of `start` that RAISES (`StartFaults`) ends the method there — the statements already executed keep
  their effect (see `c14_failed_start_witness`).
-/
import DeepModel.Model.Lifecycle

namespace Lifecycle
open Extracted.TH

def Fld.get (d : Deep) : Fld → Bool
  | .started => d.started
  | .everShut => d.everShut

def Fld.put (d : Deep) (v : Bool) : Fld → Deep
  | .started => { d with started := v }
  | .everShut => { d with everShut := v }

/-- which service calls of `Deep.start` raise (logging never does) -/
abbrev StartFaults := Prim → Bool

def noStartFaults : StartFaults := fun _ => false

/-- the effect of a service call on the modelled state -/
def primStep (d : Deep) : Prim → Deep
  | .thStart => { d with w := thStart d.noTrace d.w }
  | .pollStart => { d with pollAlive := true }
  | _ => d

def stepsOf (d : Deep) : List StepRef → List Step
  | [] => []
  | .thShutdown :: r => .thShutdown :: stepsOf d r
  | .flush :: r => .flush :: stepsOf d r
  | .pollShutdown :: r => .pollShutdown :: stepsOf d r
  | .plugins :: r => d.plugins.map .plugin ++ stepsOf d r

/-- building `steps` reads `plugin.shutdown` of every loaded plugin, outside any `try` -/
def buildFails (f : Faults) (d : Deep) (refs : List StepRef) : Bool :=
  refs.contains .plugins && d.plugins.any f.attrUnreadable

/-- `for step in steps: try: step() except C: log`: with `except BaseException` nothing leaves the loop; with
    `except Exception` a step failing with a `BaseException`-class error ends it. -/
def runLoop (catchAll : Bool) (f : Faults) : List Step → Deep → Deep × Bool
  | [], d => (d, false)
  | s :: rest, d =>
    let (d', raised) := runStep f d s
    if raised && !(catchAll || !f.pluginBase) then (d', true) else runLoop catchAll f rest d'

/-- run a statement list: new state, and whether an exception leaves the method -/
def execPlan (sf : StartFaults) (f : Faults) : List LStmt → Deep → Deep × Bool
  | [], d => (d, false)
  | .retIf fld neg _ :: rest, d => if (fld.get d != neg) then (d, false) else execPlan sf f rest d
  | .set fld v :: rest, d => execPlan sf f rest (fld.put d v)
  | .prim p :: rest, d => if p != .log && sf p then (d, true) else execPlan sf f rest (primStep d p)
  | .stepsLoop refs catchAll :: rest, d =>
    -- building the list (`steps += [plugin.shutdown for plugin in self.config.plugins]`) happens BEFORE the loop and
    -- outside its `try`: reading the `shutdown` attribute of a plugin can fail, then the method raises here
    if buildFails f d refs then (d, true) else
    let r := runLoop catchAll f (stepsOf d refs) d
    if r.2 then r else execPlan sf f rest r.1
  | .opaque _ :: _, d => (d, true)

/-! ### the effect trace: every statement in the order it is executed

  Final-state equality cannot see a dropped call that does not touch the modelled state, nor a moved one.  `tracePlan`
  lists what `execPlan` does, statement by statement: every service call (also the five whose effect is outside the
  modelled state), every flag assignment, every shutdown step attempted, every early return / raise. -/

inductive PEv where
  | prim (p : Prim)
  | set (f : Fld) (v : Bool)
  | step (s : Step)
  | ret                       -- early `return`
  | raised                    -- the method raises here
deriving DecidableEq, Repr

/-- the steps the loop attempts: all of them when isolated, up to the first escaping failure otherwise -/
def loopTrace (catchAll : Bool) (f : Faults) : List Step → Deep → List PEv
  | [], _ => []
  | s :: rest, d =>
    let (d', raised) := runStep f d s
    if raised && !(catchAll || !f.pluginBase) then [.step s, .raised] else .step s :: loopTrace catchAll f rest d'

def tracePlan (sf : StartFaults) (f : Faults) : List LStmt → Deep → List PEv
  | [], _ => []
  | .retIf fld neg pre :: rest, d =>
    if (fld.get d != neg) then pre.map .prim ++ [.ret] else tracePlan sf f rest d
  | .set fld v :: rest, d => .set fld v :: tracePlan sf f rest (fld.put d v)
  | .prim p :: rest, d => if p != .log && sf p then [.prim p, .raised] else .prim p :: tracePlan sf f rest (primStep d p)
  | .stepsLoop refs catchAll :: rest, d =>
    if buildFails f d refs then [.raised] else
    let r := runLoop catchAll f (stepsOf d refs) d
    loopTrace catchAll f (stepsOf d refs) d ++ (if r.2 then [] else tracePlan sf f rest r.1)
  | .opaque _ :: _, _ => [.raised]

/-- `Deep.start` as translated, when the service calls in `sf` raise -/
def startF (sf : StartFaults) (d : Deep) : Deep × Bool := execPlan sf default Extracted.DeepLC.startPlan d
/-- `Deep.start` as translated (no service call fails: the quantifier of C14 has no failing start steps) -/
def startX (d : Deep) : Deep := (startF noStartFaults d).1
/-- `Deep.shutdown` as translated -/
def shutdownX (f : Faults) (d : Deep) : Deep × Bool := execPlan noStartFaults f Extracted.DeepLC.shutdownPlan d

/-- what `Deep.start` does, in order -/
def startTrace (sf : StartFaults) (d : Deep) : List PEv := tracePlan sf default Extracted.DeepLC.startPlan d
/-- what `Deep.shutdown` does, in order -/
def shutdownTrace (f : Faults) (d : Deep) : List PEv := tracePlan noStartFaults f Extracted.DeepLC.shutdownPlan d

/-- SPECIFICATION of the call order of `Deep.start` (hand-written from the statement's reading of the method): nothing
    when started; a warning when shut down before; otherwise plugins, resource, providers, resource stored, hooks,
    connection, polling, and only then `started = True`. -/
def startSpecTrace (d : Deep) : List PEv :=
  if d.started then [.ret] else
  if d.everShut then [.prim .log, .ret] else
  [.prim .loadPlugins, .prim .resourceCreate, .prim .providers, .prim .setResource, .prim .thStart, .prim .grpcStart,
   .prim .pollStart, .set .started true]

/-- SPECIFICATION of the order of `Deep.shutdown` when every plugin's `shutdown` can be read: marked shut down first,
    then the hooks, the drain, the poll timer, every plugin in load order — each attempted whatever failed before —,
    and only then `started = False`. -/
def shutdownSpecTrace (d : Deep) : List PEv :=
  if !d.started then [.ret] else
  [.set .everShut true, .step .thShutdown, .step .flush, .step .pollShutdown] ++ d.plugins.map (fun p => .step (.plugin p)) ++
  [.prim .log, .set .started false]

/-- every plugin's `shutdown` attribute can be read (hypothesis of the shutdown refinement; false ⇒ known finding
    `C14/plugin-shutdown-attribute-unreadable`) -/
def Readable (f : Faults) (d : Deep) : Prop := d.plugins.any f.attrUnreadable = false

/-- histories over the translated methods -/
def stepX (d : Deep) : Op → Deep
  | .start => startX d
  | .shutdown f => (shutdownX f d).1
  | op => step d op

def runX (ops : List Op) (d : Deep) : Deep := ops.foldl stepX d

end Lifecycle
