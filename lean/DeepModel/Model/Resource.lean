/-
  Model/Resource — `Resource`, `Resource.merge`, `Resource.create`, the environment detector and the plugin fold
  of `Deep.start` (C18).

  From the source (Extracted/Attributes.lean, regenerated every run): the schema rule `mergeSchema`, the fallback
  service name `defaultServiceName`, the default resource, the order of the sources in `create`, the attribute and
  environment names; the attribute container is the translated `BoundedAttributes` code (`Attributes.create`).
  Hand-written glue (shape-checked by the extractor, validated by the correspondence run):
  `Resource.__init__` (attributes go through an immutable `BoundedAttributes` without limits, `None` schema = ""),
  the copy/update/construct frame of `merge`, the frame of `create`, `DeepResourceDetector.detect`.

  Modelled, not verified: `str.split`, `str.strip` (ASCII white space), `urllib.parse.unquote` for `%XX` escapes
  below 0x80 (other escapes are outside the model: the generators mark such cases and they are judged by the oracle
  only); `dict.update`.
-/
import DeepModel.Model.Attributes

namespace Resource
open Attr Extracted.Attributes Attributes

structure Res where
  attrs : OD
  schemaUrl : String
deriving Repr, DecidableEq

/-- `Resource(attributes, schema_url)` -/
def Res.new (attributes : List (Key × Val)) (schemaUrl : Option String) : Res :=
  ⟨(create none none attributes true).dict, schemaUrl.getD ""⟩

def Res.get (r : Res) (k : String) : Option Val := OD.get r.attrs (Key.str k)

def Res.has (r : Res) (k : String) : Bool := OD.contains r.attrs (Key.str k)

/-- `a.merge(b)` -/
def Res.merge (a b : Res) : Res :=
  match mergeSchema a.schemaUrl b.schemaUrl with
  | none => a
  | some u => Res.new (OD.update a.attrs b.attrs) (some u)

def strAttrs (kvs : List (String × String)) : List (Key × Val) :=
  kvs.map (fun kv => (Key.str kv.1, Val.sc (.str kv.2)))

/-- `_DEFAULT_RESOURCE` -/
def defaultRes : Res := Res.new (strAttrs defaultResource) none

/-! ### DeepResourceDetector.detect -/

def splitOn (c : Char) : List Char → List (List Char)
  | [] => [[]]
  | x :: xs =>
    if x == c then [] :: splitOn c xs
    else match splitOn c xs with
      | [] => [[x]]
      | p :: ps => (x :: p) :: ps

/-- `item.split("=", maxsplit=1)`; `none` = no "=" (unpacking fails with ValueError) -/
def splitFirst (c : Char) : List Char → Option (List Char × List Char)
  | [] => none
  | x :: xs =>
    if x == c then some ([], xs)
    else (splitFirst c xs).map (fun p => (x :: p.1, p.2))

def hexVal (c : Char) : Option Nat :=
  if '0' ≤ c ∧ c ≤ '9' then some (c.toNat - '0'.toNat)
  else if 'a' ≤ c ∧ c ≤ 'f' then some (c.toNat - 'a'.toNat + 10)
  else if 'A' ≤ c ∧ c ≤ 'F' then some (c.toNat - 'A'.toNat + 10)
  else none

/-- `urllib.parse.unquote` for escapes below 0x80; anything else is kept as written. -/
def unquote : List Char → List Char
  | [] => []
  | [c] => [c]
  | [c, d] => [c, d]
  | c :: a :: b :: rest =>
    if c == '%' then
      match hexVal a, hexVal b with
      | some x, some y => if x * 16 + y < 128 then Char.ofNat (x * 16 + y) :: unquote rest
                          else c :: unquote (a :: b :: rest)
      | _, _ => c :: unquote (a :: b :: rest)
    else c :: unquote (a :: b :: rest)
termination_by l => l.length

def stripS (s : List Char) : String := Py.strip (String.ofList s)

def detectItems (items : List (List Char)) (acc : OD) : OD :=
  match items with
  | [] => acc
  | item :: rest =>
    match splitFirst '=' item with
    | none => detectItems rest acc
    | some (k, v) =>
      detectItems rest (OD.set acc (Key.str (stripS k)) (Val.sc (.str (String.ofList (unquote (stripS v).toList)))))

/-- the attribute map the detector builds from the two environment variables (before `Resource(...)` cleans it) -/
def detect (resAttrs : Option String) (svcName : Option String) : List (Key × Val) :=
  let m := match resAttrs with
    | none => []
    | some s => if s == "" then [] else detectItems (splitOn ',' s.toList) []
  match svcName with
  | none => m
  | some s => if s == "" then m else OD.set m (Key.str serviceNameKey) (Val.sc (.str s))

/-! ### Resource.create and the plugin fold -/

def srcOf (detected given : List (Key × Val)) (url : Option String) : String → Res
  | "default" => defaultRes
  | "detected" => Res.new detected none
  | "given" => Res.new given url
  | _ => Res.new [] none

def mergeChain : List Res → Res
  | [] => Res.new [] none
  | r :: rs => rs.foldl Res.merge r

def truthyAt (r : Res) (k : String) : Bool :=
  match r.get k with
  | some v => v.truthy
  | none => false

def fallbackRes (name : String) (url : Option String) : Res :=
  Res.new [(Key.str serviceNameKey, Val.sc (.str name))] url

def isText : Val → Bool
  | .sc (.str _) => true
  | _ => false

/-- `Resource.create(given, url)` with the detector's map.  `.error` = the TypeError `":" + <non-text>` raises —
    only when the source does not convert the attribute with str() (`fallbackCoercesWithStr`, read from the source). -/
def Res.create (detected given : List (Key × Val)) (url : Option String) : Except String Res :=
  let resource := mergeChain (createChain.map (srcOf detected given url))
  if truthyAt resource serviceNameKey then .ok resource
  else
    match resource.get processExecutableNameKey with
    | some v =>
      if v.truthy && !isText v && !fallbackCoercesWithStr then .error "TypeError"
      else .ok (resource.merge (fallbackRes (defaultServiceName v.truthy v.pyStr) url))
    | none => .ok (resource.merge (fallbackRes (defaultServiceName false "") url))

/-- the resource loop of `Deep.start`: the resources the providers returned, merged in provider order -/
def withPlugins (base : Res) (plugins : List Res) : Res := plugins.foldl Res.merge base

end Resource
