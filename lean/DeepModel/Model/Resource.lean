/-
  Model/Resource — `Resource`, `Resource.merge`, `Resource.create`, the environment detector and the plugin fold
  of `Deep.start` (C18).

  From the source (Extracted/Attributes.lean, regenerated every run): the schema rule `mergeSchema`, the fallback
  service name `defaultServiceName`, the default resource, the order of the sources in `create`, the attribute and
  environment names; the attribute container is the translated `BoundedAttributes` code (`Attributes.create`).
  and — translated statement by statement — `DeepResourceDetector.detect` (`detectEnv`, `detectLoop`).
  Hand-written glue (shape-checked by the extractor, validated by the correspondence run):
  `Resource.__init__` (attributes go through an immutable `BoundedAttributes` without limits, `None` schema = ""),
  the copy/update/construct frame of `merge`, the frame of `create`.

  Modelled, not verified: the text operations of Model/ResEnv.lean (`str.split`, `str.strip` (ASCII white space),
  `urllib.parse.unquote` for `%XX` escapes below 0x80 — other escapes are outside the model: the generators mark such
  cases and they are judged by the oracle only); `dict.update`.
-/
import DeepModel.Model.Attributes

namespace Resource
open Attr Extracted.Attributes Attributes

structure Res where
  attrs : OD
  schemaUrl : String
deriving Repr, DecidableEq

/-- `Resource(attributes, schema_url)` -/
def Res.new (attributes : List (Key × Val)) (schemaUrl : Option String) : Res :=
  ⟨(create none none attributes true).dict, schemaUrl.getD ""⟩

def Res.get (r : Res) (k : String) : Option Val := OD.get r.attrs (Key.str k)

def Res.has (r : Res) (k : String) : Bool := OD.contains r.attrs (Key.str k)

/-- `a.merge(b)` -/
def Res.merge (a b : Res) : Res :=
  match mergeSchema a.schemaUrl b.schemaUrl with
  | none => a
  | some u => Res.new (OD.update a.attrs b.attrs) (some u)

def strAttrs (kvs : List (String × String)) : List (Key × Val) :=
  kvs.map (fun kv => (Key.str kv.1, Val.sc (.str kv.2)))

/-- `_DEFAULT_RESOURCE` -/
def defaultRes : Res := Res.new (strAttrs defaultResource) none

/-! ### DeepResourceDetector.detect -/

/-- the attribute map the detector builds from the two environment variables (before `Resource(...)` cleans it):
    the TRANSLATED body of `DeepResourceDetector.detect` (`Extracted.Attributes.detectEnv`, vocabulary in
    Model/ResEnv.lean) -/
def detect (resAttrs : Option String) (svcName : Option String) : List (Key × Val) := detectEnv resAttrs svcName

/-! ### Resource.create and the plugin fold -/

def srcOf (detected given : List (Key × Val)) (url : Option String) : String → Res
  | "default" => defaultRes
  | "detected" => Res.new detected none
  | "given" => Res.new given url
  | _ => Res.new [] none

def mergeChain : List Res → Res
  | [] => Res.new [] none
  | r :: rs => rs.foldl Res.merge r

def truthyAt (r : Res) (k : String) : Bool :=
  match r.get k with
  | some v => v.truthy
  | none => false

def fallbackRes (name : String) (url : Option String) : Res :=
  Res.new [(Key.str serviceNameKey, Val.sc (.str name))] url

def isText : Val → Bool
  | .sc (.str _) => true
  | _ => false

/-- `Resource.create(given, url)` with the detector's map.  `.error` = the TypeError `":" + <non-text>` raises —
    only when the source does not convert the attribute with str() (`fallbackCoercesWithStr`, read from the source). -/
def Res.create (detected given : List (Key × Val)) (url : Option String) : Except String Res :=
  let resource := mergeChain (createChain.map (srcOf detected given url))
  if truthyAt resource serviceNameKey then .ok resource
  else
    match resource.get processExecutableNameKey with
    | some v =>
      if v.truthy && !isText v && !fallbackCoercesWithStr then .error "TypeError"
      else .ok (resource.merge (fallbackRes (defaultServiceName v.truthy v.pyStr) url))
    | none => .ok (resource.merge (fallbackRes (defaultServiceName false "") url))

/-- the resource loop of `Deep.start`: the resources the providers returned, merged in provider order -/
def withPlugins (base : Res) (plugins : List Res) : Res := plugins.foldl Res.merge base

/-! ### get_aggregated_resources -/

/-- what a detector's `detect()` did: returned a resource, returned something that is not a resource (`None`, a
    dict), or raised an `Exception` (with its `raise_on_error` flag).  NOT representable: `BaseException`s
    (KeyboardInterrupt / SystemExit escape the `except Exception` and meet the `finally` with a stale or unbound
    `detected_resource`), a detector without `raise_on_error`, time-outs — outside the model and the generators. -/
inductive DetOut
  | ok (r : Res)
  | notResource
  | fails (raiseOnError : Bool)

/-- `_EMPTY_RESOURCE` -/
def emptyRes : Res := Res.new [] none

/-- `get_aggregated_resources(detectors, initial)` from the (initial or created) resource `base`: the results are
    merged in detector order; a detector that raised counts as the empty resource — unless it asks for the exception
    to be re-raised (`.error`; the `finally` merge before it is not observable); a result that is not a resource
    makes the `finally` merge raise AttributeError, whatever `raise_on_error` says.  HAND-WRITTEN reading of the loop
    whose text is `Extracted.Attributes.aggregateSource` (futures / thread pool are not modelled: results are consumed
    in list order whatever order they complete in). -/
def aggregate (base : Res) : List DetOut → Except String Res
  | [] => .ok base
  | .ok r :: rest => aggregate (base.merge r) rest
  | .notResource :: _ => .error "AttributeError"
  | .fails false :: rest => aggregate (base.merge emptyRes) rest
  | .fails true :: _ => .error "detector exception"

end Resource
