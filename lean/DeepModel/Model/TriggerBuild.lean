/-
  Model/TriggerBuild — tracepoint configuration → triggers (C11).

  `build_trigger`, the four action builders, `from_stage`, the metric-definition conversion and the location ids are
  NOT written here: they are `Extracted.TriggerTable.*`, translated from the Python source on every run.
  This file adds
    * `Spec.*` — the table the property statement describes, written from the statement with literal texts
      (not with the extracted constants, so a changed constant is a failed proof obligation);
    * `convertResponse` — the loop of `grpc.convert_response` (extractor matches the source against the exact
      template: build, skip `None`, group by `trigger.id` with `merge_actions`, insertion order).
-/
import DeepModel.Extracted.TriggerTable

namespace TriggerBuild
open Extracted.TriggerTable

/-- one tracepoint of a poll response / one registration in code, after metric-definition conversion -/
structure TP where
  id : String
  path : String
  line : Int
  args : Args
  watches : List String
  metrics : List PMetric          -- as received (protobuf getter view); converted per tracepoint
deriving Repr

/-- what converting ONE tracepoint gives: the metric definitions are converted (`MetricType.Name` raises for a type
    number this version does not know), then `build_trigger` (`None` for a stage it cannot interpret) -/
inductive Outcome where
  | raised                        -- an exception left the conversion of this tracepoint
  | uninterpretable               -- build_trigger returned None
  | built (t : Trigger)
deriving Repr

def TP.outcome (tp : TP) : Outcome :=
  match convert_metric_definition tp.metrics with
  | none => .raised
  | some ms =>
    match build_trigger tp.id tp.path tp.line tp.args tp.watches ms with
    | none => .uninterpretable
    | some t => .built t

/-- the trigger of a tracepoint the agent can convert AND interpret -/
def TP.build (tp : TP) : Option Trigger :=
  match tp.outcome with
  | .built t => some t
  | _ => none

/-! ### the documented table -/
namespace Spec

/-- the value of argument `k`, if given -/
def arg (args : Args) (k : String) : Option String := args.lookup k

/-- a snapshot is collected unless collection is switched off -/
def collects (args : Args) : Bool := arg args "snapshot" != some "no_collect"

/-- the stage a tracepoint is placed at: the `stage` argument when given, else the method entry when a method
    is named or a method span is requested, else the line -/
def stageOf (args : Args) : String :=
  match arg args "stage" with
  | some s => s
  | none => if (arg args "method_name").isSome || arg args "span" == some "method" then "method_start"
            else "line_start"

def lineStages : List String := ["line_start", "line_end", "line_capture"]
def methodStages : List String := ["method_start", "method_end", "method_capture"]

def positionOf (stage : String) : Position :=
  if stage = "line_end" ∨ stage = "method_end" then .END
  else if stage = "line_capture" ∨ stage = "method_capture" then .CAPTURE
  else .START

/-- line or named method, as stage / method_name / span say; `none` = the agent cannot interpret the stage -/
def locationOf (path : String) (line : Int) (args : Args) : Option Location :=
  let st := stageOf args
  if st ∈ lineStages then some (.LineLocation path line (positionOf st))
  else if st ∈ methodStages then some (.FunctionLocation path (arg args "method_name") (positionOf st))
  else none

/-- every action carries the tracepoint's own fire count and fire period (defaults 1 and 1000 ms) -/
def limits (args : Args) : List (String × CfgVal) :=
  [("fire_count", .str ((arg args "fire_count").getD "1")),
   ("fire_period", .str ((arg args "fire_period").getD "1000"))]

def snapshotAction (id : String) (args : Args) (watches : List String) : LocationAction :=
  { id := id, condition := arg args "condition", action_type := .Snapshot,
    config := [("watches", .strs watches),
               ("frame_type", .str ((arg args "frame_type").getD "single_frame")),
               ("stack_type", .str ((arg args "stack_type").getD "stack"))]
              ++ limits args ++ [("log_msg", CfgVal.ofOpt (arg args "log_msg"))] }

def logAction (id : String) (args : Args) (msg : String) : LocationAction :=
  { id := id, condition := arg args "condition", action_type := .Log,
    config := ("log_msg", .str msg) :: limits args }

def metricAction (id : String) (args : Args) (metrics : List MetricDefinition) : LocationAction :=
  { id := id, condition := arg args "condition", action_type := .Metric,
    config := ("metrics", .metrics metrics) :: limits args }

def spanAction (id : String) (args : Args) (kind : String) : LocationAction :=
  { id := id, condition := arg args "condition", action_type := .Span,
    config := ("span", .str kind) :: limits args }

/-- exactly the actions the arguments ask for: a snapshot unless collection is switched off (the log message then
    travels inside the snapshot action), a log action when a message is given and nothing is collected, one metric
    action carrying all definitions iff there are any, a span iff one is requested. -/
def actionsOf (id : String) (args : Args) (watches : List String) (metrics : List MetricDefinition) :
    List LocationAction :=
  (if collects args then [snapshotAction id args watches] else [])
  ++ (match arg args "log_msg" with
      | some msg => if collects args then [] else [logAction id args msg]
      | none => [])
  ++ (if metrics.isEmpty then [] else [metricAction id args metrics])
  ++ (match arg args "span" with
      | some kind => [spanAction id args kind]
      | none => [])

def trigger (id path : String) (line : Int) (args : Args) (watches : List String)
    (metrics : List MetricDefinition) : Option Trigger :=
  (locationOf path line args).map (fun l => { location := l, actions := actionsOf id args watches metrics })

/-- metric definitions arrive unchanged: name, type name, labels (static value or expression), expression,
    namespace, help, unit; a type number outside the four documented ones cannot be converted (`none`) -/
def metricDef (m : PMetric) : Option MetricDefinition :=
  (["COUNTER", "GAUGE", "HISTOGRAM", "SUMMARY"][m.type]?).map fun tyName =>
  { name := m.name, type := tyName,
    labels := m.labelExpressions.map (fun l => { key := l.key, static := l.static, expression := l.expression }),
    expression := m.expression, «namespace» := m.«namespace», help := m.help, unit := m.unit }

end Spec

/-! ### `convert_response` -/

/-- `all_triggers[location_id].merge_actions(..)` when the id is present, else insert at the end (dict order) -/
def mergeInto (acc : List Trigger) (t : Trigger) : List Trigger :=
  if acc.any (fun g => g.id == t.id) then
    acc.map (fun g => if g.id == t.id then g.mergeActions t.actions else g)
  else acc ++ [t]

def stepResponse (acc : List Trigger) (tp : TP) : List Trigger :=
  match tp.build with
  | none => acc                      -- `if trigger is None: continue`
  | some t => mergeInto acc t

def convertResponseFrom (acc : List Trigger) (tps : List TP) : List Trigger := tps.foldl stepResponse acc

def convertResponse (tps : List TP) : List Trigger := convertResponseFrom [] tps

/-- the loop as the source has it, with its two guards read from the source: an exception while converting a
    tracepoint is caught (`convertResponseGuardsBuild`) and a `None` trigger is skipped (`convertResponseSkipsNone`);
    without a guard the exception / the `AttributeError` on `None` leaves `convert_response` and the WHOLE response is
    lost (`none`) -/
def stepRaw (acc : List Trigger) (tp : TP) : Option (List Trigger) :=
  match tp.outcome with
  | .raised => if convertResponseGuardsBuild then some acc else none
  | .uninterpretable => if convertResponseSkipsNone then some acc else none
  | .built t => some (mergeInto acc t)

def convertResponseRaw : List Trigger → List TP → Option (List Trigger)
  | acc, [] => some acc
  | acc, tp :: rest => (stepRaw acc tp).bind (fun acc' => convertResponseRaw acc' rest)

/-- where a trigger sits, without the (uninterpreted) START / END / CAPTURE position -/
def place : Location → Location
  | .LineLocation p l _ => .LineLocation p l .START
  | .FunctionLocation p n _ => .FunctionLocation p n .START

/-- `TracepointConfigService.add_custom` for a list of registrations: the custom list afterwards (`none` = a `None`
    entry, on which the handler fails at every event).  Whether the `None` of an uninterpretable registration is
    kept out is read from the source (`addCustomSkipsNone`). -/
def registerAll (tps : List TP) : List (Option Trigger) :=
  if addCustomSkipsNone then (tps.filterMap TP.build).map some else tps.map TP.build

/-- a registration in code as `add_custom` receives it: READY-MADE metric definitions (no protobuf enum conversion on
    this path: the type is whatever text the program wrote), the uuid the registration gets as `id`.  Argument values
    are TEXT here (`Args`); `register_tracepoint` does not check that — non-text values are outside this model. -/
structure RegTP where
  id : String
  path : String
  line : Int
  args : Args
  watches : List String
  metrics : List MetricDefinition
deriving Repr

/-- `add_custom`: `build_trigger(tp_id, path, line, args, watches, metrics)` on the arguments as given -/
def RegTP.build (r : RegTP) : Option Trigger := build_trigger r.id r.path r.line r.args r.watches r.metrics

/-- the custom list after registering `rs` in order, with the `add_custom` guard read from the source -/
def registerCode (rs : List RegTP) : List (Option Trigger) :=
  if addCustomSkipsNone then (rs.filterMap RegTP.build).map some else rs.map RegTP.build

/-- which actions run when an event reaches location `l`: all actions of every installed trigger at `l` -/
def actionsAt (installed : List Trigger) (l : Location) : List LocationAction :=
  (installed.filter (fun g => g.location == l)).flatMap (·.actions)

end TriggerBuild
