/-
  Model/Tasks — the task handler, the push service and the thread pool as a small-step machine (C09).

  `submitTask`, `callback`, `checkOpenRefuses`, `refusalClass`, the push facts and the guard skeleton of `flush`
  are `Extracted.Tasks.*`, regenerated from the Python source on every run.  This file adds:
    * the executor (TRUSTED, stated here as the semantics): a callable accepted by `pool.submit` is started by
      some worker exactly once (`start` is enabled only for a queued task), runs to its end (`finish`), then its
      done-callbacks run (`callback`); `future.result()` returns once the task is done and re-raises its error;
      any number of workers;
    * `push_snapshot` either as one step (`push`) or in the regions of `submit_task` (`pushBegin` = `__check_open`,
      `_next_id`, `pool.submit`; `pushStore` = the store into the pending map + the done-callback being attached):
      between the two the task can already run, and a flush that begins there does not see it;
    * how `flush` walks its skeleton: close, snapshot of the pending map, one `future.result` per entry inside the
      `try` the skeleton shows (`flushCatches`), return;
    * what a task body does: `Outcome` (the failure subset is a function `Int → Outcome` from job id), run through
      the regenerated statement-by-statement translation of `_push_task` (`pushTask`).
  A schedule is a list of steps; a step that is not enabled is a no-op, so every list is a schedule.
-/
import DeepModel.Extracted.Tasks

namespace Tasks
open Extracted.Tasks

/-- how the body of a push task ends -/
inductive Outcome where
  | ok                          -- converted and sent
  | unconvertible               -- convert_snapshot fails (it catches Exception and returns None): nothing to send
  | sendFails (e : Py.Exn)      -- converted; `stub.send` raises
  | dies (e : Py.Exn)           -- fails before sending with something convert_snapshot does not catch
  | stubFails (e : Py.Exn)      -- converted; building `SnapshotServiceStub(channel)` raises
  | metaFails (e : Py.Exn)      -- converted, stub built; `self.grpc.metadata()` raises before `send` is entered
deriving DecidableEq, Repr

/-- the behaviour of `convert_snapshot` and `stub.send` an outcome stands for (inputs of the translated `_push_task`) -/
structure PushIn where
  conv : ConvOut
  stub : Option Py.Exn
  md : Option Py.Exn
  send : Option Py.Exn

def Outcome.inputs : Outcome → PushIn
  | .ok => ⟨.converted, none, none, none⟩
  | .unconvertible => ⟨.isNone, none, none, none⟩
  | .sendFails e => ⟨.converted, none, none, some e⟩
  | .dies e => ⟨.raises e, none, none, none⟩
  | .stubFails e => ⟨.converted, some e, none, none⟩
  | .metaFails e => ⟨.converted, none, some e, none⟩

/-- the exception that leaves one execution of `_push_task` (`Extracted.Tasks.pushTask`, regenerated) -/
def Outcome.error (o : Outcome) : Option Py.Exn := (pushTask o.inputs.conv o.inputs.stub o.inputs.md o.inputs.send).2

/-- send attempts made by one execution of `_push_task` (`Extracted.Tasks.pushTask`, regenerated) -/
def Outcome.sends (o : Outcome) : Nat := (pushTask o.inputs.conv o.inputs.stub o.inputs.md o.inputs.send).1

inductive Fut where
  | queued
  | running (w : Nat)
  | done
deriving DecidableEq, Repr

structure Task where
  id : Int
  fut : Fut
  /-- the done-callback of `submit_task` has run -/
  cb : Bool
  /-- workers on which the body was started -/
  ranOn : List Nat
  /-- send attempts made for this snapshot -/
  sends : Nat
deriving DecidableEq, Repr

inductive Flush where
  | idle
  | waiting (todo : List Int)
  | returned
  | raised (e : Py.Exn)
deriving DecidableEq, Repr

structure St where
  th : TH
  tasks : List Task
  /-- convert/send work done on the thread that called `push_snapshot` -/
  callerRuns : Nat
  /-- `push_snapshot` calls that were refused with the visible exception -/
  refused : Nat
  flush : Flush
  /-- job ids handed to the pool by a `submit_task` that has not yet stored them in the pending map (a push that is
      between `pool.submit` and `self._pending[id] = future`) -/
  storing : List Int
  /-- ghost: some `flushBegin` happened while a push was in that window -/
  overlap : Bool
  /-- ghost: some `future.result(10)` of flush gave up on an unfinished task -/
  timedOut : Bool
deriving DecidableEq, Repr

def St.init : St := ⟨TH.init, [], 0, 0, .idle, [], false, false⟩

inductive Step where
  | push                         -- the application thread: PushService.push_snapshot, all of it at once
  | pushBegin                    -- … or in its regions: check + id + pool.submit (the task can run from here on)
  | pushStore (id : Int)         --   then `_pending[id] = future` and the done-callback (run at once if already done)
  | pushRejected                 -- push_snapshot while the executor refuses new work BEFORE queueing it (`pool.submit`
                                 --   raises "cannot schedule new futures after (interpreter) shutdown")
  | pushQueuedRaised             -- `pool.submit` queues the work item and THEN raises (a worker thread cannot be
                                 --   started: "can't start new thread"): the caller is refused, the task can run
  | flushTimeout                 -- `future.result(10)` gives up on the task flush is waiting for (TimeoutError)
  | start (id : Int) (w : Nat)   -- worker `w` takes task `id` off the queue
  | finish (id : Int)            -- the body ends (as `f id` says)
  | callback (id : Int)          -- the done-callback of task `id`
  | flushBegin
  | flushWait
  | flushEnd
deriving DecidableEq, Repr

/-! ### what the skeleton of `flush` says -/

def flushCloses : Bool :=
  match flushSkeleton with
  | .seq (.assign "_open" "False") _ => true
  | _ => false

def flushLoopBody : Option Guard.Stmt := Guard.findLoop flushLoopId flushSkeleton

/-- is an error of class `e` re-raised by `future.result` caught (and the handler silent) -/
def flushCatches (e : Py.Exn) : Bool :=
  match flushLoopBody with
  | some (.tryExcept (.call _) c _ h) => (c.catches e == some true) && (Guard.mayRaise h == Guard.RaiseSet.empty)
  | _ => false

/-- callee text of a call site `"<line>:<col>-<line>:<col> <callee>"` -/
def calleeOf (site : String) : String := String.ofList ((site.toList.dropWhile (· != ' ')).drop 1)

/-- the skeleton with the calls of the listed callees taken as not raising (the whitelist is part of the trusted
    base: `dict.values()` and `list(<dict view>)` of the handler's own plain dict) -/
def assumePure (names : List String) : Guard.Stmt → Guard.Stmt
  | .call site => if names.contains (calleeOf site) then .pure else .call site
  | .seq a b => .seq (assumePure names a) (assumePure names b)
  | .branch c a b => .branch c (assumePure names a) (assumePure names b)
  | .loop id b => .loop id (assumePure names b)
  | .tryExcept b c hid h => .tryExcept (assumePure names b) c hid (assumePure names h)
  | .tryFinally b fin => .tryFinally (assumePure names b) (assumePure names fin)
  | .scope n b => .scope n (assumePure names b)
  | s => s

def flushPureCallees : List String := ["self._pending.values", "list"]

def updTask (id : Int) (g : Task → Task) (ts : List Task) : List Task :=
  ts.map (fun t => if t.id = id then g t else t)

def findTask (id : Int) (ts : List Task) : Option Task := ts.find? (fun t => t.id = id)

def push (s : St) : St :=
  let s := { s with callerRuns := s.callerRuns + pushInlineCalls }
  if pushViaSubmit then
    match submitTask s.th with
    | .error _ => { s with refused := s.refused + 1 }
    | .ok (th', id) => { s with th := th', tasks := s.tasks ++ [⟨id, .queued, false, [], 0⟩] }
  else s

def pushBegin (s : St) : St :=
  let s := { s with callerRuns := s.callerRuns + pushInlineCalls }
  if pushViaSubmit then
    match submitAccept s.th with
    | .error _ => { s with refused := s.refused + 1 }
    | .ok (th', id) => { s with th := th', tasks := s.tasks ++ [⟨id, .queued, false, [], 0⟩],
                                storing := s.storing ++ [id] }
  else s

/-- `push_snapshot` when `self._pool.submit` raises: the statements of `submit_task` before it have run (an id is
    used up when the handler is open), no task exists, the exception goes to the caller of `push_snapshot` -/
def pushRejected (s : St) : St :=
  let s := { s with callerRuns := s.callerRuns + pushInlineCalls }
  if pushViaSubmit then { s with th := (submitRejected s.th).1, refused := s.refused + 1 } else s

/-- `push_snapshot` when `ThreadPoolExecutor.submit` has put the work item on its queue and then raises (`Thread.start`
    fails).  The statements of `submit_task` up to and including `pool.submit` have had their effect (`pushBegin`), none
    after it ever runs: the task is never stored in the pending map, no done-callback is attached (it stays in `storing`
    for good), and the exception goes to the caller of `push_snapshot`. -/
def pushQueuedRaised (s : St) : St :=
  if s.th.isOpen then { pushBegin s with refused := (pushBegin s).refused + 1 } else pushBegin s

def step (f : Int → Outcome) (s : St) : Step → St
  | .push => push s
  | .pushQueuedRaised => pushQueuedRaised s
  | .pushRejected => pushRejected s
  | .pushBegin => pushBegin s
  | .pushStore id =>
    if s.storing.contains id then
      let s := { s with storing := s.storing.erase id, th := submitStore s.th id }
      match findTask id s.tasks with
      | some t =>
        -- `future.add_done_callback(callback)` on a future that is already done runs the callback at once
        if t.fut = .done ∧ callbackAttached = true then
          { s with tasks := updTask id (fun t => { t with cb := true }) s.tasks, th := callback s.th id }
        else s
      | none => s
    else s
  | .flushTimeout =>
    match s.flush with
    | .waiting (id :: rest) =>
      match findTask id s.tasks with
      | some t =>
        if t.fut = .done then s
        else if flushCatches .exc then { s with flush := .waiting rest, timedOut := true }
        else { s with flush := .raised .exc }
      | none => s
    | _ => s
  | .start id w =>
    match findTask id s.tasks with
    | some t =>
      if t.fut = .queued then
        { s with tasks := updTask id (fun t => { t with fut := .running w, ranOn := t.ranOn ++ [w] }) s.tasks }
      else s
    | none => s
  | .finish id =>
    match findTask id s.tasks with
    | some t =>
      match t.fut with
      | .running _ =>
        { s with tasks := updTask id (fun t => { t with fut := .done, sends := t.sends + (f id).sends }) s.tasks }
      | _ => s
    | none => s
  | .callback id =>
    match findTask id s.tasks with
    | some t =>
      if t.fut = .done ∧ t.cb = false ∧ callbackAttached = true ∧ s.storing.contains id = false then
        let s := { s with tasks := updTask id (fun t => { t with cb := true }) s.tasks, th := callback s.th id }
        match s.flush with
        | .waiting _ => if flushIteratesSnapshot then s else { s with flush := .raised .exc }
        | _ => s
      else s
    | none => s
  | .flushBegin =>
    match s.flush with
    | .idle | .returned =>
      { s with th := { s.th with isOpen := if flushCloses then false else s.th.isOpen },
               flush := .waiting s.th.pending, overlap := s.overlap || !s.storing.isEmpty }
    | _ => s
  | .flushWait =>
    match s.flush with
    | .waiting (id :: rest) =>
      match findTask id s.tasks with
      | some t =>
        if t.fut = .done then
          match (f id).error with
          | some e => if flushCatches e then { s with flush := .waiting rest } else { s with flush := .raised e }
          | none => { s with flush := .waiting rest }
        else s
      | none => { s with flush := .waiting rest }
    | _ => s
  | .flushEnd =>
    match s.flush with
    | .waiting [] => { s with flush := .returned }
    | _ => s

/-! ### the in-tree submitters after close -/

/-- what the caller of a submitter sees when the task handler refuses the work -/
inductive Refusal where
  | raised (e : Py.Exn)     -- the refusal reaches the submitter's caller
  | logged                  -- swallowed, but a log record at WARNING or above is emitted
  | silent                  -- swallowed without a trace: the work is dropped silently
deriving DecidableEq, Repr

/-- a submitter (`Extracted.Tasks.SubmitSite`) meets its task handler — `none`: no handler was ever set (the field is
    still None), `some th`: a handler in state `th`.  With a handler, `submit_task` accepts (result `none`) or refuses
    (`submitTask th = .error e`) and the site lets that through, or swallows it (with or without a log record).
    Without one, a site guarded by `if <handler> is not None:` does nothing at all — the work is dropped silently —
    and an unguarded site raises AttributeError.  (The executor's own refusals of an OPEN handler are the steps
    `pushRejected` / `pushQueuedRaised`, not part of this function.) -/
def siteOutcome (site : SubmitSite) (h : Option TH) : Option Refusal :=
  match h with
  | none => some (if site.noneGuard then .silent else .raised .exc)
  | some th =>
    match submitTask th with
    | .ok _ => none
    | .error e => some (if site.swallowsRefusal then (if site.handlerLogs then .logged else .silent) else .raised e)

def runFrom (f : Int → Outcome) (s : St) (sched : List Step) : St := sched.foldl (step f) s
def run (f : Int → Outcome) (sched : List Step) : St := runFrom f St.init sched

/-- the real flush thread does not dawdle: it takes every `flushWait`/`flushEnd` step as soon as it is enabled -/
def eager (f : Int → Outcome) : Nat → St → St
  | 0, s => s
  | n + 1, s =>
    let s' := step f (step f s .flushWait) .flushEnd
    if s' = s then s else eager f n s'

def runEager (f : Int → Outcome) (s : St) (sched : List Step) : St :=
  sched.foldl (fun s st => let s' := step f s st; eager f (s'.tasks.length + 2) s') s

end Tasks
