import DeepModel.Driver.C12Timer

def main : IO Unit := Proto.serve C12TimerDriver.handle
