import DeepModel.Driver.Proto
import DeepModel.Model.Collector
import DeepModel.Model.CollectorTime
import DeepModel.Model.CollectorDeferred
import DeepModel.Model.CollectorAbort
open Lean Proto Heap Collector

def probeOf {α : Type} (j : Json) (k : String) (f : Json → Except String α) : Except String (Probe α) := do
  let v ← j.getObjVal? k
  match v.getObjVal? "raises" with
  | .ok m => pure (.raises (← m.getStr?))
  | .error _ => pure (.ok (← f v))

def natList (v : Json) : Except String (List Nat) := do
  (← v.getArr?).toList.mapM (fun x => x.getNat?)

def itemList (v : Json) : Except String (List (Key × ObjId)) := do
  (← v.getArr?).toList.mapM (fun x => do
    let a ← x.getArr?
    pure (⟨← a[0]!.getStr?, ← a[1]!.getBool?⟩, ← a[2]!.getNat?))

def clsOf (j : Json) : Except String (Probe String) := do
  match j.getObjVal? "cls" with
  | .error _ => do
    let t ← getStr j "ty"
    pure (.ok t)
  | .ok _ => probeOf j "cls" (fun v => v.getStr?)

def parseObj (j : Json) : Except String PyObj := do
  pure { tyName := ← getStr j "ty", tyRepr := ← getStr j "tyrepr", isDictExact := ← getBool j "dict",
         str := ← getOptStr j "str", placeholder := ← getStr j "ph",
         len := ← probeOf j "len" (fun v => v.getNat?),
         dictItems := ← itemList (← j.getObjVal? "items"),
         seq := ← probeOf j "seq" natList, isExc := ← probeOf j "isexc" (fun v => v.getBool?),
         excArgs := ← probeOf j "args" natList, hasDict := ← probeOf j "hasdict" (fun v => v.getBool?),
         attrs := ← probeOf j "attrs" itemList,
         clsName := ← clsOf j }

def parseAction (j : Json) : Except String ActionIn := do
  let l ← j.getObjVal? "limits"
  let lim : Limits := ⟨← getNat l "vars", ← getNat l "str", ← getNat l "coll", ← getNat l "depth"⟩
  let frames ← (← getArr j "frames").toList.mapM (fun f => do
    pure (FrameIn.mk (← getNat f "locals") ((f.getObjVal? "collect").toOption.bind (fun b => b.getBool?.toOption) |>.getD false)))
  let watches ← (← getArr j "watches").toList.mapM (fun w => do
    let src ← match (← getStr w "src") with
      | "watch" => pure Source.watch
      | "log" => pure Source.log
      | "capture" => pure Source.capture
      | s => throw s!"unknown source {s}"
    pure (WatchIn.mk src (← getStr w "expr") (← getNat w "value")))
  pure ⟨lim, frames, watches⟩

/-- an action run against the scripted clock: frames carry `selected` (= `should_collect_vars(index)`), the action its
    `max_ms`; which frames are collected is decided by the model (`CollectorTime.timedActions`) -/
def parseTimedAction (j : Json) : Except String CollectorTime.TimedAction := do
  let a ← parseAction j
  let sels ← (← getArr j "frames").toList.mapM (fun f => getBool f "selected")
  pure ⟨a.limits, List.zipWith (fun f s => ⟨f.locals, s⟩) a.frames sels, a.watches, ← getInt j "max_ms"⟩

/-- `"deferred": {"event": e, "value": v}` on an action: the snapshot is completed later by the callback, run at trace event
    `e` with argument `v` (`Collector.deferredSnapshot`) -/
def deferredOf (j : Json) : Except String (Option (String × Nat)) := do
  match j.getObjVal? "deferred" with
  | .error _ => pure none
  | .ok d => pure (some (← getStr d "event", ← getNat d "value"))

def runActions (H H2 : Heap) (abs : List (Option String)) (acts : List ActionIn) (defs : List (Option (String × Nat))) :
    List Outcome :=
  if abs.any Option.isSome then
    -- some object of the heap makes an unguarded probe raise ("aborts": msg): the model with the abort outcome
    acts.map (collectA H (fun o => (abs[o]?).join))
  else if defs.all Option.isNone then processActions H ⟨[], []⟩ acts
  else List.zipWith (fun a d =>
    match selfClassFailure H a.frames with
    | some m => Outcome.failed m
    | none =>
      match d with
      | some (ev, v) => deferredSnapshot2 H H2 a ev v
      | none => collect H a) acts defs

def refJson (r : VarId) : Json :=
  Json.arr #[toJson r.vid, Json.str r.name, strs r.mods, optStr r.orig]

def entryJson (e : Entry) : Json :=
  Json.mkObj [("vid", toJson e.vid), ("type", Json.str e.ty), ("value", Json.str e.value),
              ("truncated", Json.bool e.truncated), ("depth", toJson e.depth),
              ("children", Json.arr (e.children.map refJson).toArray)]

def srcName : Source → String
  | .watch => "WATCH" | .log => "LOG" | .capture => "CAPTURE"

def watchJson (w : WatchOut) : Json :=
  Json.mkObj [("expr", Json.str w.expr), ("source", Json.str (srcName w.source)),
              ("result", if w.hasResult then Json.arr #[(match w.vid with | some v => toJson v | none => Json.null),
                                                        Json.str w.expr] else Json.null),
              ("error", optStr w.error)]

def outcomeJson : Outcome → Json
  | .failed m => Json.mkObj [("failed", Json.str m)]
  | .ok s => Json.mkObj [("frames", Json.arr (s.frames.map (fun f => Json.arr (f.map refJson).toArray)).toArray),
                         ("vars", Json.arr (s.table.map entryJson).toArray),
                         ("watches", Json.arr (s.watches.map watchJson).toArray)]

def handle (j : Json) : Except String Json := do
  let op ← getStr j "op"
  match op with
  | "collect" =>
    let H : Heap := ⟨← (← getArr j "heap").toList.mapM parseObj⟩
    -- "heap2": the heap at the event that completes a deferred snapshot, when the host changed recorded objects in between
    let H2 : Heap ← match j.getObjVal? "heap2" with
      | .error _ => pure H
      | .ok h2 => do pure ⟨← (← h2.getArr?).toList.mapM parseObj⟩
    let abs : List (Option String) := (← getArr j "heap").toList.map
      (fun o => (o.getObjVal? "aborts").toOption.bind (fun m => m.getStr?.toOption))
    match j.getObjVal? "clock" with
    | .error _ =>
      let acts ← (← getArr j "actions").toList.mapM parseAction
      let defs ← (← getArr j "actions").toList.mapM deferredOf
      let outs := runActions H H2 abs acts defs
      pure (Json.mkObj [("actions", Json.arr (outs.map outcomeJson).toArray)])
    | .ok ck =>
      let reads ← (← getArr ck "reads").toList.mapM (fun x => x.getInt?)
      let script : Nat → Int := fun k => reads.getD k (reads.getLast?.getD 0)
      let tacts ← (← getArr j "actions").toList.mapM parseTimedAction
      let r := CollectorTime.timedActions (← getInt ck "ts") script 0 tacts
      let defs ← (← getArr j "actions").toList.mapM deferredOf
      let outs := runActions H H2 abs r.1 defs
      pure (Json.mkObj [("actions", Json.arr (outs.map outcomeJson).toArray), ("reads", toJson r.2),
                        ("collected", Json.arr (r.1.map (fun a => Json.arr (a.frames.map (fun f => Json.bool f.collect)).toArray)).toArray)])
  | "consts" =>
    pure (Json.mkObj [("no_child", strs Extracted.Collector.noChildTypes),
                      ("list_like", strs Extracted.Collector.listLikeTypes),
                      ("iter_like", strs Extracted.Collector.iterLikeTypes),
                      ("defaults", Json.arr #[toJson Limits.default.maxVars, toJson Limits.default.maxStr,
                                              toJson Limits.default.maxColl, toJson Limits.default.maxDepth])])
  | _ => throw s!"unknown op {op}"

def main : IO Unit := serve handle
