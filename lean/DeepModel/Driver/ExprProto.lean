/- JSON helpers shared by the C10 / C16 / C17 drivers: eval-oracle answers. I/O glue only. -/
import DeepModel.Driver.Proto
import DeepModel.Extracted.Expr

namespace ExprProto
open Lean Proto Extracted.Expr

def parseVal (j : Json) : Except String PyVal := do
  let k ← getStr j "k"
  match k with
  | "int" => pure (.int (← getInt j "v"))
  | "bool" => pure (.bool (← getBool j "v"))
  | "float" => pure (.float (← getStr j "v"))
  | "str" => pure (.str (← getStr j "v"))
  | _ => pure .other

/-- {"failed":b,"isExc":b,"ty":s,"text":s,"val":{..}} -/
def parseOutcome (j : Json) : Except String Outcome := do
  let failed ← getBool j "failed"
  let isExc ← getBool j "isExc"
  let ty ← getStr j "ty"
  let text ← getStr j "text"
  let val ← match j.getObjVal? "val" with
    | .ok v => parseVal v
    | .error _ => pure .other
  let strRaises := match j.getObjVal? "strRaises" with | .ok (.bool b) => b | _ => false
  pure ⟨failed, isExc, ty, text, val, strRaises⟩

/-- an oracle from a table [[expr, outcome], ...]; an expression not in the table was never evaluated by the
    harness — answer with a recognisable marker so that a model that asks for it disagrees visibly. -/
def parseOracle (j : Json) (k : String) : Except String (String → Outcome) := do
  let rows ← (← getArr j k).toList.mapM (fun r => do
    let e ← getStr r "e"
    let o ← parseOutcome (← r.getObjVal? "o")
    pure (e, o))
  pure (fun e => match rows.lookup e with
    | some o => o
    | none => ⟨true, true, "<not-in-oracle-table>", "<not-in-oracle-table>", .other, false⟩)

def optStrJ (o : Option String) : Json := match o with | none => Json.null | some s => Json.str s

end ExprProto
