/- JSON glue of the C15 model driver for the `tl` stream: run `TLocal.runT` (the machine of all threads over the
   translated `ThreadLocal` methods) on a schedule.  I/O glue only — no theorem depends on it. -/
import DeepModel.Driver.Proto
import DeepModel.Model.ThreadLocal

namespace ThreadLocalIO
open Lean Proto TLocal

/-- a value: JSON null = `None`, else a list of ints -/
def parseVal (j : Json) : Except String (Option (List Int)) :=
  match j with
  | .null => pure none
  | _ => do
    let a ← j.getArr?
    pure (some (← a.toList.mapM (fun x => x.getInt?)))

def valJson : Option (List Int) → Json
  | none => Json.null
  | some l => ints l

def parseOp (name : String) (arg : Json) : Except String (Op (List Int)) :=
  match name with
  | "get" => pure .get
  | "value" => pure .valueGet
  | "is_set" => pure .isSet
  | "clear" => pure .clear
  | "set" => do pure (.set (← parseVal arg))
  | "set_value" => do pure (.valueSet (← parseVal arg))
  | "push" => do
    let x ← arg.getInt?
    pure (.update (fun l => l ++ [x]))
  | n => throw s!"unknown tl op {n}"

def resJson : Res (List Int) → Json
  | .val v => Json.arr #[Json.str "val", valJson v]
  | .flag b => Json.arr #[Json.str "flag", toJson b]
  | .unit => Json.arr #[Json.str "unit"]
  | .raised => Json.arr #[Json.str "raised"]

def handleInst (j : Json) : Except String Json := do
  -- a provider entry: null = returns None, [ints] = returns that list, "raise" = raises
  let prov ← (← getArr j "prov").toList.mapM (fun x => match x with
    | .str "raise" => pure (none : Option (Option (List Int)))
    | _ => do pure (some (← parseVal x)))
  if prov.isEmpty then throw "empty provider"
  let dp : Nat → Option (Option (List Int)) := fun k => (prov[min k (prov.length - 1)]?).getD (some none)
  let gs ← (← getArr j "ops").toList.mapM (fun o => do
    let a ← o.getArr?
    let t ← a[0]!.getNat?
    let op ← parseOp (← a[1]!.getStr?) a[2]!
    pure (t, op))
  let r := runT dp St.empty gs
  -- c15_tl_interleaved, executed: with a constant provider every thread's results are those of its solo run
  let const := prov.all (fun v => v == prov.head!) && prov.head!.isSome
  let threads := (gs.map (·.1)).eraseDups
  let soloOk := !const || threads.all (fun t =>
    decide ((r.1.store t, projRes t r.2) = solo dp 0 none (projOps t gs)))
  pure (Json.mkObj [("results", Json.arr (r.2.map (fun (t, x) => Json.arr #[toJson t, resJson x])).toArray),
                    ("calls", toJson r.1.calls), ("solo_agrees", toJson soloOk)])

def handle (j : Json) : Except String Json := do
  let rs ← (← getArr j "insts").toList.mapM handleInst
  pure (Json.mkObj [("insts", Json.arr rs.toArray)])

end ThreadLocalIO
