/- JSON line protocol shared by the per-property model drivers.
   One request per input line, one response per output line; run with
   `lake env lean --run DeepModel/Driver/Cxx.lean < cases.jsonl`. I/O glue only — no theorem depends on it. -/
import Lean.Data.Json

namespace Proto
open Lean

def getInt (j : Json) (k : String) : Except String Int := do
  (← j.getObjVal? k).getInt?

def getNat (j : Json) (k : String) : Except String Nat := do
  (← j.getObjVal? k).getNat?

def getStr (j : Json) (k : String) : Except String String := do
  (← j.getObjVal? k).getStr?

def getBool (j : Json) (k : String) : Except String Bool := do
  (← j.getObjVal? k).getBool?

def getArr (j : Json) (k : String) : Except String (Array Json) := do
  (← j.getObjVal? k).getArr?

/-- optional string: absent key or JSON null = none -/
def getOptStr (j : Json) (k : String) : Except String (Option String) :=
  match j.getObjVal? k with
  | .error _ => pure none
  | .ok .null => pure none
  | .ok v => do pure (some (← v.getStr?))

def getOptInt (j : Json) (k : String) : Except String (Option Int) :=
  match j.getObjVal? k with
  | .error _ => pure none
  | .ok .null => pure none
  | .ok v => do pure (some (← v.getInt?))

def optStr : Option String → Json
  | none => Json.null
  | some s => Json.str s

def ints (xs : List Int) : Json := Json.arr (xs.map (fun (i : Int) => (toJson i))).toArray
def strs (xs : List String) : Json := Json.arr (xs.map Json.str).toArray

partial def loop (h : IO.FS.Stream) (out : IO.FS.Stream) (handle : Json → Except String Json) : IO Unit := do
  let line ← h.getLine
  if line.isEmpty then return ()
  let t := line.trimAscii.toString
  if t.isEmpty then loop h out handle else
  let resp : Json := match Json.parse t with
    | .error e => Json.mkObj [("error", Json.str s!"parse: {e}")]
    | .ok j => match handle j with
      | .error e => Json.mkObj [("error", Json.str e)]
      | .ok r => r
  out.putStrLn resp.compress
  loop h out handle

def serve (handle : Json → Except String Json) : IO Unit := do
  let i ← IO.getStdin
  let o ← IO.getStdout
  loop i o handle
  o.flush

end Proto
