/- JSON glue of the C15 model driver for the `cb` stream: the translated `TriggerContext.__exit__`,
   `SpanActionCallback.process`, capture guard, `_is_deferred` and result table.  I/O glue only. -/
import DeepModel.Driver.Proto
import DeepModel.Extracted.Deferred

namespace DeferredIO
open Lean Proto Extracted.Deferred

def parseFault (j : Json) : Except String (Option Py.Exn) :=
  match j with
  | .null => pure none
  | .str "exc" => pure (some Py.Exn.exc)
  | .str "base" => pure (some Py.Exn.base)
  | _ => throw "unknown fault"

def nats (xs : List Nat) : Json := Json.arr (xs.map (fun (i : Nat) => toJson i)).toArray

def handle (j : Json) : Except String Json := do
  let faults ← (← getArr j "spans").toList.mapM parseFault
  let sp := spanCallbackProcess (fun (i : Nat) => (faults[i]?).getD none) (List.range faults.length)
  let hows ← (← getArr j "results").toList.mapM (fun x => x.getStr?)
  let proc : Nat → Except Py.Exn (Option Nat) := fun i =>
    match (hows[i]?).getD "none" with
    | "cb" => .ok (some i)
    | "exc" => .error Py.Exn.exc
    | "base" => .error Py.Exn.base
    | _ => .ok none
  let ex := contextExit proc (List.range hows.length)
  let evs ← (← getArr j "events").toList.mapM (fun x => x.getStr?)
  let stages ← (← getArr j "stages").toList.mapM (fun x => match x with
    | .null => pure (none : Option String)
    | _ => do pure (some (← x.getStr?)))
  pure (Json.mkObj [
    ("spans", Json.mkObj [("closed", nats sp.1), ("escaped", toJson sp.2)]),
    ("results", Json.mkObj [("registered", nats ex.1), ("escaped", toJson ex.2)]),
    ("events", Json.arr (evs.map (fun e => toJson (captureAttaches e))).toArray),
    ("stages", Json.arr (stages.map (fun s => toJson (isDeferred s))).toArray),
    ("classes", strs resultClasses),
    ("table", Json.mkObj (resultClasses.map (fun c => (c, toJson (resultHasCallback c)))))])

end DeferredIO
