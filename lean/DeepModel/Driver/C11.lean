import DeepModel.Driver.Proto
import DeepModel.Model.TriggerBuild
import DeepModel.Extracted.TpArgs
open Lean Proto TriggerBuild Extracted.TriggerTable

def staticJ : Option StaticVal → Json
  | none => Json.null
  | some (.str s) => Json.mkObj [("str", Json.str s)]
  | some (.bool b) => Json.mkObj [("bool", Json.bool b)]
  | some (.int i) => Json.mkObj [("int", toJson i)]
  | some (.dbl b) => Json.mkObj [("dbl", toJson b)]
  | some (.bytes b) => Json.mkObj [("bytes", toJson b)]
  | some (.msg r) => Json.mkObj [("msg", Json.str r)]

def parseStatic (j : Json) : Except String (Option StaticVal) :=
  match j with
  | .null => pure none
  | _ =>
    match j.getObjVal? "str", j.getObjVal? "bool", j.getObjVal? "int", j.getObjVal? "dbl", j.getObjVal? "msg" with
    | .ok v, _, _, _, _ => do pure (some (.str (← v.getStr?)))
    | _, .ok v, _, _, _ => do pure (some (.bool (← v.getBool?)))
    | _, _, .ok v, _, _ => do pure (some (.int (← v.getInt?)))
    | _, _, _, .ok v, _ => do pure (some (.dbl (← v.getNat?)))
    | _, _, _, _, .ok v => do pure (some (.msg (← v.getStr?)))
    | _, _, _, _, _ => do
      let b ← (← getArr j "bytes").toList.mapM (fun x => x.getNat?)
      pure (some (.bytes b))

def parseLabel (j : Json) : Except String PLabelExpression := do
  pure ⟨← getStr j "key", ← parseStatic ((j.getObjVal? "static").toOption.getD Json.null), ← getStr j "expression"⟩

def parseMetric (j : Json) : Except String PMetric := do
  let ls ← (← getArr j "labels").toList.mapM parseLabel
  pure ⟨← getStr j "name", ls, ← getNat j "type", ← getStr j "expression", ← getStr j "namespace",
        ← getStr j "help", ← getStr j "unit"⟩

def parseArgs (j : Json) : Except String Args := do
  let o ← j.getObj?
  o.toList.mapM (fun (k, v) => do pure (k, ← v.getStr?))

def parseTP (j : Json) : Except String TP := do
  let ms ← (← getArr j "metrics").toList.mapM parseMetric
  let ws ← (← getArr j "watches").toList.mapM (fun w => w.getStr?)
  pure ⟨← getStr j "id", ← getStr j "path", ← getInt j "line", ← parseArgs (← j.getObjVal? "args"), ws,
        ms⟩

def labelJ (l : LabelExpression) : Json :=
  Json.mkObj [("key", Json.str l.key), ("static", staticJ l.static), ("expression", Json.str l.expression)]

def metricJ (m : MetricDefinition) : Json :=
  Json.mkObj [("name", Json.str m.name), ("type", Json.str m.type), ("labels", Json.arr (m.labels.map labelJ).toArray),
              ("expression", Json.str m.expression), ("namespace", Json.str m.«namespace»), ("help", Json.str m.help),
              ("unit", Json.str m.unit)]

def cfgJ : CfgVal → Json
  | .str s => Json.str s
  | .none => Json.null
  | .strs ws => strs ws
  | .metrics ms => Json.arr (ms.map metricJ).toArray

def posJ : Position → Json
  | .START => "START" | .END => "END" | .CAPTURE => "CAPTURE"

def typeJ : ActionType → Json
  | .Snapshot => "Snapshot" | .Log => "Log" | .Metric => "Metric" | .Span => "Span"

def locJ : Location → Json
  | .LineLocation p l pos => Json.mkObj [("kind", "line"), ("path", Json.str p), ("line", toJson l), ("pos", posJ pos)]
  | .FunctionLocation p n pos => Json.mkObj [("kind", "method"), ("path", Json.str p), ("name", optStr n), ("pos", posJ pos)]

def actionJ (a : LocationAction) : Json :=
  Json.mkObj [("type", typeJ a.action_type), ("id", Json.str a.id), ("cond", optStr a.condition),
              ("cfg", Json.mkObj (a.config.map (fun (k, v) => (k, cfgJ v))))]

def triggerJ (t : Trigger) : Json :=
  Json.mkObj [("id", Json.str t.id), ("loc", locJ t.location), ("actions", Json.arr (t.actions.map actionJ).toArray)]

def optTriggerJ : Option Trigger → Json
  | none => Json.null
  | some t => triggerJ t

/-- mixed-radix decoding of a table index: key i takes its (idx / prod of earlier radices) % radix -th value;
    a `none` value = key absent -/
def decodeArgs (keys : List (String × List (Option String))) (idx : Nat) : Args :=
  (keys.foldl (fun (acc : Nat × Args) (k, vs) =>
      let n := vs.length
      let v := (vs[acc.1 % n]?).getD none
      (acc.1 / n, match v with | some s => acc.2 ++ [(k, s)] | none => acc.2)) (idx, [])).2

def parseArgVal (j : Json) : Except String Extracted.TpArgs.ArgVal :=
  match j with
  | .null => pure .none
  | .str "nan" => pure .floatNan
  | .str "inf" => pure .floatInf
  | .str _ => pure .other
  | _ =>
    match j.getObjVal? "str", j.getObjVal? "bool", j.getObjVal? "int", j.getObjVal? "float" with
    | .ok v, _, _, _ => do pure (.str (← v.getStr?))
    | _, .ok v, _, _ => do pure (.bool (← v.getBool?))
    | _, _, .ok v, _ => do pure (.int (← v.getInt?))
    | _, _, _, .ok v => do pure (.floatFinite (← v.getInt?))
    | _, _, _, _ => throw "unknown argument value"

def intOutJ : Except String Int → Json
  | .ok i => Json.mkObj [("ok", toJson i)]
  | .error c => Json.mkObj [("raised", Json.str c)]

def argValJ : Extracted.TpArgs.ArgVal → Json
  | .str s => Json.mkObj [("str", Json.str s)]
  | .none => Json.null
  | .bool b => Json.mkObj [("bool", Json.bool b)]
  | .int i => Json.mkObj [("int", toJson i)]
  | .floatFinite t => Json.mkObj [("float", toJson t)]
  | .floatNan => "nan"
  | .floatInf => "inf"
  | .other => "other"

def handle (j : Json) : Except String Json := do
  let op ← getStr j "op"
  match op with
  | "argint" =>
    let o ← (← j.getObjVal? "args").getObj?
    let m ← o.toList.mapM (fun (k, v) => do pure (k, ← parseArgVal v))
    let name ← getStr j "name"
    let d ← getInt j "default"
    pure (Json.mkObj [("get_arg_int", intOutJ (Extracted.TpArgs.get_arg_int m name d)),
                      ("loc_get_int", intOutJ (Extracted.TpArgs.loc_get_int m name d)),
                      ("tp_fire_count", intOutJ (Extracted.TpArgs.tp_fire_count m)),
                      ("loc_fire_count", intOutJ (Extracted.TpArgs.loc_fire_count m)),
                      ("loc_fire_period", intOutJ (Extracted.TpArgs.loc_fire_period m)),
                      ("tp_frame_type", argValJ (Extracted.TpArgs.tp_frame_type m)),
                      ("tp_condition", argValJ (Extracted.TpArgs.tp_condition m))])
  | "both" =>
    -- one tracepoint on the service path (enum numbers, converted) and on the register path (ready-made definitions)
    let tp ← parseTP j
    let defs ← (← getArr j "defs").toList.mapM (fun m => do
      let ls ← (← getArr m "labels").toList.mapM parseLabel
      pure ({ name := ← getStr m "name", type := ← getStr m "type",
              labels := convert_label_expressions ls, expression := ← getStr m "expression",
              «namespace» := ← getStr m "namespace", help := ← getStr m "help", unit := ← getStr m "unit" } : MetricDefinition))
    let svc := match convertResponseRaw [] [tp] with | some ts => ts.map triggerJ | none => []
    let code := (registerCode [⟨tp.id, tp.path, tp.line, tp.args, tp.watches, defs⟩]).map optTriggerJ
    pure (Json.mkObj [("service", Json.arr svc.toArray), ("code", Json.arr code.toArray)])
  | "build" =>
    let tp ← parseTP j
    pure (Json.mkObj [("trigger", optTriggerJ tp.build)])
  | "table" =>
    let keys ← (← getArr j "keys").toList.mapM (fun kv => do
      let a ← kv.getArr?
      let k ← (a[0]?.getD Json.null).getStr?
      let vs ← (← (a[1]?.getD Json.null).getArr?).toList.mapM (fun v =>
        match v with | .null => pure none | _ => do pure (some (← v.getStr?)))
      pure (k, vs))
    let lo ← getNat j "lo"
    let hi ← getNat j "hi"
    let tp ← parseTP j
    let rows := (List.range (hi - lo)).map (fun i =>
      optTriggerJ ({ tp with args := decodeArgs keys (lo + i) }).build)
    pure (Json.mkObj [("rows", Json.arr rows.toArray)])
  | "response" =>
    let tps ← (← getArr j "tps").toList.mapM parseTP
    match convertResponseRaw [] tps with
    | some ts => pure (Json.mkObj [("triggers", Json.arr (ts.map triggerJ).toArray)])
    | none => pure (Json.mkObj [("lost", Json.bool true)])
  | "register" =>
    let tps ← (← getArr j "tps").toList.mapM parseTP
    pure (Json.mkObj [("triggers", Json.arr ((registerAll tps).map optTriggerJ).toArray)])
  | "register_phases" =>
    -- the custom list after the registrations and after each unregister: the live registrations, in order
    let tps ← (← getArr j "tps").toList.mapM parseTP
    let lives ← (← getArr j "lives").toList.mapM (fun l => do (← l.getArr?).toList.mapM (fun i => i.getNat?))
    let phases := lives.map (fun idxs =>
      Json.arr ((registerAll (idxs.filterMap (fun i => tps[i]?))).map optTriggerJ).toArray)
    pure (Json.mkObj [("phases", Json.arr phases.toArray)])
  | _ => throw s!"unknown op {op}"

def main : IO Unit := serve handle
