import DeepModel.Driver.GuardRun
open Lean Proto GuardRun

def handle (j : Json) : Except String Json := do
  match (← getStr j "op") with
  | "resolve" => handleResolve j
  | "resolve_text" => handleResolveText j
  | "exec" => handleExec j
  | op => throw s!"unknown op {op}"

def main : IO Unit := serve handle
