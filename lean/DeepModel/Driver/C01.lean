import DeepModel.Driver.GuardRun
import DeepModel.Extracted.HostTouch
open Lean Proto GuardRun

def handle (j : Json) : Except String Json := do
  match (← getStr j "op") with
  | "resolve" => handleResolve j
  | "resolve_text" => handleResolveText j
  | "exec" => handleExec j
  | "host_touch" =>
    -- the (kind, protocol) pairs of the extracted host-touch table, and which of them the frame condition allows
    let kindName : HostTouch.Kind → String
      | .read => "read" | .write => "write" | .call => "call" | .enter => "enter" | .arith => "arith"
      | .consume => "consume" | .pass => "pass"
    pure (Json.mkObj [("rows", Json.arr (Extracted.HostTouch.ops.map (fun o =>
      Json.arr #[Json.str (kindName o.kind), Json.str o.proto, toJson o.ok])).eraseDups.toArray)])
  | op => throw s!"unknown op {op}"

def main : IO Unit := serve handle
