/- JSON glue of the C03 model driver for the `loc` stream: `locationFromEvent` and the trigger phase on hand-made
   events.  I/O glue only — no theorem depends on it. -/
import DeepModel.Driver.TraceIO

namespace LocIO
open Lean Proto Callbacks Trigger Extracted.Locations

def handle (j : Json) : Except String Json := do
  let resp ← (← getArr j "resp").toList.mapM TraceIO.parseTp
  let custom ← (← getArr j "custom").toList.mapM TraceIO.parseTp
  let cfg := install resp custom
  let evs ← (← getArr j "events").toList.mapM (fun e => do
    let a ← e.getArr?
    pure (({ kind := ← a[0]!.getStr?, path := ← a[1]!.getStr?, line := ← a[2]!.getInt?, func := ← a[3]!.getStr? } : Event)))
  let out := evs.map (fun ev =>
    let l := locationFromEvent ev.kind ev.path ev.line ev.func
    let fired := firedAt (cfg.length : Int) (actionsFor cfg) ev
    Json.mkObj [("loc", Json.arr #[Json.str l.1, Json.str l.2.1, toJson l.2.2.1, Json.str l.2.2.2]),
                ("fired", Json.arr (fired.map (fun a => toJson a.tp)).toArray)])
  pure (Json.mkObj [("events", Json.arr out.toArray)])

end LocIO
