import DeepModel.Driver.TasksCommon

def main : IO Unit := Proto.serve TasksDriver.handle
