import DeepModel.Driver.ExprProto
import DeepModel.Model.ActionCtx
open Lean Proto ExprProto ActionCtx Extracted.Limiter Extracted.Expr

def parseCfg (j : Json) : Except String Cfg := do
  let fc ← getOptStr j "fire_count"
  let fp ← getOptStr j "fire_period"
  let cond ← getOptStr j "condition"
  pure ⟨⟨fc, fp, ⟨0, 0⟩⟩, cond⟩

def srcName : EnvSrc → String
  | .frameGlobals => "frameGlobals" | .frameLocals => "frameLocals"
  | .agentGlobals => "agentGlobals" | .agentLocals => "agentLocals"

def runOne (j : Json) : Except String Json := do
  let cfg ← parseCfg (← j.getObjVal? "cfg")
  let hits ← (← getArr j "hits").toList.mapM (fun h => do
    pure (Hit.mk (← getInt h "ts") (← parseOutcome (← h.getObjVal? "cond"))))
  let kind : Kind := match (getOptStr j "action").toOption.join with
    | some "log" => .log | some "metric" => .metric | some "span" => .span | _ => .snapshot
  let hasProc := match j.getObjVal? "has_proc" with | .ok (.bool b) => b | _ => true
  let tr := traceFromK kind hasProc cfg Stats.init hits
  pure (Json.mkObj [("fired", Json.arr (tr.map (fun r => Json.bool r.1)).toArray),
                    ("evals", Json.arr (tr.map (fun r => toJson r.2)).toArray)])

def evalOne (j : Json) : Except String Json := do
  let ev ← parseOracle j "oracle"
  let es ← (← getArr j "exprs").toList.mapM (fun e => e.getStr?)
  let src := (getOptStr j "source").toOption.join.getD "WATCH"
  let rs := evalAll src ev Collect.plain es
  pure (Json.arr (rs.map (fun r => Json.mkObj [("expr", Json.str r.expr), ("source", Json.str r.source),
      ("hasResult", Json.bool r.hasResult), ("error", optStrJ r.error), ("ty", Json.str r.ty),
      ("value", Json.str r.logStr)])).toArray)

def handle (j : Json) : Except String Json := do
  let op ← getStr j "op"
  match op with
  | "run" => runOne j
  | "runN" =>
    -- several tracepoints at one location: each action has its own condition and its own limiter state
    let rs ← (← getArr j "runs").toList.mapM runOne
    pure (Json.mkObj [("runs", Json.arr rs.toArray)])
  | "resolve" =>
    -- each name says where it is bound; values are tags telling which binding was found
    let names ← (← getArr j "names").toList.mapM (fun r => do
      pure ((← getStr r "n"), (← getBool r "locals"), (← getBool r "globals"), (← getBool r "builtins"),
            (← getBool r "agent")))
    -- is the occurrence of the name inside a nested scope of the expression (lambda body)?
    let nestedOf ← (← getArr j "names").toList.mapM (fun r => do
      pure (match r.getObjVal? "nested" with | .ok (.bool b) => b | _ => false))
    let tbl (pick : String × Bool × Bool × Bool × Bool → Bool) (tag : String) : String → Option String :=
      fun n => match names.find? (fun r => r.1 == n) with
        | some r => if pick r then some tag else none
        | none => none
    let f : Frame String := ⟨tbl (·.2.2.1) "globals", tbl (·.2.1) "locals"⟩
    let a : Agent String := ⟨tbl (·.2.2.2.2) "agent", tbl (·.2.2.2.2) "agent"⟩
    let b := tbl (·.2.2.2.1) "builtins"
    let res := (names.zip nestedOf).map (fun (r, nst) => (resolveAt nst (handlerEnv f a) b r.1).getD "NameError")
    pure (Json.mkObj [("resolved", strs res), ("globals", Json.str (srcName evalGlobals)),
                      ("locals", Json.str (srcName evalLocals))])
  | "evalall" => evalOne j
  | "evalallN" =>
    -- several hits (threads), each with the oracle of its own frame
    let rs ← (← getArr j "threads").toList.mapM evalOne
    pure (Json.mkObj [("threads", Json.arr rs.toArray)])
  | "concN" =>
    -- several hits (threads) at one tracepoint without limits: each hit is gated by the condition evaluated with the
    -- oracle of its own frame, and evaluates its fields with that oracle — no state is shared between hits
    let rs ← (← getArr j "threads").toList.mapM (fun t => do
      let ev ← parseOracle t "oracle"
      let cond ← getOptStr t "condition"
      pure (Json.mkObj [("fired", Json.bool (canTrigger true cond ev).1), ("fields", ← evalOne t)]))
    pure (Json.mkObj [("threads", Json.arr rs.toArray)])
  | _ => throw s!"unknown op {op}"

def main : IO Unit := serve handle
