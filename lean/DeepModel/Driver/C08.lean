import DeepModel.Driver.Proto
import DeepModel.Model.Wire
import DeepModel.Extracted.WireCodec
open Lean Proto Wire Extracted.Wire

/-! text: a JSON string when it is valid text (and free of the raw line separators U+0085, U+2028, U+2029, on which
    the harness would split the output), else {"cp":[code points]} -/
def textJ (t : Text) : Json :=
  if t.ok && t.all (fun c => c != 0x85 && c != 0x2028 && c != 0x2029) then Json.str (String.ofList (t.map Char.ofNat)) else Json.mkObj [("cp", toJson t)]

def parseText (j : Json) : Except String Text :=
  match j with
  | .str s => pure (s.toList.map Char.toNat)
  | _ => do (← getArr j "cp").toList.mapM (fun x => x.getNat?)

def optJ {α} (f : α → Json) : Option α → Json
  | none => Json.null
  | some a => f a

def parseOpt {α} (f : Json → Except String α) (j : Json) : Except String (Option α) :=
  match j with
  | .null => pure none
  | _ => do pure (some (← f j))

def fld (j : Json) (k : String) : Json := (j.getObjVal? k).toOption.getD Json.null

def parseList {α} (f : Json → Except String α) (j : Json) : Except String (List α) := do
  (← j.getArr?).toList.mapM f

def parsePair {α} (f : Json → Except String α) (j : Json) : Except String (Text × α) := do
  let a ← j.getArr?
  pure (← parseText (a[0]?.getD Json.null), ← f (a[1]?.getD Json.null))

partial def parseVal (j : Json) : Except String PyVal := do
  let t ← getStr j "t"
  let v := fld j "v"
  match t with
  | "none" => pure .none
  | "bool" => pure (.bool (← v.getBool?))
  | "str" => pure (.str (← parseText v))
  | "int" => pure (.int (← v.getInt?))
  | "float" => pure (.float (← v.getNat?))
  | "bytes" => pure (.bytes (← parseList (fun x => x.getNat?) v))
  | "tuple" => pure (.tuple (PyVals.ofList (← parseList parseVal v)))
  | "list" => pure (.list (PyVals.ofList (← parseList parseVal v)))
  | "dict" => do
    let kvs ← parseList (parsePair parseVal) v
    pure (.dict (kvs.foldr (fun (k, x) acc => .cons k x acc) .nil))
  | _ => pure (.other (v.getStr?.toOption.getD t))

mutual
  partial def anyJ : PAnyValue → Json
    | .pyNone => Json.mkObj [("f", "pyNone")]
    | .empty => Json.mkObj [("f", "unset-member")]
    | .string_value t => Json.mkObj [("f", "string_value"), ("v", textJ t)]
    | .bool_value b => Json.mkObj [("f", "bool_value"), ("v", Json.bool b)]
    | .int_value i => Json.mkObj [("f", "int_value"), ("v", toJson i)]
    | .double_value b => Json.mkObj [("f", "double_value"), ("v", toJson b)]
    | .array_value vs => Json.mkObj [("f", "array_value"), ("v", Json.arr (anyListJ vs).toArray)]
    | .kvlist_value kvs => Json.mkObj [("f", "kvlist_value"), ("v", Json.arr (kvListJ kvs).toArray)]
    | .bytes_value b => Json.mkObj [("f", "bytes_value"), ("v", toJson b)]
  partial def anyListJ : PAnyList → List Json
    | .nil => []
    | .cons v r => anyJ v :: anyListJ r
  partial def kvListJ : PKVList → List Json
    | .nil => []
    | .cons k v r => Json.arr #[textJ k, anyJ v] :: kvListJ r
end

def parseVid (j : Json) : Except String VariableId := do
  pure { vid := ← parseText (fld j "vid"), name := ← parseText (fld j "name"),
         original_name := ← parseOpt parseText (fld j "original_name"),
         modifiers := ← parseList parseText (fld j "modifiers") }

def parseVariable (j : Json) : Except String Variable := do
  pure { «type» := ← parseText (fld j "type"), value := ← parseText (fld j "value"), «hash» := ← parseText (fld j "hash"),
         children := ← parseList parseVid (fld j "children"), truncated := ← (fld j "truncated").getBool? }

def parseFrame (j : Json) : Except String StackFrame := do
  pure { file_name := ← parseText (fld j "file_name"), short_path := ← parseText (fld j "short_path"),
         method_name := ← parseText (fld j "method_name"), line_number := ← getInt j "line_number",
         class_name := ← parseOpt parseText (fld j "class_name"), is_async := ← getBool j "is_async",
         column_number := ← getInt j "column_number",
         transpiled_file_name := ← parseOpt parseText (fld j "transpiled_file_name"),
         transpiled_line_number := ← getInt j "transpiled_line_number",
         transpiled_column_number := ← getInt j "transpiled_column_number",
         variables := ← parseList parseVid (fld j "variables"), app_frame := ← getBool j "app_frame" }

def parseWatch (j : Json) : Except String WatchResult := do
  pure { expression := ← parseText (fld j "expression"), result := ← parseOpt parseVid (fld j "result"),
         error := ← parseOpt parseText (fld j "error"), source := ← parseText (fld j "source") }

def parseTracepoint (j : Json) : Except String TracePointConfig := do
  pure { id := ← parseText (fld j "id"), path := ← parseText (fld j "path"), line_no := ← getInt j "line_no",
         args := ← parseList (parsePair parseText) (fld j "args"), watches := ← parseList parseText (fld j "watches") }

def parseSnapshot (j : Json) : Except String EventSnapshot := do
  pure { id := ← getNat j "id", tracepoint := ← parseTracepoint (fld j "tracepoint"),
         var_lookup := ← parseList (parsePair parseVariable) (fld j "var_lookup"), ts_nanos := ← getInt j "ts_nanos",
         frames := ← parseList parseFrame (fld j "frames"), watches := ← parseList parseWatch (fld j "watches"),
         attributes := ← parseList (parsePair parseVal) (fld j "attributes"),
         duration_nanos := ← getInt j "duration_nanos",
         resource := ← parseList (parsePair parseVal) (fld j "resource"),
         log_msg := ← parseOpt parseText (fld j "log_msg") }

def vidJ (m : PVariableID) : Json :=
  Json.mkObj [("ID", textJ m.ID), ("name", textJ m.name), ("modifiers", Json.arr (m.modifiers.map textJ).toArray),
              ("original_name", optJ textJ m.original_name)]

def variableJ (m : PVariable) : Json :=
  Json.mkObj [("type", textJ m.«type»), ("value", textJ m.value), ("hash", textJ m.«hash»),
              ("children", Json.arr (m.children.map vidJ).toArray), ("truncated", optJ Json.bool m.truncated)]

def intJ (i : Int) : Json := toJson i

def frameJ (m : PStackFrame) : Json :=
  Json.mkObj [("file_name", textJ m.file_name), ("method_name", textJ m.method_name), ("line_number", intJ m.line_number),
              ("class_name", optJ textJ m.class_name), ("is_async", optJ Json.bool m.is_async),
              ("column_number", optJ intJ m.column_number), ("transpiled_file_name", optJ textJ m.transpiled_file_name),
              ("transpiled_line_number", optJ intJ m.transpiled_line_number),
              ("transpiled_column_number", optJ intJ m.transpiled_column_number),
              ("variables", Json.arr (m.variables.map vidJ).toArray), ("app_frame", optJ Json.bool m.app_frame),
              ("native_frame", optJ Json.bool m.native_frame), ("short_path", optJ textJ m.short_path)]

def watchJ (m : PWatchResult) : Json :=
  Json.mkObj [("expression", textJ m.expression), ("good_result", optJ vidJ m.good_result),
              ("error_result", optJ textJ m.error_result), ("from_metric", optJ Json.bool m.from_metric),
              ("source", optJ (fun (n : Nat) => toJson n) m.source)]

def kvJ (m : PKeyValue) : Json := Json.arr #[textJ m.key, anyJ m.value]

def tracepointJ (m : PTracePointConfig) : Json :=
  Json.mkObj [("ID", textJ m.ID), ("path", textJ m.path), ("line_number", intJ m.line_number),
              ("args", Json.arr (m.args.map (fun kv => Json.arr #[textJ kv.1, textJ kv.2])).toArray),
              ("watches", Json.arr (m.watches.map textJ).toArray),
              ("targeting", Json.arr (m.targeting.map kvJ).toArray)]

def snapshotJ (m : PSnapshot) : Json :=
  Json.mkObj [("ID", optJ (fun (b : List Nat) => toJson b) m.ID), ("tracepoint", optJ tracepointJ m.tracepoint),
              ("var_lookup", Json.arr (m.var_lookup.map (fun kv => Json.arr #[textJ kv.1, variableJ kv.2])).toArray),
              ("ts_nanos", intJ m.ts_nanos), ("frames", Json.arr (m.frames.map frameJ).toArray),
              ("watches", Json.arr (m.watches.map watchJ).toArray),
              ("attributes", Json.arr (m.attributes.map kvJ).toArray), ("duration_nanos", intJ m.duration_nanos),
              ("resource", Json.arr (m.resource.map kvJ).toArray), ("log_msg", optJ textJ m.log_msg)]

def resourceJ (m : PResource) : Json :=
  Json.mkObj [("attributes", Json.arr (m.attributes.map kvJ).toArray),
              ("dropped_attributes_count", intJ m.dropped_attributes_count)]

def pollJ (m : PPollRequest) : Json :=
  Json.mkObj [("ts_nanos", intJ m.ts_nanos), ("current_hash", textJ m.current_hash),
              ("resource", optJ resourceJ m.resource)]

def mdJ (md : Option Metadata) : Json :=
  optJ (fun (l : Metadata) => Json.arr (l.map (fun kv => Json.arr #[Json.str kv.1, Json.str kv.2])).toArray) md

def parseMd (j : Json) : Except String Metadata := do
  (← j.getArr?).toList.mapM (fun kv => do
    let a ← kv.getArr?
    pure (← (a[0]?.getD Json.null).getStr?, ← (a[1]?.getD Json.null).getStr?))

def parseCfg (j : Json) : Except String AuthCfg := do
  let kind ← match (getStr j "kind").toOption, fld j "custom" with
    | some "unloadable", _ => pure ProviderKind.unloadable
    | some "not_a_provider", _ => pure ProviderKind.notAProvider
    | _, .null => pure ProviderKind.basic
    | _, md => do pure (ProviderKind.custom (← parseMd md))
  pure ⟨← getOptStr j "provider", kind, ← getOptStr j "username", ← getOptStr j "password"⟩

def parseOp (j : Json) : Except String Op :=
  match j.getObjVal? "push" with
  | .ok s => do pure (.push (← parseSnapshot s))
  | .error _ => do
    let p ← j.getObjVal? "poll"
    let r := fld p "resource"
    pure (.poll (← getInt p "ts") (← parseText (fld p "hash"))
      ⟨← parseList (parsePair parseVal) (fld r "items"), ← getInt r "dropped"⟩)

def wireJ : Wire.Wire → Json
  | .polled c => Json.mkObj [("kind", "polled"), ("request", pollJ c.request), ("metadata", mdJ c.metadata)]
  | .pushed c => Json.mkObj [("kind", "pushed"), ("request", snapshotJ c.request), ("metadata", mdJ c.metadata)]
  | .dropped => Json.mkObj [("kind", "dropped")]

/-! the wire: `hex` = the bytes the real runtime produced for the same message.  `decoded` = the model's reading of
    them, `reencoded` = the model's bytes for what it read, `encoded` = the model's bytes for the CONVERTED message
    with its map entries in the order the real serialiser chose (map order is not part of the wire contract),
    `wire_roundtrip` = the model decodes its own bytes to the message it encoded. -/
def reorderLike {α β} (like : List (Text × β)) (kvs : List (Text × α)) : List (Text × α) :=
  let hit := like.filterMap (fun kb => kvs.find? (fun kv => kv.1 == kb.1))
  hit ++ kvs.filter (fun kv => !(like.any (fun kb => kb.1 == kv.1)))

def hexOf (j : Json) : Option Bytes := ((j.getObjVal? "hex").toOption.bind (fun h => h.getStr?.toOption)).map ofHex

def snapshotWire (m : Option PSnapshot) (bs : Bytes) : List (String × Json) :=
  let dec := decSnapshot bs
  let enc := match m with
    | none => Json.null
    | some msg =>
      let msg' := match dec with
        | some d => { msg with var_lookup := reorderLike d.var_lookup msg.var_lookup,
                               tracepoint := msg.tracepoint.map (fun tp =>
                                 { tp with args := reorderLike ((d.tracepoint.map (·.args)).getD []) tp.args }) }
        | none => msg
      Json.str (toHex (encRecs (encSnapshot msg')))
  let rt := match m with
    | none => Json.null
    | some msg => Json.bool (((decSnapshot (encRecs (encSnapshot msg))).map (fun d => (snapshotJ d).compress))
                              == some (snapshotJ msg).compress)
  [("decoded", optJ snapshotJ dec), ("reencoded", optJ (fun d => Json.str (toHex (encRecs (encSnapshot d)))) dec),
   ("encoded", enc), ("wire_roundtrip", rt)]

def handle (j : Json) : Except String Json := do
  let op ← getStr j "op"
  match op with
  | "lineno" =>
    let l ← getInt j "location_line"
    let n := configuredLineNo l
    pure (Json.mkObj [("line_no", toJson n), ("function_location_line", toJson functionLocationLine),
                      ("accepted", Json.bool (inU32 n))])
  | "decode" =>
    -- bytes no encoder of ours produced (unknown fields, repeated singular fields, truncation, bad UTF-8, …)
    let bs := (hexOf j).getD []
    match (← getStr j "type") with
    | "Snapshot" => pure (Json.mkObj [("decoded", optJ snapshotJ (decSnapshot bs))])
    | "KeyValue" => pure (Json.mkObj [("decoded", optJ kvJ (decKeyValue bs))])
    | "PollRequest" => pure (Json.mkObj [("decoded", optJ pollJ (decPollRequest bs))])
    | t => throw s!"unknown message type {t}"
  | "convert" =>
    let s ← parseSnapshot (← j.getObjVal? "snapshot")
    let m := convertSnapshot s
    let wire := match hexOf j with
      | some bs => snapshotWire m bs
      | none => []
    let back := match m with
      | some msg => decide ((snapshotJ (convertSnapshotRaw (projectSnapshot msg))).compress = (snapshotJ msg).compress)
      | none => false
    pure (Json.mkObj ([("msg", optJ snapshotJ m), ("reads_back", Json.bool back),
      ("collectable", Json.bool s.collectable), ("textOk", Json.bool s.textOk),
      ("intsFit", Json.bool s.intsFit)] ++ wire))
  | "value" =>
    let v ← parseVal (← j.getObjVal? "v")
    let a := convert_value v
    let kv : PKeyValue := { key := Text.ofString "k", value := a }
    let wire := match hexOf j with
      | some bs =>
        let dec := decKeyValue bs
        [("decoded", optJ kvJ dec), ("reencoded", optJ (fun d => Json.str (toHex (encRecs (encKeyValue d)))) dec),
         ("encoded", Json.str (toHex (encRecs (encKeyValue kv)))),
         ("wire_roundtrip", Json.bool (((decKeyValue (encRecs (encKeyValue kv))).map (fun d => (kvJ d).compress))
                                        == some (kvJ kv).compress))]
      | none => []
    pure (Json.mkObj ([("any", anyJ a), ("accepts", Json.bool a.accepts), ("holdable", Json.bool v.holdable)] ++ wire))
  | "auth" =>
    let c ← parseCfg (← j.getObjVal? "cfg")
    let ops ← (← getArr j "ops").toList.mapM parseOp
    let k := (getNat j "fail_first").toOption.getD 0
    -- the bytes the real channel serialised for each operation (null: nothing was sent): decoded and re-encoded
    let hexes := ((j.getObjVal? "hex").toOption.bind (fun h => h.getArr?.toOption)).map (·.toList) |>.getD []
    let bytesJ := (ops.zip hexes).map (fun (op, h) =>
      match h.getStr?.toOption with
      | none => Json.null
      | some hx =>
        let bs := ofHex hx
        match op with
        | .poll .. =>
          let d := decPollRequest bs
          Json.mkObj [("decoded", optJ pollJ d), ("reencoded", optJ (fun m => Json.str (toHex (encRecs (encPollRequest m)))) d)]
        | .push _ =>
          let d := decSnapshot bs
          Json.mkObj [("decoded", optJ snapshotJ d), ("reencoded", optJ (fun m => Json.str (toHex (encRecs (encSnapshot m)))) d)])
    pure (Json.mkObj [("wire", Json.arr ((runCfg c (fun i => decide (i < k)) ⟨none, 0⟩ ops).map wireJ).toArray),
                      ("expected", mdJ (some (expectedMetadata c))), ("bytes", Json.arr bytesJ.toArray)])
  | "auth_conc" =>
    let c ← parseCfg (← j.getObjVal? "cfg")
    let n ← getNat j "threads"
    let sched ← (← getArr j "sched").toList.mapM (fun t => t.getNat?)
    pure (Json.mkObj [("sent", Json.arr ((crun c n sched).sent.map (fun md => mdJ (some md))).toArray)])
  | _ => throw s!"unknown op {op}"

def main : IO Unit := serve handle
