import DeepModel.Driver.TraceIO
import DeepModel.Driver.LocIO
def handleC03 (j : Lean.Json) : Except String Lean.Json :=
  match Proto.getStr j "op" with
  | .ok "loc" => LocIO.handle j
  | _ => TraceIO.handle j
def main : IO Unit := Proto.serve handleC03
