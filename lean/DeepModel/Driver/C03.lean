import DeepModel.Driver.TraceIO
def main : IO Unit := Proto.serve TraceIO.handle
