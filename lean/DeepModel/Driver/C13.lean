import DeepModel.Driver.ConfigSvcCommon

def main : IO Unit := Proto.serve ConfigSvcDriver.handle
