import DeepModel.Driver.Proto
import DeepModel.Model.Config
open Lean Proto Cfg Extracted.Config Config

partial def pCVal (j : Json) : Except String CVal :=
  match j with
  | .null => pure .none
  | _ =>
    match j.getObjVal? "s" with
    | .ok v => do pure (.str (← v.getStr?))
    | .error _ =>
    match j.getObjVal? "i" with
    | .ok v => do pure (.int (← v.getInt?))
    | .error _ =>
    match j.getObjVal? "b" with
    | .ok v => do pure (.bool (← v.getBool?))
    | .error _ =>
    match j.getObjVal? "f" with
    | .ok v => do pure (.float (← v.getStr?))
    | .error _ =>
    match j.getObjVal? "l" with
    | .ok v => do pure (.list (← (← v.getArr?).toList.mapM pCVal))
    | .error _ =>
    match j.getObjVal? "call" with
    | .ok v => do pure (.callable (← pCVal v))
    | .error _ => do pure (.other (← getStr j "o"))

partial def jCVal : CVal → Json
  | .none => Json.null
  | .str s => Json.mkObj [("s", s)]
  | .int i => Json.mkObj [("i", toJson i)]
  | .bool b => Json.mkObj [("b", b)]
  | .float r => Json.mkObj [("f", r)]
  | .list xs => Json.mkObj [("l", Json.arr (xs.map jCVal).toArray)]
  | .callable r => Json.mkObj [("call", jCVal r)]
  | .other t => Json.mkObj [("o", t)]

def pPairs (j : Json) (k : String) : Except String (List (String × Json)) := do
  (← getArr j k).toList.mapM (fun p => do
    match (← p.getArr?).toList with
    | [a, b] => pure (← a.getStr?, b)
    | _ => throw "pair expected")

def pWorld (j : Json) : Except String World := do
  let custom ← (← pPairs j "custom").mapM (fun (k, v) => do pure (k, ← pCVal v))
  let env ← (← pPairs j "env").mapM (fun (k, v) => do pure (k, ← v.getStr?))
  let px ← getStr j "px"
  let w : World := ⟨custom, env, px⟩
  match j.getObjVal? "start" with
  | .ok (.bool true) => pure (w.started (← getStr j "calc"))
  | _ => pure w

def jFrame (r : Option (Bool × Option String)) (s : Option (String × Bool)) : Json :=
  match r, s with
  | some (app, m), some (short, app2) =>
    Json.mkObj [("app", app), ("match", optStr m), ("short", short), ("short_app", app2)]
  | _, _ => Json.mkObj [("raised", true)]

def jDec : Option Dec → Json
  | some d => Json.mkObj [("mant", toJson d.mant), ("scale", toJson d.scale)]
  | none => Json.null

def jOptBool : Option Bool → Json
  | some b => Json.bool b
  | none => Json.null

def jUse : Option Use → Json
  | none => Json.null
  | some (.text s) => Json.mkObj [("text", s)]
  | some .unset => Json.mkObj [("unset", true)]
  | some (.flag b) => Json.mkObj [("flag", b)]
  | some (.seconds d) => Json.mkObj [("seconds", jDec (some d))]
  | some (.prefixes ps) => Json.mkObj [("prefixes", Json.arr (ps.map Json.str).toArray)]
  | some .fails => Json.mkObj [("fails", true)]
  | some .unmodelled => Json.mkObj [("unmodelled", true)]

def handleFrame (j : Json) : Except String Json := do
  let w ← pWorld j
  let files ← (← getArr j "files").toList.mapM (·.getStr?)
  pure (Json.mkObj [("frames", Json.arr (files.map (fun f => jFrame (w.appFrame f) (w.shortName f))).toArray),
                    ("root", jCVal (w.get "APP_ROOT"))])

def handle (j : Json) : Except String Json := do
  match (← getStr j "kind") with
  | "use" =>
    -- one documented setting at its use site, given in code (native value) and as DEEP_<key> text
    let k ← getStr j "key"
    let t ← getStr j "text"
    let v ← pCVal (← j.getObjVal? "native")
    let px ← getStr j "px"
    let env ← (← pPairs j "env").mapM (fun (k, v) => do pure (k, ← v.getStr?))
    -- "both": the native value in code AND another text in DEEP_<key> (the code value must decide)
    let t2 := (← getOptStr j "text2").getD t
    pure (Json.mkObj [("code", jUse ((World.mk [(k, v)] env px).use k)),
                      ("env", jUse ((World.mk [] (("DEEP_" ++ k, t) :: env) px).use k)),
                      ("both", jUse ((World.mk [(k, v)] (("DEEP_" ++ k, t2) :: env) px).use k))])
  | "frameseq" =>
    -- configurations used one after the other in one process: each is judged on its own (the model has no state)
    let rs ← (← getArr j "steps").toList.mapM handleFrame
    pure (Json.mkObj [("steps", Json.arr rs.toArray)])
  | "lookup" =>
    let w ← pWorld j
    let names ← (← getArr j "names").toList.mapM (·.getStr?)
    let files ← match j.getObjVal? "files" with
      | .ok (.arr a) => a.toList.mapM (·.getStr?)
      | _ => pure []
    let probes ← match j.getObjVal? "plugin_probes" with
      | .ok (.arr a) => a.toList.mapM (·.getStr?)
      | _ => pure []
    pure (Json.mkObj [("values", Json.arr (names.map (fun n => jCVal (w.get n))).toArray),
                      ("frames", Json.arr (files.map (fun f => jFrame (w.appFrame f) (w.shortName f))).toArray),
                      ("secure", jOptBool w.secure),
                      ("active", Json.arr (probes.map (fun n => jOptBool (w.pluginActive n))).toArray),
                      ("interval", jDec (pollInterval (w.get "POLL_TIMER")))])
  | "frame" =>
    let w ← pWorld j
    let files ← (← getArr j "files").toList.mapM (·.getStr?)
    pure (Json.mkObj [("frames", Json.arr (files.map (fun f => jFrame (w.appFrame f) (w.shortName f))).toArray),
                      ("root", jCVal (w.get "APP_ROOT"))])
  | "paths" =>
    let incl ← (← getArr j "incl").toList.mapM (·.getStr?)
    let excl ← (← getArr j "excl").toList.mapM (·.getStr?)
    let root ← getStr j "root"
    let files ← (← getArr j "files").toList.mapM (·.getStr?)
    pure (Json.mkObj [("frames", Json.arr (files.map (fun f =>
      jFrame (some (isAppFrame incl excl root f)) (some (parseShortName (isAppFrame incl excl root) f)))).toArray)])
  | "ga" =>
    -- the translated `__getattribute__` itself, on an object whose `self.__custom` may be `None`
    let env ← (← pPairs j "env").mapM (fun (k, v) => do pure (k, ← v.getStr?))
    let px ← getStr j "px"
    let custom ← match j.getObjVal? "custom" with
      | .ok .null => pure none
      | _ => do pure (some (← (← pPairs j "custom").mapM (fun (k, v) => do pure (k, ← pCVal v))))
    let names ← (← getArr j "names").toList.mapM (·.getStr?)
    -- own attribute lookups that fail: {"names": [...], "kind": "attr" | "other"} (getters raising)
    let own : String → OwnOut ← match j.getObjVal? "own_fault" with
      | .ok (.obj _) => do
        let f ← j.getObjVal? "own_fault"
        let bad ← (← getArr f "names").toList.mapM (·.getStr?)
        let out := if (← getStr f "kind") == "attr" then OwnOut.attributeError else OwnOut.raises
        pure (fun n => if bad.contains n then out else ownStatic n)
      | _ => pure ownStatic
    pure (Json.mkObj [("values", Json.arr (names.map (fun n => jCVal (getAttribute own custom env px n))).toArray)])
  | "interval" =>
    let w ← pWorld j
    let v := w.get "POLL_TIMER"
    pure (Json.mkObj [("value", jCVal v), ("interval", jDec (pollInterval v))])
  | k => throw s!"unknown kind {k}"

def main : IO Unit := serve handle
