/- JSON glue for the poll-thread machine (Model/C12Timer.lean): a request with an `evs` list runs `C12Timer.stepPT`
   and reports the thread after every event; any other request goes to the configuration machine's driver.
   I/O glue only — no theorem depends on it. -/
import DeepModel.Driver.ConfigSvcCommon
import DeepModel.Model.C12Timer
open Lean Proto ConfigSvc Extracted.ConfigSvc

namespace C12TimerDriver
open C12Timer

def parseEv (j : Json) : Except String Ev := do
  let ev ← getStr j "ev"
  match ev with
  | "tick" =>
    let out ← getStr j "out"
    let tps ← (← getArr j "tps").toList.mapM ConfigSvcDriver.parseRaw
    match out with
    | "raises" => pure (.tick (.raises (if (← getBool j "base") then .base else .exc)) tps)
    | "before_send" => pure (.tick (.beforeSend (if (← getBool j "base") then .base else .exc)) tps)
    | "garbage" => pure (.tick .garbage tps)
    | "answer" =>
      let rt : RespType := match (← getInt j "rt") with
        | 0 => .noChange
        | 1 => .update
        | _ => .other
      pure (.tick (.answer rt (← getInt j "ts") (← getStr j "hash")) tps)
    | _ => throw s!"unknown stub outcome {out}"
  | "testFails" => pure .testFails
  | "stop" => pure .stop
  | "flush" => pure .flush
  | _ => throw s!"unknown event {ev}"

def ptJson (s : PT) : Json :=
  Json.mkObj [("alive", toJson s.alive), ("issued", toJson s.issued),
              ("sent", Json.arr (s.sent.map optStr).toArray), ("hash", optStr s.svc.hash),
              ("polled", ConfigSvcDriver.trigsJson s.svc.polled), ("queued", toJson s.svc.queued.length),
              ("handler_open", toJson s.th.isOpen),
              ("died", match s.died with
                | none => Json.null
                | some .exc => Json.str "exc"
                | some .base => Json.str "base")]

def handle (j : Json) : Except String Json := do
  match j.getObjVal? "evs" with
  | .ok _ =>
    let evs ← (← getArr j "evs").toList.mapM parseEv
    let (_, trace) := evs.foldl (fun (acc : PT × List Json) ev =>
        let s' := stepPT acc.1 ev
        (s', ptJson s' :: acc.2)) (PT.init, [])
    pure (Json.mkObj [("trace", Json.arr trace.reverse.toArray)])
  | .error _ => ConfigSvcDriver.handle j

end C12TimerDriver
