/- JSON glue shared by the C01 / C14 / C20 model drivers: run `Guard.exec` on an extracted skeleton under an
   environment described in JSON, resolve a dynamic stack.  I/O glue only — no theorem depends on it. -/
import DeepModel.Driver.Proto
import DeepModel.Model.Guard
import DeepModel.Extracted.Guards

namespace GuardRun
open Lean Proto Guard

def contains (s sub : String) : Bool := sub.isEmpty || (s.splitOn sub).length > 1

def exnOf (s : String) : Except String Py.Exn :=
  match s with
  | "exc" => pure .exc
  | "base" => pure .base
  | _ => throw s!"unknown exception class {s}"

def exnStr : Py.Exn → String
  | .exc => "exc"
  | .base => "base"

/-- a skeleton by name: a key of `Extracted.Guards.prog`, or "traceCallFull" -/
def skeleton (name : String) : Except String Stmt :=
  if name == "traceCallFull" then pure Extracted.Guards.traceCallFull
  else match Extracted.Guards.prog.get name with
    | some s => pure s
    | none => throw s!"no skeleton {name}"

structure FaultSpec where
  site : String            -- substring of the call site
  loop : Option String     -- … while this loop …
  iter : Option Nat        -- … is in this iteration
  nth : Option Nat         -- … and this is the n-th (0-based) execution of a matching call
  cls : Py.Exn

def currentIter (tr : Trace) (id : String) : Option Nat :=
  tr.findSome? (fun ev => match ev with | .iter id' i => if id' == id then some i else none | _ => none)

def countCalls (tr : Trace) (sub : String) : Nat :=
  (tr.filter (fun ev => match ev with | .call s _ => contains s sub | _ => false)).length

def FaultSpec.hits (f : FaultSpec) (tr : Trace) (site : String) : Bool :=
  contains site f.site &&
  (match f.loop, f.iter with
   | some l, some i => currentIter tr l == some i
   | _, _ => true) &&
  (match f.nth with
   | some n => countCalls tr f.site == n
   | none => true)

def parseFault (j : Json) : Except String FaultSpec := do
  let site ← getStr j "site"
  let loop ← getOptStr j "loop"
  let iter := match j.getObjVal? "iter" with | .ok v => v.getNat?.toOption | .error _ => none
  let nth := match j.getObjVal? "nth" with | .ok v => v.getNat?.toOption | .error _ => none
  let cls ← exnOf (← getStr j "cls")
  pure ⟨site, loop, iter, nth, cls⟩

def objPairs (j : Json) (k : String) : List (String × Json) :=
  match j.getObjVal? k with
  | .ok (.obj kvs) => kvs.toList
  | _ => []

/-- `lastId` / `firstSite`: what the placeholders "<last>" (loop id) and "<first>" (call site) stand for -/
def mkEnv (j : Json) (lastId : String := "<last>") (firstSite : String := "<first>") : Except String Env := do
  let sub (s : String) : String := if s == "<last>" then lastId else if s == "<first>" then firstSite else s
  let faults ← (match j.getObjVal? "faults" with
    | .ok (.arr a) => a.toList.mapM parseFault
    | _ => pure [])
  let faults := faults.map (fun f => { f with site := sub f.site, loop := f.loop.map sub })
  let iters := (objPairs j "iters").filterMap (fun (k, v) => v.getNat?.toOption.map (fun n => (sub k, n)))
  let dIters := (j.getObjVal? "default_iters" >>= (·.getNat?)).toOption.getD 0
  let conds := (objPairs j "conds").filterMap (fun (k, v) => v.getBool?.toOption.map (fun b => (k, b)))
  let dCond := (j.getObjVal? "default_cond" >>= (·.getBool?)).toOption.getD true
  pure { fault := fun tr site => (faults.find? (fun f => f.hits tr site)).map (·.cls),
         iters := fun _ id => ((iters.find? (fun p => p.1 == id)).map (·.2)).getD dIters,
         cond := fun _ c => ((conds.find? (fun p => p.1 == c)).map (·.2)).getD dCond,
         catches := fun _ _ => false }

def firstCallOf : Stmt → Option String
  | .call s => some s
  | .seq a _ => firstCallOf a
  | .tryExcept b _ _ _ => firstCallOf b
  | .tryFinally b _ => firstCallOf b
  | .scope _ b => firstCallOf b
  | _ => none

def evJson : Ev → Json
  | .call s f => Json.mkObj [("ev", "call"), ("site", Json.str s),
      ("fault", match f with | some e => Json.str (exnStr e) | none => Json.null)]
  | .iter id i => Json.mkObj [("ev", "iter"), ("id", Json.str id), ("i", toJson i)]
  | .took c b => Json.mkObj [("ev", "took"), ("cond", Json.str c), ("b", toJson b)]
  | .caught h e => Json.mkObj [("ev", "caught"), ("hid", Json.str h), ("cls", Json.str (exnStr e))]
  | .set f v => Json.mkObj [("ev", "set"), ("field", Json.str f), ("value", Json.str v)]

def outStr : Out → String
  | .normal => "normal"
  | .returned v => "returned:" ++ v
  | .broke => "broke"
  | .continued => "continued"
  | .raised e => "raised:" ++ exnStr e

/-- {"op":"exec","fn":name,"loop":id?,…env…} — run the skeleton (or only its loop `id`; "<last>" = the last loop
    in source order) from the empty trace -/
def handleExec (j : Json) : Except String Json := do
  let s ← skeleton (← getStr j "fn")
  let (s, lastId, firstSite) ← (match (← getOptStr j "loop") with
    | some "<last>" => match lastLoop s with
      | some (id, b) => pure (Stmt.loop id b, id, (firstCallOf b).getD "<first>")
      | none => throw "no loop"
    | some id => match findLoop id s with
      | some b => pure (Stmt.loop id b, id, (firstCallOf b).getD "<first>")
      | none => throw s!"no loop {id}"
    | none => pure (s, ((lastLoop s).map (·.1)).getD "<last>", "<first>"))
  let env ← mkEnv j lastId firstSite
  let (o, tr) := exec env s []
  pure (Json.mkObj [("out", Json.str (outStr o)), ("trace", Json.arr (tr.reverse.map evJson).toArray),
                    ("loop", Json.str lastId), ("first", Json.str firstSite),
                    ("mayRaise", Json.mkObj [("exc", toJson (mayRaise s).exc), ("base", toJson (mayRaise s).base)])])

/-- {"op":"resolve","cls":c,"stack":[[fn,site],…]} innermost frame first -/
def handleResolve (j : Json) : Except String Json := do
  let e ← exnOf (← getStr j "cls")
  let stack ← (← getArr j "stack").toList.mapM (fun fr => do
    let a ← fr.getArr?
    match a.toList with
    | [f, s] => pure ((← f.getStr?), (← s.getStr?))
    | _ => throw "stack frame must be [fn, site]")
  pure (match resolve Extracted.Guards.prog e stack with
    | .caughtIn fn hid => Json.mkObj [("verdict", "caught"), ("fn", Json.str fn), ("hid", Json.str hid)]
    | .maybeIn fn hid => Json.mkObj [("verdict", "maybe"), ("fn", Json.str fn), ("hid", Json.str hid)]
    | .unknownSite fn site => Json.mkObj [("verdict", "unknown-site"), ("fn", Json.str fn), ("site", Json.str site)]
    | .escaped e' => Json.mkObj [("verdict", "escaped"), ("cls", Json.str (exnStr e'))])

/-! ### resolution by call text (when line:col ids of the current source and of the model differ) -/

/-- "157:26-157:93 TriggerContext" ↦ "TriggerContext" -/
def textOf (site : String) : String :=
  match site.splitOn " " with
  | _ :: rest => " ".intercalate rest
  | [] => site

def mapSites (f : String → String) : Stmt → Stmt
  | .call s => .call (f s)
  | .seq a b => .seq (mapSites f a) (mapSites f b)
  | .branch c a b => .branch c (mapSites f a) (mapSites f b)
  | .loop id b => .loop id (mapSites f b)
  | .tryExcept b c h hd => .tryExcept (mapSites f b) c h (mapSites f hd)
  | .tryFinally b fin => .tryFinally (mapSites f b) (mapSites f fin)
  | .scope n b => .scope n (mapSites f b)
  | s => s

/-- "pending.at_location" ↦ "at_location": survives the renaming of a local -/
def lastComp (text : String) : String := (text.splitOn ".").getLast?.getD text

/-- resolve by full call text; failing that by the method name, when exactly one call of the function has it -/
def catchByText (text : String) (e : Py.Exn) (s : Stmt) : Option Res :=
  let byText := mapSites textOf s
  if ((sites byText).filter (· == text)).length > 1 then some (.maybe "ambiguous call text" e) else
  match catchAt text e byText with
  | some r => some r
  | none =>
    let short := mapSites (fun x => lastComp (textOf x)) s
    if ((sites short).filter (· == lastComp text)).length == 1 then catchAt (lastComp text) e short else none

def templateOf (fn hid : String) : String :=
  ((Extracted.Guards.handlerTemplates.find? (fun r => r.1 == fn && r.2.1 == hid)).map (·.2.2)).getD ""

/-- a representative call of each top-level phase of trace_call, in the inlined skeleton -/
def regionSite : String → String
  | "action" => "ctx.can_trigger"
  | "match" => "trigger.at_location"
  | "results" => "result.process"
  | "callbacks" => "context.at_location"
  | _ => "self.location_from_event"

def inlinedFns : List String :=
  ["TriggerHandler.trace_call", "TriggerHandler.__trace_call", "TriggerHandler.__actions_for_location",
   "TriggerContext.__exit__", "TriggerHandler.__process_call_backs", "CallbackContext.process", "ActionContext.process"]

/-- template of a handler of the inlined trace_call (handler ids are line based; the function is one of those
    inlined) -/
def fullTemplate (hid : String) : String :=
  ((Extracted.Guards.handlerTemplates.find? (fun r => r.2.1 == hid && inlinedFns.any (fun f => r.1.endsWith f))).map
    (·.2.2)).getD ""

/-- where a failure of class `e` at the call with this text ends up in the inlined trace_call; none = no such call -/
def viaFull (text : String) (e : Py.Exn) : Option Json :=
  match catchByText text e Extracted.Guards.traceCallFull with
  | some (.caught hid) => some (Json.mkObj [("verdict", "caught"), ("level", "inlined"), ("template", Json.str (fullTemplate hid))])
  | some (.escapes e') => some (Json.mkObj [("verdict", "escaped"), ("cls", Json.str (exnStr e'))])
  | some (.maybe _ _) => some (Json.mkObj [("verdict", "maybe")])
  | none =>
    -- a call that the inlined skeleton replaced by the callee's body: look in the handler's own functions
    (Extracted.Guards.prog.filter (fun p => inlinedFns.any (fun f => p.1.endsWith f))).findSome? (fun p =>
      match catchAt text e (mapSites textOf p.2) with
      | some (.caught hid) =>
        some (Json.mkObj [("verdict", "caught"), ("level", "function"), ("template", Json.str (templateOf p.1 hid))])
      | _ => none)

/-- which handler of the inlined trace_call catches a failure of class `e` in this phase -/
def regionVerdict (region : String) (e : Py.Exn) : Json :=
  (viaFull (regionSite region) e).getD (Json.mkObj [("verdict", "maybe")])

/-- {"op":"resolve_text","cls":c,"region":r,"stack":[[fn,text],…]}: resolve through the frames the model knows by
    the TEXT of the call; a frame of a function (or at a call) the model does not know is looked up by its call text
    in the inlined trace_call (helpers carved out of it keep their calls); failing that, answer for the phase of
    trace_call the fault is in -/
def handleResolveText (j : Json) : Except String Json := do
  let e ← exnOf (← getStr j "cls")
  let region ← getStr j "region"
  let stack ← (← getArr j "stack").toList.mapM (fun fr => do
    let a ← fr.getArr?
    match a.toList with
    | [f, s] => pure ((← f.getStr?), (← s.getStr?))
    | _ => throw "stack frame must be [fn, text]")
  let rec go (e : Py.Exn) : List (String × String × Bool) → Json
    | [] => regionVerdict region e
    | (fn, text, hasTry) :: outer =>
      match Extracted.Guards.prog.get fn with
      | none =>
        -- unknown to the model: without a `try` it is transparent; with one, place its call in the inlined skeleton
        if hasTry then (viaFull text e).getD (regionVerdict region e) else go e outer
      | some s =>
        match catchByText text e s with
        | none => (viaFull text e).getD (regionVerdict region e)
        | some (.caught hid) =>
          Json.mkObj [("verdict", "caught"), ("level", "frame"), ("fn", Json.str fn), ("template", Json.str (templateOf fn hid))]
        | some (.maybe _ _) => Json.mkObj [("verdict", "maybe")]
        | some (.escapes e') => go e' outer
  let hasTry := (objPairs j "has_try").filterMap (fun (k, v) => v.getBool?.toOption.map (fun b => (k, b)))
  pure (go e (stack.map (fun (f, t) => (f, t, ((hasTry.find? (fun p => p.1 == f)).map (·.2)).getD false))))

end GuardRun
