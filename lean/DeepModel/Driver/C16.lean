import DeepModel.Driver.ExprProto
import DeepModel.Model.Template
open Lean Proto ExprProto Template Extracted.Expr

def errName : Err → String
  | .parse => "parse" | .numbering => "numbering" | .conversion => "conversion" | .spec => "spec"
  | .unsupported => "unsupported" | .recursion => "recursion" | .tooWide => "tooWide"

def argName : LogArg → String
  | .msg => "log_msg" | .tpId => "tp_id" | .ctxId => "ctx_id"

def segJson : Seg → Json
  | .lit s => Json.arr #[Json.str "lit", Json.str (String.ofList s)]
  | .field n c s => Json.arr #[Json.str "field", Json.str (String.ofList n),
      (match c with | none => Json.null | some ch => Json.str (String.ofList [ch])), Json.str (String.ofList s)]

def renderResp (ev : String → Extracted.Expr.Outcome) (tpl : String) (collect : Bool) (lg : LoggerObj := .plain) : Json :=
  let eff := logActionWith lg ev tpl "<tp>" "<ctx>" collect
  let rendered : Json := match render ev tpl with
    | .ok r => Json.mkObj [("msg", Json.str r.msg), ("watches", strs r.watches)]
    | .error e => Json.mkObj [("err", Json.str (errName e))]
  Json.mkObj [
    ("rendered", rendered),
    ("logger", Json.arr (eff.logger.map (fun call =>
        Json.arr (call.map (fun (a, v) => Json.arr #[Json.str (argName a), Json.str v])).toArray)).toArray),
    ("snapLog", optStrJ eff.snapLog), ("snapWatches", strs eff.snapWatches), ("snapshots", toJson eff.snapshots),
    ("defaultLine", match render ev tpl with
      | .ok r => Json.str (defaultLogLine r.msg "<tp>" "<ctx>")
      | .error _ => Json.null)]

def resJson (r : Nat × ResKind) : Json :=
  Json.arr #[toJson r.1, Json.str (match r.2 with | .logMsg => "log" | .push => "push")]

def handleResults (j : Json) : Except String Json := do
  let tps ← (← getArr j "tps").toList.mapM (fun t => do
    match (← t.getStr?) with
    | "snap" => pure TpKind.snap
    | "log" => pure TpKind.log
    | "snaplog" => pure TpKind.snapLog
    | k => throw s!"unknown tracepoint kind {k}")
  let fl ← (← getArr j "fails").toList.mapM (fun f => do
    let a ← f.getArr?
    let i ← (a[0]!).getNat?
    let k ← (a[1]!).getStr?
    pure (i, if k == "log" then ResKind.logMsg else ResKind.push))
  let fails : Nat × ResKind → Bool := fun r => fl.contains r
  pure (Json.mkObj [("delivered", Json.arr ((delivered tps fails).map resJson).toArray)])

def handle (j : Json) : Except String Json := do
  let op ← getStr j "op"
  if op == "results" then return (← handleResults j)
  let tpl ← getStr j "tpl"
  match op with
  | "parse" =>
    match parse tpl with
    | .ok segs => pure (Json.mkObj [("segs", Json.arr (segs.map segJson).toArray)])
    | .error e => pure (Json.mkObj [("err", Json.str (errName e))])
  | "render" =>
    let ev ← parseOracle j "oracle"
    let lg : LoggerObj := match (getOptStr j "logger").toOption.join with
      | some "absent" => .absent | some "falsy" => .falsy | _ => .plain
    pure (renderResp ev tpl (← getBool j "collect") lg)
  | "renderN" =>
    -- several hits of one tracepoint, each with its own frame: no state is shared between them
    let collect ← getBool j "collect"
    let rs ← (← getArr j "threads").toList.mapM (fun t => do
      let ev ← parseOracle t "oracle"
      pure (renderResp ev tpl collect))
    pure (Json.mkObj [("threads", Json.arr rs.toArray)])
  | _ => throw s!"unknown op {op}"

def main : IO Unit := serve handle
