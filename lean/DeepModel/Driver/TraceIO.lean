/- JSON glue shared by the C03 and C15 model drivers: parse tracepoints / event streams / invocation trees, run
   `Trigger.run` / `Trigger.runG`, encode effects.  I/O glue only — no theorem depends on it. -/
import DeepModel.Driver.Proto
import DeepModel.Model.Trigger
import DeepModel.Model.HandlerTL
import DeepModel.Model.CallbacksW

namespace TraceIO
open Lean Proto Callbacks Trigger

def parseKind (s : String) : Except String Kind :=
  match s with
  | "snapshot" => pure .snapshot
  | "log" => pure .log
  | "metric" => pure .metric
  | "span" => pure .span
  | "capture" => pure .capture
  | _ => throw s!"unknown action kind {s}"

def kindStr : Kind → String
  | .snapshot => "snapshot" | .log => "log" | .metric => "metric" | .span => "span" | .capture => "capture"

def parseAction (j : Json) : Except String Action := do
  pure ⟨← getNat j "tp", ← parseKind (← getStr j "kind")⟩

def parseLoc (j : Json) : Except String Loc := do
  match (← getStr j "t") with
  | "line" => pure (.line (← getStr j "path") (← getInt j "line"))
  | "func" => pure (.func (← getStr j "path") (← getStr j "name"))
  | "nosource" => pure (.nosource (← getStr j "path"))
  | "nameless" =>
    let bl ← (← getArr j "blocks").toList.mapM (fun b => do
      let a ← b.getArr?
      pure ((← a[0]!.getStr?), (← a[1]!.getInt?), (← a[2]!.getInt?)))
    pure (.nameless (← getStr j "path") bl)
  | t => throw s!"unknown location type {t}"

def parseTp (j : Json) : Except String Tp := do
  let acts ← (← getArr j "actions").toList.mapM parseAction
  pure ⟨← parseLoc (← j.getObjVal? "loc"), acts⟩

/-- event = [kind, path, line, func, frame, arg]; the index in the thread's stream is stored in the ghost field
    `inv` so that effects can be reported by event index -/
def parseEvent (idx : Nat) (j : Json) : Except String Event := do
  let a ← j.getArr?
  if a.size < 6 then throw "event needs 6 fields"
  pure ⟨← a[0]!.getStr?, ← a[1]!.getStr?, ← a[2]!.getInt?, ← a[3]!.getStr?, ← a[5]!.getInt?, ← a[4]!.getNat?, [idx], []⟩

def parseEvents (j : Json) : Except String (List Event) := do
  let a ← j.getArr?
  let rec go (i : Nat) (l : List Json) : Except String (List Event) :=
    match l with
    | [] => pure []
    | x :: xs => do
      let e ← parseEvent i x
      let r ← go (i + 1) xs
      pure (e :: r)
  go 0 a.toList

def actJson (a : Action) : Json := Json.arr #[toJson a.tp, Json.str (kindStr a.kind)]

def idxOf (ev : Event) : Json := match ev.inv with | [i] => toJson i | _ => Json.null

def effJson : Eff → Json
  | .fired a ev => Json.mkObj [("e", "f"), ("i", idxOf ev), ("a", actJson a)]
  | .opened c => Json.mkObj [("e", "o"), ("i", idxOf c.opener), ("cbs", Json.arr (c.cbs.map actJson).toArray)]
  | .closed c ev => Json.mkObj [("e", "c"), ("i", idxOf ev), ("o", idxOf c.opener),
      ("cbs", Json.arr (c.cbs.map actJson).toArray), ("arg", toJson ev.arg), ("kind", Json.str ev.kind)]

def slotJson (s : Option (List Ctx)) : Json :=
  match s with
  | none => Json.null
  | some l => Json.arr (l.map (fun c => idxOf c.opener)).toArray

/-- script entries: {"tp":n,"kind":k,"dec":[bool..]} -/
def parseScript (j : Json) : Except String (Action → List Bool) := do
  let es ← (← j.getArr?).toList.mapM (fun e => do
    let a ← parseAction e
    let d ← (← getArr e "dec").toList.mapM (fun b => b.getBool?)
    pure (a, d))
  pure (fun a => match es.find? (fun e => e.1 == a) with | some e => e.2 | none => [])

/-- interleave per-thread streams according to a schedule of thread indices (each entry consumes the next event of
    that thread); events left over are appended thread by thread -/
def interleave (streams : List (List Event)) (sched : List Nat) : List (Tid × Event) :=
  let rec go (fuel : Nat) (ss : List (List Event)) (sc : List Nat) (acc : List (Tid × Event)) : List (Tid × Event) :=
    match fuel, sc with
    | 0, _ => acc.reverse
    | _, [] => acc.reverse ++ (ss.zipIdx.flatMap (fun (s, t) => s.map (fun e => (t, e))))
    | f + 1, t :: rest =>
      match ss[t]? with
      | some (e :: es) => go f (ss.set t es) rest ((t, e) :: acc)
      | _ => go f ss rest acc
  go (sched.length + 1) streams sched []

def handleRun (j : Json) : Except String Json := do
  let resp ← (← getArr j "resp").toList.mapM parseTp
  let custom ← (← getArr j "custom").toList.mapM parseTp
  let cfg := install resp custom
  let threads ← (← getArr j "threads").toList.mapM (fun t => do
    let evs ← parseEvents (← t.getObjVal? "events")
    let script ← match t.getObjVal? "script" with
      | .ok s => parseScript s
      | .error _ => pure (fun _ => [])
    let emptyAt ← getOptInt t "empty_at"
    pure (annotate cfg script [] evs, emptyAt.map Int.toNat))
  let sched ← match j.getObjVal? "sched" with
    | .ok s => (← s.getArr?).toList.mapM (fun x => x.getNat?)
    | .error _ => pure []
  -- every thread alone; `empty_at n`: the installed tracepoint list is replaced by the empty list before event n
  let alone := threads.map (fun (evs, ea) =>
    match ea with
    | none => (runS cfg none evs).1      -- the installed triggers are state (a nameless location settles)
    | some n =>
      let r1 := run cfg none (evs.take n)
      let r2 := run [] r1.1 (evs.drop n)
      (r2.1, r1.2 ++ r2.2))
  let switched := threads.any (fun t => t.2.isSome) || cfg.any (fun t => !t.loc.named)
  let threads := threads.map (fun t => t.1)
  -- all threads interleaved
  let gs := interleave threads sched
  let g := runG cfg Store.empty gs
  let agrees := switched || (List.range threads.length).all (fun t =>
    match alone[t]? with
    | some r => decide (projEff t g.2 = r.2) && decide (g.1 t = r.1)
    | none => false)
  -- the same schedule on the handler written over the translated ThreadLocal methods, one store for all threads keyed
  -- by the thread object (Model/HandlerTL; `c15_handler_over_thread_local`, executed)
  let gt := HandlerTL.runGTL cfg TLocal.St.empty gs
  let tlAgrees := decide (gt.2 = g.2) && (List.range threads.length).all (fun t =>
    decide (gt.1.store t = HandlerTL.embSlot (g.1 t)))
  let out := alone.map (fun r => Json.mkObj [("effects", Json.arr (r.2.map effJson).toArray), ("slot", slotJson r.1)])
  pure (Json.mkObj [("threads", Json.arr out.toArray), ("global_agrees", toJson agrees),
                    ("tl_agrees", toJson tlAgrees), ("triggers", toJson cfg.length)])

/-! invocation trees: {"path","func","frame","line","body":[item..],"exit":["ret"|"raise", line, arg]},
    item = ["line", n] | ["caught", n, arg] | ["call", tree] -/
mutual
partial def parseInv (j : Json) : Except String Inv := do
  let body ← parseItems (← getArr j "body").toList
  let x ← getArr j "exit"
  let exit ← match (← x[0]!.getStr?) with
    | "ret" => pure (Exit.ret (← x[1]!.getInt?) (← x[2]!.getInt?))
    | "raise" => pure (Exit.raise (← x[1]!.getInt?) (← x[2]!.getInt?))
    | o => throw s!"unknown exit {o}"
  pure (.mk (← getStr j "path") (← getStr j "func") (← getNat j "frame") (← getInt j "line") [] body exit)
partial def parseItems (l : List Json) : Except String Items :=
  match l with
  | [] => pure .nil
  | x :: xs => do
    let a ← x.getArr?
    let rest ← parseItems xs
    match (← a[0]!.getStr?) with
    | "line" => pure (.line (← a[1]!.getInt?) [] rest)
    | "caught" => pure (.caught (← a[1]!.getInt?) (← a[2]!.getInt?) rest)
    | "call" => pure (.call (← parseInv a[1]!) rest)
    | o => throw s!"unknown item {o}"
end

def evJson (e : Event) : Json :=
  Json.arr #[Json.str e.kind, Json.str e.path, toJson e.line, Json.str e.func, toJson e.frame, toJson e.arg]

-- write the gate refusals (one list per event of the flattened tree, in event order) back into the tree
mutual
partial def decorateInv (i : Inv) (d : List (List Action)) : Inv × List (List Action) :=
  match i with
  | .mk path func frame ln _ body exit =>
    let den := d.headD []
    let (body', d1) := decorateItems body d.tail
    let d2 := match exit with | .ret _ _ => d1.tail | .raise _ _ => d1.tail.tail
    (.mk path func frame ln den body' exit, d2)
partial def decorateItems (its : Items) (d : List (List Action)) : Items × List (List Action) :=
  match its with
  | .nil => (.nil, d)
  | .line n _ rest => let (r, d1) := decorateItems rest d.tail; (.line n (d.headD []) r, d1)
  | .caught n a rest => let (r, d1) := decorateItems rest d.tail; (.caught n a r, d1)
  | .call i rest =>
    let (i', d1) := decorateInv i d
    let (r, d2) := decorateItems rest d1
    (.call i' r, d2)
end

def decorateForest : List Inv → List (List Action) → List Inv
  | [], _ => []
  | i :: is, d => let (i', d1) := decorateInv i d; i' :: decorateForest is d1

/-- flatten a forest with the model's event discipline and evaluate the two hypotheses of `c15_partial` for the
    given configuration and gate script -/
def handleForest (j : Json) : Except String Json := do
  let resp ← (← getArr j "resp").toList.mapM parseTp
  let custom ← (← getArr j "custom").toList.mapM parseTp
  let cfg := install resp custom
  let forest0 ← (← getArr j "forest").toList.mapM parseInv
  let script ← match j.getObjVal? "script" with
    | .ok s => parseScript s
    | .error _ => pure (fun _ => [])
  let ann0 := annotate cfg script [] (flattenForest forest0 0)
  -- `empty_at n`: from event n on no tracepoint is installed = the gate refuses every action at its location
  let emptyAt := (← getOptInt j "empty_at").map Int.toNat
  let ann : List Event := match emptyAt with
    | none => ann0
    | some n => ann0.zipIdx.map (fun (e, i) => if i ≥ n then { e with denied := actionsFor cfg e } else e)
  let forest := decorateForest forest0 (ann.map (fun e => e.denied))
  let evs := flattenForest forest 0
  let noClash := forest.all (fun i => i.noClashB)
  let noStack := (forest.zipIdx).all (fun (i, k) => i.noStackB (opens cfg) [k])
  let noClashW := (forest.zipIdx).all (fun (i, k) => i.noClashWB (opens cfg) [k] [])
  let r := run cfg none evs
  pure (Json.mkObj [("events", Json.arr (evs.map evJson).toArray), ("no_clash", toJson noClash),
                    ("no_stack", toJson noStack), ("no_clash_w", toJson noClashW), ("decorated_ok", toJson (decide (evs = ann))),
                    ("slot_unset", toJson r.1.isNone)])

def handle1 (j : Json) : Except String Json := do
  match (← getStr j "op") with
  | "run" => handleRun j
  | "forest" => handleForest j
  | op => throw s!"unknown op {op}"

def handle (j : Json) : Except String Json := do
  match (← getStr j "op") with
  | "batch" =>
    let rs ← (← getArr j "reqs").toList.mapM (fun r =>
      match handle1 r with
      | .ok x => pure x
      | .error e => pure (Json.mkObj [("error", Json.str e)]))
    pure (Json.mkObj [("resps", Json.arr rs.toArray)])
  | _ => handle1 j

end TraceIO
