/- JSON glue shared by the C12 and C13 model drivers: parses an op list, runs `ConfigSvc.step`, reports the state
   after every op.  I/O glue only — no theorem depends on it. -/
import DeepModel.Driver.Proto
import DeepModel.Model.ConfigSvc
open Lean Proto ConfigSvc Extracted.ConfigSvc

namespace ConfigSvcDriver

def parseTrig (j : Json) : Except String Trig := do
  pure ⟨← getStr j "path", ← getInt j "line", ← getStr j "tag"⟩

def parseRaw (j : Json) : Except String RawTp := do
  pure ⟨← parseTrig j, ← getBool j "interp", ← getBool j "conv"⟩

def parseOp (j : Json) : Except String Op := do
  let op ← getStr j "op"
  match op with
  | "poll" =>
    let tps ← (← getArr j "tps").toList.mapM parseRaw
    let rt : RespType := match (← getInt j "rt") with
      | 0 => .noChange
      | 1 => .update
      | _ => .other
    pure (.poll rt (← getInt j "ts") (← getStr j "hash") tps)
  | "pollFail" => pure (.pollFail (if (← getBool j "base") then .base else .exc))
  | "register" =>
    let ok := match j.getObjVal? "interp" with
      | .ok (Json.bool b) => b
      | _ => true
    if ok then pure (.register (← parseTrig j)) else pure .registerBad
  | "unregister" => pure (.unregister (← getNat j "handle"))
  | "taskStart" => pure (.taskStart (← getNat j "i"))
  | "taskRead" => pure (.taskRead (← getNat j "k"))
  | "taskCall" => pure (.taskCall (← getNat j "k"))
  | "taskInstall" => pure (.taskInstall (← getNat j "k"))
  | "applyTask" => pure (.applyTask (← getNat j "i"))
  | "timerStart" => pure (.timerStart (← getBool j "text"))
  | _ => throw s!"unknown op {op}"

def trigJson (t : Trig) : Json := Json.arr #[Json.str t.path, toJson t.line, Json.str t.tag]
def trigsJson (ts : List Trig) : Json := Json.arr (ts.map trigJson).toArray

def stateJson (s : St) : List (String × Json) :=
  [("hash", optStr s.svc.hash), ("queued", toJson s.svc.queued.length), ("pre", toJson s.pre.length),
   ("holding", toJson s.holding.length),
   ("installed", trigsJson s.h.installed), ("custom", trigsJson s.svc.custom), ("polled", trigsJson s.svc.polled),
   ("timer_alive", toJson s.timerAlive)]

/-- what the op shows to its caller: the hash a poll sends, the handle a register returns, whether a task
    step was taken -/
def opJson (locked : Bool) (s : St) (op : Op) : List (String × Json) :=
  match op with
  | .poll .. | .pollFail _ => [("req_hash", optStr (requestHash s.svc))]
  | .register t => [("handle", toJson (registerHandle s (some t)))]
  | .registerBad => [("handle", toJson (registerHandle s none))]
  | .taskStart _ | .taskRead _ | .applyTask _ | .taskInstall _ | .taskCall _ => [("moved", toJson (step locked s op != s))]
  | _ => []

def handle (j : Json) : Except String Json := do
  let ops ← (← getArr j "ops").toList.mapM parseOp
  let locked := match j.getObjVal? "locked" with
    | .ok (Json.bool b) => b
    | _ => applyLocked
  let (sFinal, trace) := ops.foldl (fun (acc : St × List Json) op =>
      let s' := step locked acc.1 op
      (s', Json.mkObj (opJson locked acc.1 op ++ stateJson s') :: acc.2)) (St.init, [])
  -- optional: register / unregister calls made after the task handler was closed (the refusal is a BaseException)
  let closedJs := match j.getObjVal? "closed_ops" with
    | .ok (Json.arr a) => a.toList
    | _ => []
  let closedOps ← closedJs.mapM (fun c => do
    let op ← getStr c "op"
    if op == "register" then
      let ok := match c.getObjVal? "interp" with
        | .ok (Json.bool b) => b
        | _ => true
      if ok then pure (ClosedOp.register (some (← parseTrig c))) else pure (ClosedOp.register none)
    else pure (ClosedOp.unregister (← getNat c "handle")))
  let (_, ctrace) := closedOps.foldl (fun (acc : Svc × List Json) op =>
      let raised : Bool := match op with
        | .register b => (registerClosed acc.1 b .base).2.2.isSome
        | .unregister h => (unregisterClosed acc.1 h .base).2.isSome
      let v' := closedStep .base acc.1 op
      (v', Json.mkObj [("raised", toJson raised), ("custom", trigsJson v'.custom),
                       ("custom_n", toJson v'.custom.length), ("custom_ids_n", toJson v'.customIds.length),
                       ("queued", toJson v'.queued.length), ("hash", optStr v'.hash),
                       ("polled", trigsJson v'.polled)] :: acc.2)) (sFinal.svc, [])
  pure (Json.mkObj [("trace", Json.arr trace.reverse.toArray), ("quiescent", toJson (quiescent sFinal)),
                    ("closed_trace", Json.arr ctrace.reverse.toArray),
                    ("expected", trigsJson (refRun ops).expected), ("ref_hash", optStr (refRun ops).hash)])

end ConfigSvcDriver
