import DeepModel.Driver.Proto
import DeepModel.Model.Frames
open Lean Proto Heap Collector FrameBase Extracted.Frames Frames

def probeOf {α : Type} (j : Json) (k : String) (f : Json → Except String α) : Except String (Probe α) := do
  let v ← j.getObjVal? k
  match v.getObjVal? "raises" with
  | .ok m => pure (.raises (← m.getStr?))
  | .error _ => pure (.ok (← f v))

def natList (v : Json) : Except String (List Nat) := do
  (← v.getArr?).toList.mapM (fun x => x.getNat?)

def strList (v : Json) : Except String (List String) := do
  (← v.getArr?).toList.mapM (fun x => x.getStr?)

def itemList (v : Json) : Except String (List (Key × ObjId)) := do
  (← v.getArr?).toList.mapM (fun x => do
    let a ← x.getArr?
    pure (⟨← a[0]!.getStr?, ← a[1]!.getBool?⟩, ← a[2]!.getNat?))

def parseObj (j : Json) : Except String PyObj := do
  pure { tyName := ← getStr j "ty", tyRepr := ← getStr j "tyrepr", isDictExact := ← getBool j "dict",
         str := ← getOptStr j "str", placeholder := ← getStr j "ph",
         len := ← probeOf j "len" (fun v => v.getNat?),
         dictItems := ← itemList (← j.getObjVal? "items"),
         seq := ← probeOf j "seq" natList, isExc := ← probeOf j "isexc" (fun v => v.getBool?),
         excArgs := ← probeOf j "args" natList, hasDict := ← probeOf j "hasdict" (fun v => v.getBool?),
         attrs := ← probeOf j "attrs" itemList }

def cfgVal (v : Json) : Except String CfgVal :=
  match v with
  | .null => pure .null
  | .str s => pure (.text s)
  | .arr _ => do pure (.strs (← strList v))
  | _ => do pure (.num (← v.getInt?))

def parseCfg (v : Json) : Except String Cfg := do
  (← v.getArr?).toList.mapM (fun x => do
    let a ← x.getArr?
    pure (← a[0]!.getStr?, ← cfgVal a[1]!))

def parseArgs (v : Json) : Except String Args := do
  (← v.getArr?).toList.mapM (fun x => do
    let a ← x.getArr?
    pure (← a[0]!.getStr?, ← a[1]!.getStr?))

def refJson (r : VarId) : Json :=
  Json.arr #[toJson r.vid, Json.str r.name, strs r.mods, optStr r.orig]

def entryJson (e : Entry) : Json :=
  Json.mkObj [("vid", toJson e.vid), ("type", Json.str e.ty), ("value", Json.str e.value),
              ("truncated", Json.bool e.truncated), ("children", Json.arr (e.children.map refJson).toArray)]

def watchJson (w : WatchOut) : Json :=
  Json.mkObj [("expr", Json.str w.expr),
              ("result", if w.hasResult then Json.arr #[(match w.vid with | some v => toJson v | none => Json.null),
                                                        Json.str w.expr] else Json.null),
              ("error", optStr w.error)]

def cfgValJson : CfgVal → Json
  | .text s => Json.str s
  | .null => Json.null
  | .num n => toJson n
  | .strs xs => strs xs

def frameJson (f : StackFrame VarId) : Json :=
  Json.mkObj [("file", Json.str f.file_name), ("short", Json.str f.short_path), ("func", Json.str f.method_name),
              ("line", toJson f.line_number), ("class", optStr f.class_name), ("app", Json.bool f.app_frame),
              ("vars", Json.arr (f.variables.map refJson).toArray)]

def lookupEval (tab : List (String × List Nat)) : EvalOracle := fun k e =>
  match tab.find? (fun r => r.1 == e) with
  | some r => r.2[k]?.getD 1000000000
  | none => 1000000000

def handleSnap (j : Json) : Except String Json := do
  let H : Heap := ⟨← (← getArr j "heap").toList.mapM parseObj⟩
  let config := snapshotConfig (← parseArgs (← j.getObjVal? "args")) (← strList (← j.getObjVal? "watches"))
  let config := config ++ (← parseCfg (← j.getObjVal? "limits"))
  let a ← j.getObjVal? "app"
  let app : AppCfg := ⟨← getStr a "root", ← strList (← a.getObjVal? "incl"), ← strList (← a.getObjVal? "excl")⟩
  let stack ← (← getArr j "stack").toList.mapM (fun f => do
    let cls ← (← getArr f "classes").toList.mapM (fun c => do
      let a ← c.getArr?
      pure (← a[0]!.getStr?, (match a[1]! with | .str n => some n | _ => none)))
    pure (RawFrame.mk (← getStr f "file") (← getStr f "func") (← getInt f "line") (← getNat f "locals") cls))
  let evals ← (← getArr j "evals").toList.mapM (fun r => do
    let a ← r.getArr?
    pure (← a[0]!.getStr?, ← natList a[1]!))
  match snapshot H (← getStr j "id") (← getStr j "path") (← getInt j "line") config app (fun _ => false) stack
      (lookupEval evals) with
  | .error m => pure (Json.mkObj [("failed", Json.str m)])
  | .ok s =>
    pure (Json.mkObj [
      ("tracepoint", Json.mkObj [("id", Json.str s.tracepoint.get_id), ("path", Json.str s.tracepoint.get_path),
                                 ("line", toJson s.tracepoint.get_line_no),
                                 ("args", Json.arr (s.tracepoint.get_args.map (fun kv =>
                                    Json.arr #[Json.str kv.1, cfgValJson kv.2])).toArray),
                                 ("watches", strs s.tracepoint.get_watches)]),
      ("frames", Json.arr (s.frames.map frameJson).toArray),
      ("vars", Json.arr (s.table.map entryJson).toArray),
      ("watches", Json.arr (s.watches.map watchJson).toArray)])

def handle (j : Json) : Except String Json := do
  let op ← getStr j "op"
  match op with
  | "snapshot" => handleSnap j
  | "multi" =>
    let rs ← (← getArr j "hits").toList.mapM handleSnap
    pure (Json.mkObj [("hits", Json.arr rs.toArray)])
  | _ => throw s!"unknown op {op}"

def main : IO Unit := serve handle
