import DeepModel.Driver.Proto
import DeepModel.Model.Limiter
import DeepModel.Model.LimiterTimed
import DeepModel.Model.LimiterInstall
import DeepModel.Model.LimiterInstallSvc
import DeepModel.Model.LimiterHandOver
open Lean Proto Limiter Extracted.Limiter

def parseCfg (j : Json) : Except String Cfg := do
  let fc ← getOptStr j "fire_count"
  let fp ← getOptStr j "fire_period"
  let ws := (← getOptInt j "window_start").getD 0
  let we := (← getOptInt j "window_end").getD 0
  pure ⟨fc, fp, ⟨ws, we⟩⟩

def parseOp (j : Json) : Except String Op := do
  match (← getStr j "op") with
  | "hit" => pure (.hit ⟨← getInt j "ts", ← getBool j "cond"⟩)
  | "update" => pure (.update (← getBool j "present"))
  | "no_change" => pure .noChange
  | "other_custom" => pure .otherCustom
  | "register" => pure .register
  | "unregister" => pure .unregister
  | o => throw s!"unknown operation {o}"

def handle (j : Json) : Except String Json := do
  let op ← getStr j "op"
  let cfg ← match j.getObjVal? "cfg" with
    | .ok c => parseCfg c
    | .error _ => pure ⟨none, none, ⟨0, 0⟩⟩
  match op with
  | "run" =>
    let hits ← (← getArr j "hits").toList.mapM (fun h => do
      let ts ← getInt h "ts"
      let c ← getBool h "cond"
      pure (Hit.mk ts c))
    let (st, coll) := runFrom cfg Stats.init hits
    pure (Json.mkObj [("collected", ints coll), ("count", toJson st.count), ("last", toJson st.last),
                      ("fire_count", toJson cfg.count), ("fire_period", toJson cfg.period)])
  | "runSeg" =>
    -- the tracepoint is re-sent in later UPDATE responses: one segment of hits per installation
    let segs ← (← getArr j "segs").toList.mapM (fun sj => do
      match sj with
      | Json.arr a => a.toList.mapM (fun h => do
          let ts ← getInt h "ts"
          let c ← getBool h "cond"
          pure (Hit.mk ts c))
      | _ => throw "segment is not an array")
    pure (Json.mkObj [("collected", ints (runSegments cfg segs))])
  | "runN" =>
    -- several actions at one location, each with its own configuration and statistics
    let cfgs ← (← getArr j "cfgs").toList.mapM parseCfg
    let hits ← (← getArr j "hits").toList.mapM (fun h => do
      let ts ← getInt h "ts"
      let c ← getBool h "cond"
      pure (Hit.mk ts c))
    pure (Json.mkObj [("collected", Json.arr (cfgs.map (fun c => ints (runFrom c Stats.init hits).2)).toArray)])
  | "conc" =>
    let tss ← (← getArr j "tss").toList.mapM (fun t => t.getInt?)
    let sched ← (← getArr j "sched").toList.mapM (fun t => t.getNat?)
    let r := Conc.run cfg (Conc.init tss) sched
    pure (Json.mkObj [("collected", toJson r.collected), ("count", toJson r.st.count)])
  | "concT" =>
    -- threads with their own clock value and condition outcome; collections with their time stamps
    let hits ← (← getArr j "hits").toList.mapM (fun h => do
      let ts ← getInt h "ts"
      let c ← getBool h "cond"
      pure (Hit.mk ts c))
    let sched ← (← getArr j "sched").toList.mapM (fun t => t.getNat?)
    let r := ConcT.run cfg (ConcT.init hits) sched
    pure (Json.mkObj [("collected", ints r.collectedAt.reverse), ("checked", ints (r.checked.reverse.map (·.ts))),
                      ("count", toJson r.st.count), ("last", toJson r.st.last),
                      ("mutex", Json.bool (ConcT.mutexOk cfg (ConcT.init hits) sched)), ("free", Json.bool r.free)])
  | "ops" =>
    -- one tracepoint among configuration changes: collections, and the statement's installations
    let origin ← match (← getStr j "origin") with
      | "service" => pure Origin.service
      | "code" => pure Origin.code
      | o => throw s!"unknown origin {o}"
    let ops ← (← getArr j "ops").toList.mapM parseOp
    let optInts (xs : List (Option Int)) : Json := Json.arr (xs.map (fun x => match x with | some i => toJson i | none => Json.null)).toArray
    pure (Json.mkObj [("collected", ints (runOps cfg origin ops)),
                      -- hits seen by the installed OBJECT: per the translated configuration service / per stepOp
                      ("ages_svc", optInts ((agesSvc origin World.init none 0 ops).map (·.map Int.ofNat))),
                      ("ages_model", optInts (agesModel origin none ops)),
                      ("installations", Json.arr ((installations origin ops).map (fun seg => ints (seg.map (·.ts)))).toArray)])
  | "runScale" =>
    -- a LONG history in run-length form: n hits, the k-th at time t0 + k*step, condition true; only the totals come back
    let n ← getNat j "n"
    let t0 ← getInt j "t0"
    let step ← getInt j "step"
    let hits := (List.range n).map (fun (k : Nat) => Hit.mk (t0 + (Int.ofNat k) * step) true)
    let (st, coll) := runFrom cfg Stats.init hits
    pure (Json.mkObj [("count", toJson coll.length), ("last", toJson st.last), ("stats_count", toJson st.count),
                      ("first", toJson (coll.head?.getD 0))])
  | "opsD" =>
    -- configuration operations and their hand-over to the trigger handler as separate events
    let origin ← match (← getStr j "origin") with
      | "service" => pure Origin.service
      | "code" => pure Origin.code
      | o => throw s!"unknown origin {o}"
    let ds ← (← getArr j "ops").toList.mapM (fun d => do
      if (← getStr d "op") == "applied" then pure OpD.applied else pure (OpD.op (← parseOp d)))
    pure (Json.mkObj [("collected", ints (runOpsD cfg origin ds)), ("at_once", Json.bool (atOnce ds))])
  | "opsN" =>
    -- one tracepoint with several actions (own configuration each): collections per action
    let cfgs ← (← getArr j "cfgs").toList.mapM parseCfg
    let origin ← match (← getStr j "origin") with
      | "service" => pure Origin.service
      | "code" => pure Origin.code
      | o => throw s!"unknown origin {o}"
    let ops ← (← getArr j "ops").toList.mapM parseOp
    let rows := runOpsN cfgs origin ops
    pure (Json.mkObj [("collected", Json.arr ((List.range cfgs.length).map (fun k => ints (column k rows))).toArray)])
  | "parse" =>
    pure (Json.mkObj [("fire_count", toJson cfg.count), ("fire_period", toJson cfg.period)])
  | _ => throw s!"unknown op {op}"

def main : IO Unit := serve handle
