import DeepModel.Driver.ExprProto
import DeepModel.Model.Metric
import DeepModel.Model.C17Prom
open Lean Proto ExprProto Metric Extracted.Limiter Extracted.Expr

/-! the Prometheus processor (`op = "prom"`): a sequence of plugin operations, then what a scrape shows -/
def parsePromCall (j : Json) : Except String (String × C17Prom.Args) := do
  let labels ← (← getArr j "labels").toList.mapM (fun kv => do
    match kv with
    | .arr #[.str k, .str v] => pure (k, v)
    | _ => throw "label pair")
  let value : C17Prom.Val ← match j.getObjVal? "value" with
    | .ok (.str "nan") => pure .nan
    | .ok (.str "inf") => pure (.inf false)
    | .ok (.str "-inf") => pure (.inf true)
    | .ok v => do pure (.fin (← v.getInt?))
    | .error e => throw e
  pure (← getStr j "m", ⟨← getStr j "name", labels, ← getOptStr j "ns", ← getOptStr j "help", ← getOptStr j "unit", value⟩)

def valJson : C17Prom.Val → Json
  | .fin q => toJson q
  | .nan => Json.str "nan"
  | .inf false => Json.str "inf"
  | .inf true => Json.str "-inf"

def clsName : Extracted.C17Prom.Cls → String
  | .counter => "counter" | .gauge => "gauge" | .histogram => "histogram" | .summary => "summary"

def outcomeName : C17Prom.Outcome → String
  | .ok => "ok" | .ctorRaised => "ctorRaised" | .labelsRaised => "labelsRaised" | .notObservable => "notObservable"
  | .opRaised => "opRaised"

def familyJson (kf : String × C17Prom.Family) : Json :=
  Json.mkObj [("key", Json.str kf.1), ("cls", Json.str (clsName kf.2.cls)), ("fullName", Json.str kf.2.fullName),
    ("doc", Json.str kf.2.doc), ("labelNames", strs kf.2.labelNames),
    ("children", Json.arr (kf.2.children.map (fun (lv, a) =>
      Json.arr #[strs lv, toJson a.count, valJson a.sum])).toArray)]

def promRun (calls : List (String × C17Prom.Args)) : Json :=
  let r := C17Prom.run (C17Prom.Plugin.fresh Extracted.C17Prom.foreignNames) calls
  let outs := (calls.zip r.2).map (fun (c, o) => match o with
    | none => Json.str "no-such-operation"
    | some o => Json.arr #[Json.str (outcomeName o),
        Json.bool (match Extracted.C17Prom.methods.lookup c.1 with | some m => C17Prom.propagates m o | none => false)])
  Json.mkObj [("outcomes", Json.arr outs.toArray), ("families", Json.arr (r.1.cache.map familyJson).toArray),
    ("afterClear", toJson (C17Prom.clear r.1).cache.length)]

def parseLabel (j : Json) : Except String Label := do
  pure ⟨← getStr j "key", ← getOptStr j "static", ← getOptStr j "expr"⟩

def parseDef (j : Json) : Except String MDef := do
  let labels ← (← getArr j "labels").toList.mapM parseLabel
  pure ⟨← getStr j "name", ← getStr j "type", labels, ← getOptStr j "expr", ← getOptStr j "ns",
        ← getOptStr j "help", ← getOptStr j "unit"⟩

def lvalJson : LVal → Json
  | .text s => Json.arr #[Json.str "s", Json.str s]
  | .static none => Json.arr #[Json.str "j", Json.null]
  | .static (some s) => Json.arr #[Json.str "j", Json.str s]

def argJson : ArgVal → Json
  | .str s => optStrJ s
  | .labels l => Json.arr (l.map (fun (k, v) => Json.arr #[Json.str k, lvalJson v])).toArray
  | .num v => Json.str v

def argName : MArg → String
  | .name => "name" | .labels => "labels" | .namespace => "namespace" | .namespaceRaw => "namespace"
  | .help => "help_string" | .unit => "unit" | .value => "value"

def callJson (c : Call) : Json :=
  Json.mkObj [("proc", toJson c.proc), ("op", Json.str c.op),
              ("args", Json.arr (c.args.map (fun (a, v) => Json.arr #[Json.str (argName a), argJson v])).toArray)]

def handle (j : Json) : Except String Json := do
  let op ← getStr j "op"
  match op with
  | "float" =>
    let o ← parseOutcome (← j.getObjVal? "o")
    pure (Json.mkObj [("repr", optStrJ (floatRepr o))])
  | "prom" => pure (promRun (← (← getArr j "calls").toList.mapM parsePromCall))
  | "run" =>
    let cj ← j.getObjVal? "cfg"
    let act : ActionCtx.Cfg := ⟨⟨← getOptStr cj "fire_count", ← getOptStr cj "fire_period", ⟨0, 0⟩⟩,
                                 ← getOptStr cj "condition"⟩
    let defs ← (← getArr j "defs").toList.mapM parseDef
    let procs ← (← getArr j "procs").toList.mapM (fun p => do
      pure (Proc.mk (← (← getArr p "fails").toList.mapM (fun x => x.getNat?))))
    let hits ← (← getArr j "hits").toList.mapM (fun h => do
      pure (Hit.mk ⟨← getInt h "ts", ← parseOutcome (← h.getObjVal? "cond")⟩ (← parseOracle h "oracle")))
    let (st, tr) := runFrom ⟨act, defs⟩ procs Stats.init hits
    pure (Json.mkObj [("count", toJson st.count), ("last", toJson st.last),
      ("hits", Json.arr (tr.map (fun (cs, n) =>
        Json.mkObj [("calls", Json.arr (cs.map callJson).toArray), ("evals", toJson n)])).toArray)])
  | _ => throw s!"unknown op {op}"

def main : IO Unit := serve handle
