import DeepModel.Driver.TraceIO
import DeepModel.Driver.ThreadLocalIO
import DeepModel.Driver.DeferredIO
def handleC15 (j : Lean.Json) : Except String Lean.Json :=
  match Proto.getStr j "op" with
  | .ok "tl" => ThreadLocalIO.handle j
  | .ok "cb" => DeferredIO.handle j
  | _ => TraceIO.handle j
def main : IO Unit := Proto.serve handleC15
