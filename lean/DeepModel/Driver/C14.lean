import DeepModel.Driver.GuardRun
import DeepModel.Model.LifecyclePlan
open Lean Proto GuardRun Lifecycle

def hookOf (j : Json) : Except String Hook :=
  match j with
  | .null => pure .none
  | .str "agent" => pure .agent
  | .str "none" => pure .none
  | v => do pure (.host (← v.getNat?))

def hookJson : Hook → Json
  | .none => Json.null
  | .agent => Json.str "agent"
  | .host n => toJson n

def nats (j : Json) (k : String) : Except String (List Nat) :=
  match j.getObjVal? k with
  | .ok (.arr a) => a.toList.mapM (·.getNat?)
  | _ => pure []

def parseOp (j : Json) : Except String Op := do
  match (← getStr j "op") with
  | "start" => pure .start
  | "shutdown" =>
    let pl ← nats j "plugin_faults"
    let ts ← nats j "task_faults"
    let base := (j.getObjVal? "base" >>= (·.getBool?)).toOption.getD false
    let un ← nats j "attr_unreadable"
    pure (.shutdown { plugin := fun p => pl.contains p, task := fun t => ts.contains t, pluginBase := base,
                      attrUnreadable := fun p => un.contains p })
  | "new_config" => pure (.newConfig (← nats j "cfg"))
  | "poll_tick" =>
    match (← getOptStr j "fails") with
    | none => pure (.pollTick none)
    | some c => pure (.pollTick (some (← exnOf c)))
  | "host_set" => pure (.hostSet (← hookOf (j.getObjValD "sys")) (← hookOf (j.getObjValD "thr")))
  | op => throw s!"unknown lifecycle op {op}"

def stateJson (d : Deep) (raised : Bool) : Json :=
  Json.mkObj [("sys", hookJson d.w.sysHook), ("thr", hookJson d.w.thrHook), ("started", toJson d.started),
              ("poll_alive", toJson d.pollAlive), ("pending", toJson d.pending.length),
              ("tasks_open", toJson d.tasksOpen), ("shut_calls", toJson d.shutCalls), ("armed", toJson (armed d)),
              ("raised", toJson raised)]

def primOf : String → Except String Prim
  | "load_plugins" => pure .loadPlugins
  | "resource_create" => pure .resourceCreate
  | "th_start" => pure .thStart
  | "grpc_start" => pure .grpcStart
  | "poll_start" => pure .pollStart
  | s => throw s!"unknown start step {s}"

/-- one JSON op: `noop` leaves the state, `shutdown` may first declare the sends that are pending ("tasks").
    `start` / `shutdown` run the TRANSLATED method bodies (`startF` / `shutdownX`); a `start` may name the service call
    that raises ("fails"). -/
def applyOp (d : Deep) (j : Json) : Except String (Deep × Bool) := do
  match (← getStr j "op") with
  | "noop" => pure (d, false)
  | "start" =>
    match (← getOptStr j "fails") with
    | none => pure (startF noStartFaults d)
    | some s => do
      let p ← primOf s
      pure (startF (fun q => q == p) d)
  | _ =>
    let op ← parseOp j
    let d := match op with
      | .shutdown _ => if d.started then { d with pending := (nats j "tasks").toOption.getD [] } else d
      | _ => d
    let raised := match op with | .shutdown f => (shutdownX f d).2 | _ => false
    pure (stepX d op, raised)

def handle (j : Json) : Except String Json := do
  match (← getStr j "op") with
  | "lifecycle" =>
    let i ← j.getObjVal? "init"
    let d0 := init (← hookOf (i.getObjValD "sys")) (← hookOf (i.getObjValD "thr")) (← getBool i "no_trace")
      (← nats i "plugins") (← nats i "pending")
    let ops := (← getArr j "ops").toList
    let (_, states) ← ops.foldlM (fun (acc : Deep × List Json) oj => do
      let (d, out) := acc
      let (d', raised) ← applyOp d oj
      pure (d', out ++ [stateJson d' raised])) (d0, [])
    pure (Json.mkObj [("states", Json.arr states.toArray),
      ("facts", Json.mkObj [("stepsIsolated", toJson stepsIsolated), ("flushIsolated", toJson flushIsolated),
        ("timerGuarded", toJson timerGuarded), ("startGuarded", toJson startGuarded),
        ("shutdownGuarded", toJson shutdownGuarded), ("startedSetLast", toJson startedSetLast),
        ("restartRefused", toJson restartRefused)])])
  | "handler" =>
    -- TriggerHandler.start / shutdown on their own, with the application changing its hooks in between
    let i ← j.getObjVal? "init"
    let w0 := Extracted.TH.thInit (← hookOf (i.getObjValD "sys")) (← hookOf (i.getObjValD "thr"))
    let (_, states) ← (← getArr j "ops").toList.foldlM (fun (acc : World × List Json) oj => do
      let (w, out) := acc
      let w' ← (match (← getStr oj "op") with
        | "start" => pure (Extracted.TH.thStart false w)
        | "shutdown" => pure (Extracted.TH.thShutdown w)
        | "host_set" => do
          pure { w with sysHook := (← hookOf (oj.getObjValD "sys")), thrHook := (← hookOf (oj.getObjValD "thr")) }
        | op => throw s!"unknown handler op {op}")
      pure (w', out ++ [Json.mkObj [("sys", hookJson w'.sysHook), ("thr", hookJson w'.thrHook)]])) (w0, [])
    pure (Json.mkObj [("states", Json.arr states.toArray)])
  | "exec" => handleExec j
  | op => throw s!"unknown op {op}"

def main : IO Unit := serve handle
