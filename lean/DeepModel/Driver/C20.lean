import DeepModel.Driver.GuardRun
import DeepModel.Model.Plugins
open Lean Proto GuardRun Plugins

/-- switch: null | "text" | true/false | number;  order: null | number (int or decimal fraction) | "unusable" -/
def parseSpec (j : Json) : Except String Spec := do
  let sw : Option PyVal := match j.getObjValD "switch" with
    | .str s => some (.text s)
    | .bool b => some (.bool b)
    | .num n => some (.int n.mantissa)
    | _ => none
  -- order: null (None) | "falsy" ('' / [] / {}) | {"m": int, "e": nat} = the exact number m / 10^e | number |
  --        "unusable" (raises, or a truthy non-number)
  let ord : Order := match j.getObjValD "order" with
    | .str "falsy" => .value none
    | .str _ => .unusable
    | .num n => .value (some ⟨n.mantissa, n.exponent⟩)
    | .obj _ =>
      match (j.getObjValD "order").getObjValD "m", (j.getObjValD "order").getObjValD "e" with
      | .num m, .num e => .value (some ⟨m.mantissa, e.mantissa.toNat⟩)
      | _, _ => .unusable
    | _ => .value none
  pure ⟨← getNat j "id", ← getBool j "import_ok", ← getBool j "ctor_ok", sw, ord⟩

def handleOne (j : Json) : Except String Json := do
  match (← getStr j "op") with
  | "load" =>
    let specs ← (← getArr j "specs").toList.mapM parseSpec
    pure (Json.mkObj [("loaded", Json.arr ((load specs).map (fun s => toJson s.id)).toArray),
                      ("raises", toJson (loadRaises specs))])
  | "exec" => handleExec j
  | op => throw s!"unknown op {op}"

def handle (j : Json) : Except String Json := do
  match (← getStr j "op") with
  | "batch" =>
    let rs := (← getArr j "reqs").toList.map (fun r =>
      match handleOne r with
      | .ok v => v
      | .error e => Json.mkObj [("error", Json.str e)])
    pure (Json.mkObj [("resps", Json.arr rs.toArray)])
  | _ => handleOne j

def main : IO Unit := serve handle
