import DeepModel.Driver.GuardRun
import DeepModel.Model.Plugins
open Lean Proto GuardRun Plugins

def parseSpec (j : Json) : Except String Spec := do
  pure ⟨← getNat j "id", ← getBool j "import_ok", ← getBool j "ctor_ok", ← getBool j "active",
        ← getOptInt j "order"⟩

def handleOne (j : Json) : Except String Json := do
  match (← getStr j "op") with
  | "load" =>
    let specs ← (← getArr j "specs").toList.mapM parseSpec
    pure (Json.mkObj [("loaded", Json.arr ((load specs).map (fun s => toJson s.id)).toArray)])
  | "exec" => handleExec j
  | op => throw s!"unknown op {op}"

def handle (j : Json) : Except String Json := do
  match (← getStr j "op") with
  | "batch" =>
    let rs := (← getArr j "reqs").toList.map (fun r =>
      match handleOne r with
      | .ok v => v
      | .error e => Json.mkObj [("error", Json.str e)])
    pure (Json.mkObj [("resps", Json.arr rs.toArray)])
  | _ => handleOne j

def main : IO Unit := serve handle
