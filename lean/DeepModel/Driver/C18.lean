import DeepModel.Driver.Proto
import DeepModel.Model.Resource
import DeepModel.Model.AttrConc
open Lean Proto Attr Extracted.Attributes Attributes Resource AttrConc

def pScalar (j : Json) : Except String Scalar := do
  match (← getStr j "t") with
  | "none" => pure .none
  | "bool" => pure (.bool (← getBool j "v"))
  | "str" => pure (.str (← getStr j "v"))
  | "bytes" => pure (.bytes (← getOptStr j "dec"))
  | "int" => pure (.int (← getInt j "v"))
  | "float" => pure (.float (← getStr j "r"))
  | "other" => pure (.other (← getStr j "ty"))
  | t => throw s!"scalar tag {t}"

def pVal (j : Json) : Except String Val := do
  if (← getStr j "t") == "seq" then pure (.seq (← (← getArr j "xs").toList.mapM pScalar))
  else pure (.sc (← pScalar j))

def pKey (j : Json) : Except String Key :=
  match j.getObjVal? "s" with
  | .ok v => do pure (.str (← v.getStr?))
  | .error _ => do pure (.other (← getStr j "o"))

def pKV (j : Json) : Except String (Key × Val) := do
  match (← j.getArr?).toList with
  | [k, v] => pure (← pKey k, ← pVal v)
  | _ => throw "pair expected"

def pKVs (j : Json) (k : String) : Except String (List (Key × Val)) :=
  match j.getObjVal? k with
  | .error _ => pure []
  | .ok .null => pure []
  | .ok v => do (← v.getArr?).toList.mapM pKV

def pOp (j : Json) : Except String Op := do
  match (← getStr j "op") with
  | "set" => pure (.set (← pKey (← j.getObjVal? "k")) (← pVal (← j.getObjVal? "v")))
  | "del" => pure (.del (← pKey (← j.getObjVal? "k")))
  | "merge" => pure (.mergeIn (← pKVs j "kvs"))
  | o => throw s!"op {o}"

def jScalar : Scalar → Json
  | .none => Json.mkObj [("t", "none")]
  | .bool b => Json.mkObj [("t", "bool"), ("v", b)]
  | .str s => Json.mkObj [("t", "str"), ("v", s)]
  | .bytes d => Json.mkObj [("t", "bytes"), ("dec", optStr d)]
  | .int i => Json.mkObj [("t", "int"), ("v", toJson i)]
  | .float r => Json.mkObj [("t", "float"), ("r", r)]
  | .other ty => Json.mkObj [("t", "other"), ("ty", ty)]

def jVal : Val → Json
  | .sc s => jScalar s
  | .seq xs => Json.mkObj [("t", "seq"), ("xs", Json.arr (xs.map jScalar).toArray)]

def jKey : Key → Json
  | .str s => Json.mkObj [("s", s)]
  | .other r => Json.mkObj [("o", r)]

def jDict (d : OD) : Json := Json.arr (d.map (fun e => Json.arr #[jKey e.1, jVal e.2])).toArray

def jRes (r : Res) : Json := Json.mkObj [("attrs", jDict r.attrs), ("url", r.schemaUrl)]

def pRes (j : Json) : Except String Res := do
  pure (Res.new (← pKVs j "attrs") (← getOptStr j "url"))

def handle (j : Json) : Except String Json := do
  match (← getStr j "kind") with
  | "ba" =>
    let cap := (← getOptInt j "cap").map Int.toNat
    let mvl ← getOptInt j "mvl"
    let init ← pKVs j "init"
    let imm ← getBool j "immutable"
    let ops ← (← getArr j "ops").toList.mapM pOp
    let st0 := create cap mvl init imm
    let (st, errs) := run st0 ops
    pure (Json.mkObj [("dict", jDict st.dict), ("dropped", toJson st.dropped), ("frozen", st.frozen),
                      ("dropped0", toJson st0.dropped), ("len0", toJson st0.dict.length),
                      ("errors", Json.arr (errs.map optStr).toArray)])
  | "sched" =>
    let cap := (← getOptInt j "cap").map Int.toNat
    let mvl ← getOptInt j "mvl"
    let init ← pKVs j "init"
    let imm ← getBool j "immutable"
    let ws ← (← getArr j "writers").toList.mapM pOp
    let sched ← (← getArr j "sched").toList.mapM (·.getNat?)
    let r := Conc.run (Conc.init (create cap mvl init imm) ws) sched
    pure (Json.mkObj [("dict", jDict r.st.dict), ("dropped", toJson r.st.dropped),
                      ("errors", Json.arr (r.thrs.map (fun t => optStr t.err)).toArray),
                      ("left", Json.arr (r.thrs.map (fun t => toJson (if t.err.isSome then 0 else t.rem.length))).toArray)])
  | "clean" =>
    let k ← pKey (← j.getObjVal? "k")
    let v ← pVal (← j.getObjVal? "v")
    let mvl ← getOptInt j "mvl"
    pure (Json.mkObj [("clean", jVal (cleanAttribute k v mvl))])
  | "merge" =>
    let rs ← (← getArr j "chain").toList.mapM pRes
    match rs with
    | [] => throw "empty chain"
    | r :: rest =>
      let steps := rest.foldl (fun (acc : List Res) b => acc ++ [(acc.getLast?.getD r).merge b]) [r]
      pure (Json.mkObj [("steps", Json.arr (steps.map jRes).toArray)])
  | "create" =>
    let det := detect (← getOptStr j "ra") (← getOptStr j "sn")
    let given ← pKVs j "given"
    let url ← getOptStr j "url"
    let plugins ← match j.getObjVal? "plugins" with
      | .ok (.arr a) => a.toList.mapM pRes
      | _ => pure []
    match Res.create det given url with
    | .error e => pure (Json.mkObj [("raised", e)])
    | .ok r => pure (Json.mkObj [("created", jRes r), ("final", jRes (withPlugins r plugins)),
                                 ("detected", jDict (Res.new det none).attrs)])
  | "agg" =>
    -- base null = `initial_resource=None`: `Resource.create()` under an environment without the two variables
    let base ← match j.getObjVal? "base" with
      | .ok .null => match Res.create (detect none none) [] none with
        | .ok r => pure r
        | .error e => throw e
      | .ok b => pRes b
      | .error e => throw e
    let dets ← (← getArr j "dets").toList.mapM (fun d => do
      match d.getObjVal? "ok" with
      | .ok r => do pure (DetOut.ok (← pRes r))
      | .error _ =>
        match d.getObjVal? "notResource" with
        | .ok _ => pure DetOut.notResource
        | .error _ => do pure (DetOut.fails (← getBool d "fails")))
    match aggregate base dets with
    | .error e => pure (Json.mkObj [("raised", e)])
    | .ok r => pure (Json.mkObj [("final", jRes r)])
  | k => throw s!"unknown kind {k}"

def main : IO Unit := serve handle
