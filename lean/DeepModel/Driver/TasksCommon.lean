/- JSON glue of the C09 model driver: outcome assignment + schedule in, state after every step out.
   I/O glue only — no theorem depends on it. -/
import DeepModel.Driver.Proto
import DeepModel.Model.Tasks
open Lean Proto Tasks Extracted.Tasks

namespace TasksDriver

def parseOutcome (s : String) : Except String Outcome :=
  match s with
  | "ok" => pure .ok
  | "unconvertible" => pure .unconvertible
  | "send_exc" => pure (.sendFails .exc)
  | "send_base" => pure (.sendFails .base)
  | "dies_exc" => pure (.stubFails .exc)   -- the bench fails `SnapshotServiceStub(channel)` (convert_snapshot catches Exception)
  | "dies_base" => pure (.dies .base)
  | "stub_exc" => pure (.stubFails .exc)
  | "meta_exc" => pure (.metaFails .exc)
  | _ => throw s!"unknown outcome {s}"

def parseStep (j : Json) : Except String Step := do
  let s ← getStr j "s"
  match s with
  | "push" => pure .push
  | "pushBegin" => pure .pushBegin
  | "pushRejected" => pure .pushRejected
  | "pushQueuedRaised" => pure .pushQueuedRaised
  | "pushStore" => pure (.pushStore (← getInt j "id"))
  | "flushTimeout" => pure .flushTimeout
  | "start" => pure (.start (← getInt j "id") ((← getOptInt j "w").getD 0).toNat)
  | "finish" => pure (.finish (← getInt j "id"))
  | "callback" => pure (.callback (← getInt j "id"))
  | "flushBegin" => pure .flushBegin
  | "flushWait" => pure .flushWait
  | "flushEnd" => pure .flushEnd
  | _ => throw s!"unknown step {s}"

def flushJson : Flush → Json
  | .idle => Json.str "idle"
  | .waiting _ => Json.str "waiting"
  | .returned => Json.str "returned"
  | .raised .exc => Json.str "raised_exc"
  | .raised .base => Json.str "raised_base"

def futJson : Fut → Json
  | .queued => Json.str "queued"
  | .running _ => Json.str "running"
  | .done => Json.str "done"

def stateJson (s : St) : Json :=
  Json.mkObj [("open", toJson s.th.isOpen), ("pending", ints s.th.pending), ("flush", flushJson s.flush),
              ("refused", toJson s.refused), ("caller_runs", toJson s.callerRuns),
              ("tasks", Json.arr (s.tasks.map (fun t => Json.mkObj
                [("id", toJson t.id), ("fut", futJson t.fut), ("cb", toJson t.cb), ("runs", toJson t.ranOn.length),
                 ("sends", toJson t.sends)])).toArray)]

def refusalJson : Option Refusal → Json
  | none => Json.str "accepted"
  | some (.raised .exc) => Json.str "raised_exc"
  | some (.raised .base) => Json.str "raised_base"
  | some .logged => Json.str "logged"
  | some .silent => Json.str "silent"

/-- `{"submitters": [{"func": "...", "open": bool}, …]}`: what each in-tree submitter does with a handler in that state -/
def handleSubmitters (j : Json) : Except String Json := do
  let qs ← getArr j "submitters"
  let rs ← qs.toList.mapM (fun q => do
    let fn ← getStr q "func"
    let isOpen ← getBool q "open"
    let noHandler := match q.getObjVal? "no_handler" with
      | .ok (Json.bool b) => b
      | _ => false
    let th : Option TH := if noHandler then none else some { TH.init with isOpen := isOpen }
    match submitSites.find? (fun s => s.func == fn) with
    | some site => pure (refusalJson (siteOutcome site th))
    | none => pure (Json.str "unknown-site"))
  pure (Json.mkObj [("results", Json.arr rs.toArray),
                    ("sites", Json.arr (submitSites.map (fun s => Json.str s.func)).toArray)])

def handle (j : Json) : Except String Json := do
  if (j.getObjVal? "submitters").isOk then return (← handleSubmitters j)
  let outs ← (← getArr j "outcomes").toList.mapM (fun o => do parseOutcome (← o.getStr?))
  let f : Int → Outcome := fun id => (outs[(id - 1).toNat]?).getD .ok
  let sched ← (← getArr j "sched").toList.mapM parseStep
  let eagerFlush := match j.getObjVal? "eager" with
    | .ok (Json.bool b) => b
    | _ => true
  let (sFinal, trace) := sched.foldl (fun (acc : St × List Json) st =>
      let s1 := step f acc.1 st
      let s' := if eagerFlush then eager f (s1.tasks.length + 2) s1 else s1
      (s', stateJson s' :: acc.2)) (St.init, [])
  pure (Json.mkObj [("trace", Json.arr trace.reverse.toArray), ("final", stateJson sFinal)])

end TasksDriver
