/-
  C11 — Tracepoint configuration is interpreted as documented, one tracepoint at a time.

  The functions the theorems speak about are `Extracted.TriggerTable.build_trigger`, `build_*_action`, `from_stage`,
  `convert_metric_definition` — the Python source of /repo translated on this run — and
  `TriggerBuild.convertResponse` / `registerAll` (the loops of `grpc.convert_response` and
  `TracepointConfigService.add_custom`; the extractor checks the former against its exact source template).

  DOMAIN: argument VALUES are text (`Args = List (String × String)`): what the service sends.  `register_tracepoint`
  passes on whatever the program gave (None, lists, numbers): `build_trigger` then compares / stores those objects as they
  are — {'fire_count': None} installs an action whose `fire_count` raises at every hit (Extracted.TpArgs, `c11_arg_int_table`),
  {'span': ['method']} installs a Span action, {'stage': None} is dropped; and `add_custom` keeps the caller's `watches`
  LIST (the service path copies it).  None of the theorems below speaks about such registrations; they are driven in the
  labelled stream `regodd` of the check (known-finding candidates).

  Quantifiers: `args` is ANY association list of arbitrary strings (any keys, any values, any length), watches and
  metric definitions are arbitrary lists, responses are arbitrary lists of tracepoints.  No bound anywhere; the
  proofs split on membership / equality with the distinguished texts, they do not enumerate.
-/
import DeepModel.Proofs.TriggerBuild
import DeepModel.Extracted.TpArgs
import DeepModel.Extracted.Limiter

set_option linter.unusedSimpArgs false

namespace C11
open TriggerBuild Extracted.TriggerTable

/-- **the table** — for every argument map, the trigger the code builds is the documented one: location kind from
    stage / method_name / span, snapshot unless `snapshot = no_collect`, log action iff a message is given and
    nothing is collected (else the message rides in the snapshot action), one metric action with all definitions
    iff any, a span action iff requested; every action with the tracepoint's own condition, fire count, fire period;
    the snapshot action with the watches, frame type and stack type. -/
theorem c11_table (id path : String) (line : Int) (args : Args) (watches : List String)
    (metrics : List MetricDefinition) :
    build_trigger id path line args watches metrics = Spec.trigger id path line args watches metrics :=
  build_trigger_eq id path line args watches metrics

/-- a stage outside the six documented ones cannot be interpreted: no trigger (and nothing raised) -/
theorem c11_unknown_stage (id path : String) (line : Int) (args : Args) (watches : List String)
    (metrics : List MetricDefinition) (st : String) (hst : args.lookup "stage" = some st)
    (hunk : st ∉ ["line_start", "line_end", "line_capture", "method_start", "method_end", "method_capture"]) :
    build_trigger id path line args watches metrics = none := by
  rw [c11_table]
  simp only [List.mem_cons, List.not_mem_nil, or_false, not_or] at hunk
  simp [Spec.trigger, Spec.locationOf, Spec.stageOf, Spec.arg, hst, Spec.lineStages, Spec.methodStages, hunk]

/-- …and only such a stage: without a `stage` argument, or with a documented one, a trigger is always built -/
theorem c11_interpretable (id path : String) (line : Int) (args : Args) (watches : List String)
    (metrics : List MetricDefinition)
    (h : ∀ st, args.lookup "stage" = some st →
      st ∈ ["line_start", "line_end", "line_capture", "method_start", "method_end", "method_capture"]) :
    (build_trigger id path line args watches metrics).isSome = true := by
  rw [c11_table]
  unfold Spec.trigger Spec.locationOf Spec.stageOf Spec.arg Spec.lineStages Spec.methodStages
  obtain ⟨ot, hot⟩ : ∃ o, List.lookup "stage" args = o := ⟨_, rfl⟩
  cases ot with
  | none => simp only [hot]; split <;> simp
  | some st =>
    have := h st hot
    simp only [List.mem_cons, List.not_mem_nil, or_false] at this
    simp only [hot]
    rcases this with h | h | h | h | h | h <;> simp [h]

/-- each action carries the tracepoint's OWN id, condition, fire count and fire period -/
theorem c11_own_limits (id path : String) (line : Int) (args : Args) (watches : List String)
    (metrics : List MetricDefinition) (t : Trigger)
    (hb : build_trigger id path line args watches metrics = some t) :
    ∀ a ∈ t.actions, a.id = id ∧ a.condition = args.lookup "condition" ∧
      a.config.lookup "fire_count" = some (.str ((args.lookup "fire_count").getD "1")) ∧
      a.config.lookup "fire_period" = some (.str ((args.lookup "fire_period").getD "1000")) := by
  rw [c11_table] at hb
  unfold Spec.trigger at hb
  cases hl : Spec.locationOf path line args with
  | none => simp [hl] at hb
  | some l =>
    simp only [hl, Option.map_some, Option.some.injEq] at hb
    subst hb
    intro a ha
    simp only [Spec.actionsOf, List.mem_append] at ha
    rcases ha with ((ha | ha) | ha) | ha
    · split at ha <;> simp at ha
      subst ha
      simp [Spec.snapshotAction, Spec.limits, Spec.arg, List.lookup]
    · split at ha
      · split at ha <;> simp at ha
        subst ha
        simp [Spec.logAction, Spec.limits, Spec.arg, List.lookup]
      · simp at ha
    · split at ha <;> simp at ha
      subst ha
      simp [Spec.metricAction, Spec.limits, Spec.arg, List.lookup]
    · split at ha <;> simp at ha
      subst ha
      simp [Spec.spanAction, Spec.limits, Spec.arg, List.lookup]

/-- the snapshot action also carries the tracepoint's own watches -/
theorem c11_own_watches (id path : String) (line : Int) (args : Args) (watches : List String)
    (metrics : List MetricDefinition) (t : Trigger)
    (hb : build_trigger id path line args watches metrics = some t) :
    ∀ a ∈ t.actions, a.action_type = .Snapshot → a.config.lookup "watches" = some (.strs watches) := by
  rw [c11_table] at hb
  unfold Spec.trigger at hb
  cases hl : Spec.locationOf path line args with
  | none => simp [hl] at hb
  | some l =>
    simp only [hl, Option.map_some, Option.some.injEq] at hb
    subst hb
    intro a ha hty
    simp only [Spec.actionsOf, List.mem_append] at ha
    rcases ha with ((ha | ha) | ha) | ha
    · split at ha <;> simp at ha
      subst ha
      simp [Spec.snapshotAction, List.lookup]
    · split at ha
      · split at ha <;> simp at ha
        subst ha
        simp [Spec.logAction] at hty
      · simp at ha
    · split at ha <;> simp at ha
      subst ha
      simp [Spec.metricAction] at hty
    · split at ha <;> simp at ha
      subst ha
      simp [Spec.spanAction] at hty

/-- only the snapshot action evaluates watches: log, metric and span actions carry no watch list at all -/
theorem c11_watches_only_in_snapshot (id path : String) (line : Int) (args : Args) (watches : List String)
    (metrics : List MetricDefinition) (t : Trigger)
    (hb : build_trigger id path line args watches metrics = some t) :
    ∀ a ∈ t.actions, a.action_type ≠ .Snapshot → a.config.lookup "watches" = none := by
  rw [c11_table] at hb
  unfold Spec.trigger at hb
  cases hl : Spec.locationOf path line args with
  | none => simp [hl] at hb
  | some l =>
    simp only [hl, Option.map_some, Option.some.injEq] at hb
    subst hb
    intro a ha hty
    simp only [Spec.actionsOf, List.mem_append] at ha
    rcases ha with ((ha | ha) | ha) | ha
    · split at ha <;> simp at ha
      subst ha
      simp [Spec.snapshotAction] at hty
    · split at ha
      · split at ha <;> simp at ha
        subst ha
        simp [Spec.logAction, Spec.limits, List.lookup]
      · simp at ha
    · split at ha <;> simp at ha
      subst ha
      simp [Spec.metricAction, Spec.limits, List.lookup]
    · split at ha <;> simp at ha
      subst ha
      simp [Spec.spanAction, Spec.limits, List.lookup]

/-- **what `c11_table` does NOT give** — a method stage without `method_name`: the table (like the code) places the
    tracepoint on `FunctionLocation path None`, which does not contain the line at all: two such tracepoints on
    different lines of one file are the same trigger.  Where it then fires is location matching, recorded as finding
    `C03/nameless-method-location`; C11's statement "placed on the named method" has nothing to say here. -/
theorem c11_nameless_method_ignores_line (id path : String) (l₁ l₂ : Int) (args : Args) (watches : List String)
    (metrics : List MetricDefinition) (st : String) (hst : args.lookup "stage" = some st)
    (hm : st ∈ ["method_start", "method_end", "method_capture"]) (hn : args.lookup "method_name" = none) :
    build_trigger id path l₁ args watches metrics = build_trigger id path l₂ args watches metrics ∧
    (build_trigger id path l₁ args watches metrics).map (fun t => t.location)
      = some (.FunctionLocation path none (Spec.positionOf st)) := by
  simp only [c11_table, Spec.trigger, Spec.locationOf, Spec.stageOf, Spec.arg, hst, hn, Spec.lineStages,
    Spec.methodStages]
  simp only [List.mem_cons, List.not_mem_nil, or_false] at hm
  rcases hm with h | h | h <;> subst h <;> simp

/-- **same location keeps all actions** — whatever else is in the response, every action of every tracepoint that
    builds is in the installed trigger with that tracepoint's location id -/
theorem c11_merge_keeps_all (tps : List TP) : ∀ tp ∈ tps, ∀ t, tp.build = some t →
    ∀ a ∈ t.actions, ∃ g ∈ convertResponse tps, g.id = t.id ∧ a ∈ g.actions :=
  fun tp hm t hb a ha => from_keeps tps [] tp t hm hb a ha

/-- …and nothing else: every installed action comes from a tracepoint of the response with that location id -/
theorem c11_merge_no_extra (tps : List TP) : ∀ g ∈ convertResponse tps, ∀ a ∈ g.actions,
    ∃ tp ∈ tps, ∃ t, tp.build = some t ∧ t.id = g.id ∧ a ∈ t.actions :=
  from_sourced tps tps [] (fun _ h => h) (by intro g hg; cases hg)

/-- **an uninterpretable tracepoint affects only itself** — the response converts as if it were not there (D14) -/
theorem c11_isolated (l₁ l₂ : List TP) (tp : TP) (h : tp.build = none) :
    convertResponse (l₁ ++ tp :: l₂) = convertResponse (l₁ ++ l₂) := by
  simp [convertResponse, convertResponseFrom, List.foldl_append, step_none h]

/-- the same for tracepoints registered in code (`add_custom`) -/
theorem c11_registered_isolated (l₁ l₂ : List TP) (tp : TP) (h : tp.build = none) :
    registerAll (l₁ ++ tp :: l₂) = registerAll (l₁ ++ l₂) := by
  simp [registerAll, List.filterMap_append, h, addCustomSkipsNone]

/-- …and the custom list never holds an entry the handler cannot use -/
theorem c11_registered_usable (tps : List TP) : ∀ e ∈ registerAll tps, e.isSome = true := by
  intro e he
  simp only [registerAll, addCustomSkipsNone, if_true, List.mem_map] at he
  obtain ⟨t, _, rfl⟩ := he
  rfl

/-- **registered in code or received from the service** — DOMAIN: argument values are text (`Args`; the service can
    send nothing else, `register_tracepoint` does not check).  The register path (`registerCode`: `add_custom` calls the
    translated `build_trigger` on READY-MADE metric definitions) and the service path (`convertResponse`: definitions
    converted from protobuf first) give the same trigger for one tracepoint UNDER THE NAMED HYPOTHESIS `knownMetricTypes`:
    the service-side definitions convert, and the registration carries exactly the converted ones.  That both paths call
    `build_trigger` is read from the source (templates of `convert_response` / `add_custom`); what is proved is that
    the service path adds nothing but the conversion and the `None` skip. -/
theorem c11_registered_as_service (tp : TP) (ms : List MetricDefinition)
    (knownMetricTypes : convert_metric_definition tp.metrics = some ms) :
    registerCode [⟨tp.id, tp.path, tp.line, tp.args, tp.watches, ms⟩] = (convertResponse [tp]).map some := by
  have hb : tp.build = build_trigger tp.id tp.path tp.line tp.args tp.watches ms := by
    unfold TP.build TP.outcome
    rw [knownMetricTypes]
    cases hbt : build_trigger tp.id tp.path tp.line tp.args tp.watches ms <;> simp [hbt]
  cases h : build_trigger tp.id tp.path tp.line tp.args tp.watches ms <;>
    simp [registerCode, RegTP.build, addCustomSkipsNone, convertResponse, convertResponseFrom, stepResponse, mergeInto,
      hb, h]

/-- witness: the hypothesis is needed — the two paths do NOT leave out the same tracepoints.  A metric of a type
    the installed protobuf does not know (number 7) costs the service tracepoint its installation; a registration whose
    definition carries a type text no provider knows ('BOGUS') is installed, Snapshot and Metric action (the metric
    call then fails at every hit inside the per-metric guard). -/
theorem c11_registered_unknown_type_witness :
    convertResponse [⟨"t", "a.py", 1, [], [], [⟨"m", [], 7, "", "", "", ""⟩]⟩] = [] ∧
    (registerCode [⟨"t", "a.py", 1, [], [], [⟨"m", "BOGUS", [], "", "", "", ""⟩]⟩]).map
      (fun o => o.map (fun t => t.actions.map (·.action_type))) = [some [.Snapshot, .Metric]] := by decide

/-- model lemma: (list glue over `registerAll`, the register path for tracepoints DESCRIBED like service ones — metric
    types as enum numbers converted first; nothing in it is specific to `add_custom`)
    …and for whole lists: what the registrations install, tracepoint by tracepoint, is what a response with the
    same tracepoints installs, before same-location grouping: every action of every registered trigger is in the
    response's trigger of that location id, and every action installed from the response is some registration's. -/
theorem c11_registered_vs_response (tps : List TP) :
    (∀ t, some t ∈ registerAll tps → ∀ a ∈ t.actions, ∃ g ∈ convertResponse tps, g.id = t.id ∧ a ∈ g.actions) ∧
    (∀ g ∈ convertResponse tps, ∀ a ∈ g.actions, ∃ t, some t ∈ registerAll tps ∧ t.id = g.id ∧ a ∈ t.actions) := by
  constructor
  · intro t ht a ha
    simp only [registerAll, addCustomSkipsNone, if_true, List.mem_map, List.mem_filterMap, Option.some.injEq] at ht
    obtain ⟨t', ⟨tp, hm, hb⟩, rfl⟩ := ht
    exact c11_merge_keeps_all tps tp hm t' hb a ha
  · intro g hg a ha
    obtain ⟨tp, hm, t, hb, hid, hat⟩ := c11_merge_no_extra tps g hg a ha
    refine ⟨t, ?_, hid, hat⟩
    simp only [registerAll, addCustomSkipsNone, if_true, List.mem_map, List.mem_filterMap, Option.some.injEq]
    exact ⟨t, ⟨tp, hm, hb⟩, rfl⟩

/-- metric definitions reach the agent unchanged: name, type NAME, labels (static value or expression),
    expression, namespace, help, unit — for every list of definitions; a definition whose type number is not one of
    the four documented ones makes the conversion fail (proto3 enums are open: `MetricType.Name` raises) -/
theorem c11_metric_defs (ms : List PMetric) : convert_metric_definition ms = ms.mapM Spec.metricDef := by
  unfold convert_metric_definition
  congr 1
  funext m
  have ht : metricTypeName m.type = ["COUNTER", "GAUGE", "HISTOGRAM", "SUMMARY"][m.type]? := by
    unfold metricTypeName metricTypeNames
    rcases m.type with _ | _ | _ | _ | _ | n <;> simp [List.lookup]
  simp [Spec.metricDef, convert_label_expressions, ht]

/-- **a tracepoint that cannot be CONVERTED** (a metric of a type this version does not know) is in the same
    position as one that cannot be interpreted: its conversion raises, it builds nothing … -/
theorem c11_unconvertible (tp : TP) (m : PMetric) (hm : m ∈ tp.metrics) (hty : 4 ≤ m.type) :
    tp.outcome = .raised ∧ tp.build = none := by
  have hn : convert_metric_definition tp.metrics = none := by
    unfold convert_metric_definition
    apply mapM_none_of_mem _ tp.metrics m hm
    have : metricTypeName m.type = none := by
      unfold metricTypeName metricTypeNames
      rcases hmt : m.type with _ | _ | _ | _ | _ | n <;> simp [List.lookup] <;> omega
    simp [this]
  have ho : tp.outcome = .raised := by unfold TP.outcome; rw [hn]
  exact ⟨ho, by unfold TP.build; rw [ho]⟩

/-- … and **no tracepoint can lose the response**: with the two guards read from the source (exception while
    converting one tracepoint → skipped, `None` trigger → skipped) `convert_response` returns for EVERY response, and
    returns what `convertResponse` says (so `c11_isolated` covers "cannot be converted" and "cannot be
    interpreted" alike) -/
theorem c11_response_never_lost (tps : List TP) : convertResponseRaw [] tps = some (convertResponse tps) :=
  raw_eq tps []

/-- (what is missing for the full statement "placed on the line or on the named method": the hypothesis `NoIdClash`.
    It cannot be dropped — `c11_id_clash_witness` below — because the grouping key is the TEXT `path#line` /
    `path#method_name`, which does not determine the place: a method named like a line number, or a '#' inside a path
    or method name, gives two places one id.  It holds whenever no method name is all digits and neither paths nor
    method names contain '#'; that implication is not proved here.)
    ids are what groups tracepoints: the trigger stored under an id keeps the location of the FIRST tracepoint
    with that id.  Placement therefore needs ids to identify PLACES (file + line, or file + method; the START / END /
    CAPTURE position is not interpreted, so a `line_start` and a `line_end` tracepoint of one line share a place and
    satisfy the hypothesis) — see the witness below for ids that do not. -/
theorem c11_group_location_partial (tps : List TP)
    (NoIdClash : ∀ tp₁ ∈ tps, ∀ tp₂ ∈ tps, ∀ t₁ t₂, tp₁.build = some t₁ → tp₂.build = some t₂ →
      t₁.id = t₂.id → place t₁.location = place t₂.location) :
    ∀ g ∈ convertResponse tps, ∀ tp ∈ tps, ∀ t, tp.build = some t → t.id = g.id →
      place t.location = place g.location := by
  -- invariant: every stored trigger has the location of some building tracepoint with its id
  have inv : ∀ (rest : List TP) (acc : List Trigger), (∀ tp ∈ rest, tp ∈ tps) →
      (∀ g ∈ acc, ∃ tp ∈ tps, ∃ t, tp.build = some t ∧ t.id = g.id ∧ t.location = g.location) →
      ∀ g ∈ convertResponseFrom acc rest,
        ∃ tp ∈ tps, ∃ t, tp.build = some t ∧ t.id = g.id ∧ t.location = g.location := by
    intro rest
    induction rest with
    | nil => intro acc _ h; exact h
    | cons hd rest ih =>
      intro acc hsub hacc
      apply ih _ (fun tp h => hsub tp (List.mem_cons_of_mem _ h))
      intro g hg
      unfold stepResponse at hg
      split at hg
      · exact hacc g hg
      · rename_i t hb
        rcases mergeInto_location hg with ⟨g0, hg0, hl, hi⟩ | ⟨rfl, _⟩
        · obtain ⟨tp, hm, t', hb', hi', hl'⟩ := hacc g0 hg0
          exact ⟨tp, hm, t', hb', hi'.trans hi, hl'.trans hl⟩
        · exact ⟨hd, hsub hd (List.mem_cons_self ..), g, hb, rfl, rfl⟩
  intro g hg tp hm t hb hid
  obtain ⟨tp', hm', t', hb', hi', hl'⟩ := inv tps [] (fun _ h => h) (by intro g hg; cases hg) g hg
  rw [← hl']
  exact NoIdClash tp hm tp' hm' t t' hb hb' (hid.trans hi'.symm)

/-- the hypothesis is needed: ids are texts `path#line` / `path#method_name`, so a method tracepoint whose method is
    NAMED like a line number shares the id of the line tracepoint (`"a.py#10"`) and its action is installed on the
    LINE.  (No Python function is called `10`; the generators do not produce it.  The everyday same-id case — several
    stages on one line — is NOT a clash: same place.) -/
theorem c11_id_clash_witness :
    let tps : List TP := [⟨"t1", "a.py", 10, [], [], []⟩, ⟨"t2", "a.py", 3, [("method_name", "10")], [], []⟩]
    (convertResponse tps).map (fun g => (g.location, g.actions.map (·.id)))
      = [(.LineLocation "a.py" 10 .START, ["t1", "t2"])] := by
  decide

/-! ### argument VALUES read as integers (`Extracted.TpArgs`: `TracePointConfig.get_arg / get_arg_int`,
      `LocationAction.__get_int`, translated; `pyInt` = what `int(value)` does with text, None, bool, int, float) -/

/-- **one fallback rule, two implementations** — `LocationAction.__get_int` (`config.get(name, default)`) and
    `TracePointConfig.get_arg_int` (`if name in args: args[name]` / default) give the same result on EVERY argument map
    and key: the same integer, the default in the same cases (`ValueError`), and they let the same exceptions out. -/
theorem c11_get_int_same_fallback (m : Extracted.TpArgs.ArgMap) (k : String) (d : Int) :
    Extracted.TpArgs.loc_get_int m k d = Extracted.TpArgs.get_arg_int m k d := by
  unfold Extracted.TpArgs.loc_get_int Extracted.TpArgs.get_arg_int Extracted.TpArgs.get_arg
  cases List.lookup k m <;> simp

/-- **what is and is not "unparsable"** — the default is used exactly when the key is absent or `int()` of the value
    raises `ValueError` (text that is no integer, integer text with more digits than the interpreter's limit
    `maxStrDigits` — 4300 by default —, a NaN); a value is used as it is when `int()` accepts it (integer text in ANY
    Unicode decimal digits with surrounding Unicode spaces, bool, int, finite float truncated); and for `None`, an
    infinite float or an object WITHOUT `__int__` / `__index__` / `__trunc__` (`ArgVal.other`: list, dict, plain object)
    `int()` raises `TypeError` / `OverflowError`, which `except ValueError` does NOT catch: the exception leaves
    `fire_count` / `fire_period`.  Values `int()` converts by other routes — bytes, bytearray, Decimal, Fraction,
    objects with their own `__int__` — are NOT in `ArgVal` (unmodelled, not generated).  Such values can only come from
    `register_tracepoint`, the service sends text.  (The first conjuncts restate the `match` of `get_arg_int`; the
    content is `pyInt` and its tie.) -/
theorem c11_arg_int_table (m : Extracted.TpArgs.ArgMap) (k : String) (d : Int) :
    (m.lookup k = none → Extracted.TpArgs.get_arg_int m k d = .ok d) ∧
    (∀ v, m.lookup k = some v →
      (∀ i, Extracted.TpArgs.pyInt v = .ok i → Extracted.TpArgs.get_arg_int m k d = .ok i) ∧
      (Extracted.TpArgs.pyInt v = .valueError → Extracted.TpArgs.get_arg_int m k d = .ok d) ∧
      (∀ c, Extracted.TpArgs.pyInt v = .raised c → Extracted.TpArgs.get_arg_int m k d = .error c)) ∧
    Extracted.TpArgs.pyInt .none = .raised "TypeError" ∧ Extracted.TpArgs.pyInt .floatNan = .valueError ∧
    Extracted.TpArgs.pyInt .floatInf = .raised "OverflowError" := by
  refine ⟨?_, ?_, rfl, rfl, rfl⟩
  · intro h; simp [Extracted.TpArgs.get_arg_int, Extracted.TpArgs.get_arg, h, Extracted.TpArgs.pyInt]
  · intro v h
    refine ⟨?_, ?_, ?_⟩ <;> intros <;>
      simp_all [Extracted.TpArgs.get_arg_int, Extracted.TpArgs.get_arg]

/-- **the text case is C04's** — for ASCII text the value model agrees with the limiter's: the action's fire count /
    fire period read through `__get_int` are `Extracted.Limiter.fireCountOf / firePeriodOf` of that text (so every C04
    theorem about configuration texts is about what `loc_fire_count` returns). -/
theorem c11_arg_int_ascii (s : String) (hs : ∀ c ∈ s.toList, c.toNat < 128) :
    Extracted.TpArgs.parseIntU s = Extracted.Limiter.parseIntL s ∧
    Extracted.TpArgs.loc_fire_count [("fire_count", .str s)] = .ok (Extracted.Limiter.fireCountOf (some s)) ∧
    Extracted.TpArgs.loc_fire_period [("fire_period", .str s)] = .ok (Extracted.Limiter.firePeriodOf (some s)) := by
  have e : Extracted.TpArgs.toAsciiDecimal s = s := by
    unfold Extracted.TpArgs.toAsciiDecimal
    have : s.toList.map Extracted.TpArgs.asciiOf = s.toList := by
      conv => rhs; rw [← List.map_id s.toList]
      apply List.map_congr_left
      intro c hc
      simp [Extracted.TpArgs.asciiOf, hs c hc]
    rw [this]; simp
  have hp : Extracted.TpArgs.parseIntU s = Extracted.Limiter.parseIntL s := by
    unfold Extracted.TpArgs.parseIntU Extracted.Limiter.parseIntL
    rw [e]; rfl
  refine ⟨hp, ?_, ?_⟩
  · simp only [Extracted.TpArgs.loc_fire_count, Extracted.TpArgs.loc_get_int, List.lookup, beq_self_eq_true,
      Option.getD_some, Extracted.TpArgs.pyInt, hp, Extracted.Limiter.fireCountOf, Extracted.Limiter.getInt]
    cases Extracted.Limiter.parseIntL s <;> rfl
  · simp only [Extracted.TpArgs.loc_fire_period, Extracted.TpArgs.loc_get_int, List.lookup, beq_self_eq_true,
      Option.getD_some, Extracted.TpArgs.pyInt, hp, Extracted.Limiter.firePeriodOf, Extracted.Limiter.getInt]
    cases Extracted.Limiter.parseIntL s <;> rfl

/-- integer text beyond the digit limit is a `ValueError`, in any script: the default is used -/
theorem c11_arg_int_digit_limit (s : String)
    (h : Extracted.TpArgs.digitCount (Extracted.TpArgs.toAsciiDecimal s) > Extracted.TpArgs.maxStrDigits) (k : String)
    (d : Int) : Extracted.TpArgs.get_arg_int [(k, .str s)] k d = .ok d := by
  have hm : (Extracted.TpArgs.maxStrDigits != 0) = true := by decide
  have : Extracted.TpArgs.parseIntU s = none := by simp [Extracted.TpArgs.parseIntU, hm, h]
  simp [Extracted.TpArgs.get_arg_int, Extracted.TpArgs.get_arg, Extracted.TpArgs.pyInt, this]

/-- witness: odd but valid integer texts, and texts that are not integers (Arabic-Indic and Devanagari digits, a
    no-break space and an ideographic space around the number, PEP 515 underscore, sign; exponent, empty, inner space,
    mixed scripts are fine digit by digit, a superscript two is no decimal digit) -/
theorem c11_arg_int_witness :
    Extracted.TpArgs.parseIntU "١٢" = some 12 ∧ Extracted.TpArgs.parseIntU "-१०" = some (-10) ∧
    Extracted.TpArgs.parseIntU "\u00a07\u3000" = some 7 ∧ Extracted.TpArgs.parseIntU " 3 " = some 3 ∧
    Extracted.TpArgs.parseIntU "1_0" = some 10 ∧ Extracted.TpArgs.parseIntU "+2" = some 2 ∧
    Extracted.TpArgs.parseIntU "1٢" = some 12 ∧
    Extracted.TpArgs.parseIntU "1e3" = none ∧ Extracted.TpArgs.parseIntU "" = none ∧
    Extracted.TpArgs.parseIntU "1 0" = none ∧ Extracted.TpArgs.parseIntU "²" = none ∧
    Extracted.TpArgs.parseIntU "1__0" = none ∧ Extracted.TpArgs.parseIntU "1.5" = none := by decide

/-- witness: why a response must be converted from an EMPTY accumulator (`convert_response` starts with
    `all_triggers = {}`, checked against the source template; `Trigger.merge_actions` mutates its receiver): were the
    triggers of the previous response still the accumulator — a long-lived trigger aliased into the next conversion —
    re-delivering the same response would install every action twice.  Object identity itself is outside this value
    model: that two successive conversions share no `Trigger` and no action object, and that a later conversion does not
    change an earlier trigger, is probed on the real objects in every `redeliver` case of the check. -/
theorem c11_alias_witness :
    let l : List TP := [⟨"a", "a.py", 2, [], [], []⟩, ⟨"b", "a.py", 2, [("span", "line")], [], []⟩]
    (convertResponse l).map (fun g => g.actions.map (·.id)) = [["a", "b", "b"]] ∧
    (convertResponseFrom (convertResponse l) l).map (fun g => g.actions.map (·.id))
      = [["a", "b", "b", "a", "b", "b"]] := by decide

/-! ### non-vacuity -/

/-- a log message with collection switched off, a metric and a method span: three actions on the named method -/
example : (build_trigger "tp" "a.py" 7
      [("snapshot", "no_collect"), ("log_msg", "hi {x}"), ("span", "method"), ("method_name", "f"),
       ("condition", "x > 1"), ("fire_count", "5")] ["w"] [⟨"m", "COUNTER", [], "", "", "", ""⟩]).map
      (fun t => (t.location, t.actions.map (fun a => (a.action_type, a.condition))))
    = some (.FunctionLocation "a.py" (some "f") .START,
            [(.Log, some "x > 1"), (.Metric, some "x > 1"), (.Span, some "x > 1")]) := by decide

/-- an unknown stage is really uninterpretable, and really skipped -/
example : (convertResponse [⟨"a", "a.py", 1, [("stage", "bogus")], [], []⟩, ⟨"b", "a.py", 2, [], [], []⟩]).map
    Trigger.id = ["a.py#2"] := by decide

/-- two tracepoints on one line: one trigger, both snapshot actions -/
example : (convertResponse [⟨"a", "a.py", 2, [], [], []⟩, ⟨"b", "a.py", 2, [("fire_count", "3")], [], []⟩]).map
    (fun g => (g.id, g.actions.map (·.id))) = [("a.py#2", ["a", "b"])] := by decide

end C11
