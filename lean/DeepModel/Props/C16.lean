/-
  C16 — Log tracepoints emit the template with every field evaluated in place.

  The theorems are about `Template.parse / render / logAction` (my re-model of `string.Formatter` with the agent's
  `get_field`, compared with the real formatter on every generated template) and the extracted facts
  `Extracted.Expr.logPrefix / logCallArgs / logSignature / defaultLogLine` (regenerated from `log_action.py`,
  `api/plugin/__init__.py`, `api/plugin/python.py` on every run).

  Quantifiers: every segment list `segs` (any number of literal runs of any characters — braces included —, and
  fields with any expression text the parser reads back whole, any conversion character, any brace-free format
  spec), every eval oracle `ev` (each expression may evaluate to any text or fail with any error text).  No bound.
-/
import DeepModel.Proofs.Template
import DeepModel.Proofs.ActionCtx
import DeepModel.Props.C04

namespace C16
open Template Extracted.Expr Extracted.Limiter

/-- **parse ∘ unparse** — a template written from literal runs (braces doubled) and `{expression}` fields is read
    back as exactly those segments: literal text and braces preserved, fields in order with their conversion and
    spec (adjacent literal runs joined). -/
theorem c16_parse_unparse (segs : List Seg) (hw : allWf segs) :
    parse (String.ofList (unparse segs)) = .ok (normalise segs) := by
  unfold parse
  rw [String.toList_ofList]
  exact parse_unparse segs hw

/-- nothing of the content is lost by joining literal runs: same text, same fields -/
theorem c16_normalise_keeps (segs : List Seg) :
    fieldNames (normalise segs) = fieldNames segs ∧
    (∀ ev, pieces ev (normalise segs) = pieces ev segs) := by
  refine ⟨fieldNames_norm segs [], ?_⟩
  intro ev
  -- pieces = first component of renderFlat whenever names are irrelevant: prove directly
  have gen : ∀ (segs : List Seg) (acc : List Char),
      pieces ev (norm acc segs) = match pieces ev segs with | .ok t => .ok (acc ++ t) | .error e => .error e := by
    intro segs
    induction segs with
    | nil => intro acc; cases acc <;> simp [norm, pieces, piece]
    | cons s rest ih =>
      intro acc
      cases s with
      | lit a =>
        simp only [norm, ih, pieces, piece]
        cases pieces ev rest <;> simp [List.append_assoc]
      | field nm cv sp =>
        cases acc with
        | nil =>
          simp only [norm, List.isEmpty_nil, if_true, List.nil_append, pieces, piece, ih]
          cases fieldText ev nm cv sp with
          | error e => simp
          | ok t => cases pieces ev rest <;> simp
        | cons x xs =>
          simp only [norm, List.isEmpty_cons, Bool.false_eq_true, if_false, List.cons_append, List.nil_append,
            pieces, piece, ih]
          cases fieldText ev nm cv sp with
          | error e => simp
          | ok t => cases pieces ev rest <;> simp
  have := gen segs []
  unfold normalise
  rw [this]
  cases pieces ev segs <;> simp

/-- **render** — the message for a written template is the prefix from the source followed by every piece in
    order: literal runs verbatim, each field replaced by the text of its expression's outcome (value text, or
    error text when it failed), converted and formatted; one LOG watch per field, in order.  (If a conversion or
    spec is invalid for a string the formatter raises and there is no message — same on both sides.) -/
theorem c16_render (ev : String → Outcome) (segs : List Seg) (hw : allWf segs) (hn : namesNonEmpty segs) :
    render ev (String.ofList (unparse segs)) =
      match pieces ev segs with
      | .ok t => .ok ⟨logPrefix ++ String.ofList t ++ logSuffix, fieldNames segs⟩
      | .error e => .error e := by
  unfold render
  rw [String.toList_ofList]
  exact renderChars_unparse ev segs hw hn

/-- plain `{expression}` fields (no conversion, no spec) -/
def plain : Seg → Bool
  | .lit _ => true
  | .field _ cv sp => cv.isNone && sp.isEmpty

def plainText (ev : String → Outcome) : Seg → List Char
  | .lit s => s
  | .field nm _ _ => (ev (String.ofList nm)).text.toList

theorem pieces_plain (ev : String → Outcome) (segs : List Seg) (hp : ∀ s ∈ segs, plain s = true) :
    pieces ev segs = .ok (segs.flatMap (plainText ev)) := by
  induction segs with
  | nil => rfl
  | cons s rest ih =>
    have hrest : ∀ x ∈ rest, plain x = true := fun x hx => hp x (List.mem_cons_of_mem _ hx)
    have hs := hp s (List.mem_cons_self ..)
    cases s with
    | lit a => simp [pieces, piece, ih hrest, plainText]
    | field nm cv sp =>
      simp only [plain, Bool.and_eq_true, Option.isNone_iff_eq_none, List.isEmpty_iff] at hs
      obtain ⟨rfl, rfl⟩ := hs
      simp [pieces, piece, fieldText, noBrace, convert, formatStr, ih hrest, plainText]

/-- the message text is exactly `"[deep] "` + template with each field replaced, for plain fields — for EVERY
    oracle, i.e. also when some or all fields fail to evaluate: the message is still produced. -/
theorem c16_render_plain (ev : String → Outcome) (segs : List Seg) (hw : allWf segs) (hn : namesNonEmpty segs)
    (hp : ∀ s ∈ segs, plain s = true) :
    render ev (String.ofList (unparse segs)) =
      .ok ⟨"[deep] " ++ String.ofList (segs.flatMap (plainText ev)) ++ "", fieldNames segs⟩ := by
  rw [c16_render ev segs hw hn, pieces_plain ev segs hp]
  rfl

/-- model lemma: **a failing field is local** — two oracles that differ only on expression `e` (say `e` fails under the second)
    give every segment other than the fields naming `e` the same piece; with plain fields both messages exist. -/
theorem c16_field_failure_local (ev ev' : String → Outcome) (e : String)
    (hagree : ∀ x, x ≠ e → ev x = ev' x) (s : Seg)
    (hs : ∀ nm cv sp, s = .field nm cv sp → String.ofList nm ≠ e) :
    piece ev s = piece ev' s := by
  cases s with
  | lit a => rfl
  | field nm cv sp =>
    have := hagree (String.ofList nm) (hs nm cv sp rfl)
    simp [piece, fieldText, this]

/-- **collection limits do not touch the message** — whichever fields find the snapshot's variable budget already
    spent (small MAX_VARIABLES, large frames, many watches), the message is the one rendered from the values: a
    field's text is the string of its value (or its own error text), never a collection error. -/
theorem c16_budget_independent (spent : String → Bool) (ev : String → Outcome) (tpl : String) :
    renderUnderBudget spent ev tpl = render ev tpl := by
  unfold renderUnderBudget
  have : (fun e => { ev e with text := watchText (spent e) (ev e) }) = ev := by
    funext e
    have h : watchText (spent e) (ev e) = (ev e).text := by
      unfold watchText
      cases spent e <;> simp [watchTextOnLimit, watchTextOnValue]
    rw [h]
  rw [this]

/-- **one message per permitted hit, whatever happens to the other results** — with several tracepoints on the
    event, a result (a log message, a snapshot) is delivered iff processing IT does not fail: a refused push or a
    logger failure for another tracepoint never suppresses a later message. -/
theorem c16_results_isolated (tps : List TpKind) (fails : Nat × ResKind → Bool) :
    delivered tps fails = (resultsOf 0 tps).filter (fun r => !fails r) := by
  unfold delivered
  generalize resultsOf 0 tps = rs
  have hg : resultLoopGuard.isSome = true := by decide
  generalize resultLoopGuard = g at hg
  induction rs with
  | nil => rfl
  | cons r rs ih =>
    simp only [resultLoop, hg, if_true, List.filter_cons]
    cases fails r <;> simp [ih]

theorem c16_message_delivered (tps : List TpKind) (fails : Nat × ResKind → Bool) (i : Nat)
    (hm : (i, ResKind.logMsg) ∈ resultsOf 0 tps) (hf : fails (i, .logMsg) = false) :
    (i, ResKind.logMsg) ∈ delivered tps fails := by
  rw [c16_results_isolated]
  exact List.mem_filter.mpr ⟨hm, by simp [hf]⟩

/-- **labels** — the tracepoint logger's parameters receive: the message in `log_msg`, the tracepoint id in
    `tp_id`, the context id in `ctx_id` (argument order of the call = parameter order of the signature). -/
theorem c16_labels (msg tp ctx : String) :
    loggerReceives msg tp ctx = [(.msg, msg), (.tpId, tp), (.ctxId, ctx)] := by
  simp [loggerReceives, logSignature, logCallArgs, logArgValue]

/-- tripwire: the default logger prints the message followed by the two ids, each under its own label -/
theorem c16_default_logger (msg tp ctx : String) :
    defaultLogLine msg tp ctx = msg ++ " ctx=" ++ ctx ++ " tracepoint=" ++ tp := rfl

/-- **snapshot agrees** — over the written-out log branch of `SnapshotActionContext._process_action`,
    `LogActionContext._process_action` and `LogActionResult.process` (shapes checked against the source on every run):
    when the tracepoint also collects, the snapshot's log message is the very message the logger receives, it
    carries exactly the LOG watches of that message, and exactly one logger call is made per processed hit — for any
    logger object the code finds. -/
theorem c16_snapshot_agrees (lg : LoggerObj) (hl : loggerFound lg = true) (ev : String → Outcome) (tpl tp ctx : String)
    (r : Rendered) (hr : render ev tpl = .ok r) :
    logActionWith lg ev tpl tp ctx true = ⟨[loggerReceives r.msg tp ctx], some r.msg, r.watches, 1⟩ ∧
    logActionWith lg ev tpl tp ctx false = ⟨[loggerReceives r.msg tp ctx], none, [], 0⟩ := by
  simp [logActionWith, snapshotLogBranch, logActionAttach, procLog, hr, logResultProcess, hl]

/-- no tracepoint logger configured: the message is still rendered and recorded on the snapshot, nobody is called -/
theorem c16_no_logger (ev : String → Outcome) (tpl tp ctx : String) (r : Rendered) (hr : render ev tpl = .ok r) :
    logActionWith .absent ev tpl tp ctx true = ⟨[], some r.msg, r.watches, 1⟩ ∧
    logActionWith .absent ev tpl tp ctx false = ⟨[], none, [], 0⟩ := by
  have h0 : loggerFound .absent = false := rfl
  simp [logActionWith, snapshotLogBranch, logActionAttach, procLog, hr, logResultProcess, h0]

/-- the configured tracepoint logger is found by identity (`is not None`, extracted), not by truthiness: a registered
    logger object that happens to be falsy (`__len__` 0, `__bool__` False) receives the message like any other, and
    only an absent logger is skipped. -/
theorem c16_falsy_logger_still_logs :
    loggerTest = .notNone ∧ (∀ lg, loggerFound lg = true ↔ lg ≠ .absent) ∧
    (∀ (ev : String → Outcome) (tpl tp ctx : String) (collect : Bool),
        logActionWith .falsy ev tpl tp ctx collect = logActionWith .plain ev tpl tp ctx collect) := by
  refine ⟨rfl, ?_, ?_⟩
  · intro lg; cases lg <;> decide
  · intro ev tpl tp ctx collect
    have h1 : loggerFound .falsy = true := by decide
    have h2 : loggerFound .plain = true := by decide
    have hf : logResultProcess .falsy tp ctx = logResultProcess .plain tp ctx := by
      funext m; simp [logResultProcess, h1, h2]
    simp only [logActionWith, hf]

theorem c16_snapshot_watches (ev : String → Outcome) (segs : List Seg) (hw : allWf segs) (hn : namesNonEmpty segs)
    (r : Rendered) (hr : render ev (String.ofList (unparse segs)) = .ok r) :
    r.watches = fieldNames segs := by
  rw [c16_render ev segs hw hn] at hr
  cases hp : pieces ev segs with
  | error e => rw [hp] at hr; simp at hr
  | ok t =>
    rw [hp] at hr
    simp only [Except.ok.injEq] at hr
    rw [← hr]

/-- model lemma: the hits that fire are hits of the history -/
theorem C10bridge (c : ActionCtx.Cfg) (hs : List ActionCtx.Hit) (_hco : ∀ h ∈ hs, h.coherent) :
    ∀ h ∈ ActionCtx.runHits c hs, h ∈ hs := by
  intro h hh
  have gen : ∀ (hs : List ActionCtx.Hit) (st : Extracted.Limiter.Stats), ∀ h ∈ (ActionCtx.runFrom c st hs).2, h ∈ hs := by
    intro hs
    induction hs with
    | nil => intro st h hm; simp [ActionCtx.runFrom] at hm
    | cons x xs ih =>
      intro st h hm
      simp only [ActionCtx.runFrom] at hm
      split at hm
      · rcases List.mem_cons.mp hm with rfl | hm
        · exact List.mem_cons_self ..
        · exact List.mem_cons_of_mem _ (ih _ h hm)
      · exact List.mem_cons_of_mem _ (ih _ h hm)
  exact gen hs _ h hh

/-- a log tracepoint over a history of hits: what happens at the hits that fire (C04 / C10 decide which); each hit has
    its own frame (`evOf`) and context id -/
def logHistory (c : ActionCtx.Cfg) (lg : LoggerObj) (evOf : ActionCtx.Hit → String → Outcome) (tpl tp : String)
    (ctxOf : ActionCtx.Hit → String) (collect : Bool) (hs : List ActionCtx.Hit) : List LogEffect :=
  (ActionCtx.runHits c hs).map (fun h => logActionWith lg (evOf h) tpl tp (ctxOf h) collect)

/-- **one message per permitted hit** — over any history, with a template that renders and a logger the code finds:
    the logger is called exactly once for every hit that fires and never otherwise (number of calls = number of fired
    hits), and with a fire_count other than -1 that is at most `max fire_count 0` messages. -/
theorem c16_one_per_hit (c : ActionCtx.Cfg) (lg : LoggerObj) (hl : loggerFound lg = true)
    (evOf : ActionCtx.Hit → String → Outcome) (tpl tp : String) (ctxOf : ActionCtx.Hit → String) (collect : Bool)
    (hs : List ActionCtx.Hit) (hco : ∀ h ∈ hs, h.coherent)
    (hr : ∀ h ∈ hs, ∃ r, render (evOf h) tpl = .ok r) :
    (∀ e ∈ logHistory c lg evOf tpl tp ctxOf collect hs, e.logger.length = 1) ∧
    ((logHistory c lg evOf tpl tp ctxOf collect hs).flatMap (·.logger)).length = (ActionCtx.runHits c hs).length ∧
    (c.lim.count ≠ -1 → (((logHistory c lg evOf tpl tp ctxOf collect hs).flatMap (·.logger)).length : Int) ≤ max c.lim.count 0) := by
  have hfired : ∀ h ∈ ActionCtx.runHits c hs, h ∈ hs := fun h hh => (C10bridge c hs hco h hh)
  have hone : ∀ h ∈ ActionCtx.runHits c hs, (logActionWith lg (evOf h) tpl tp (ctxOf h) collect).logger.length = 1 := by
    intro h hh
    obtain ⟨r, hrr⟩ := hr h (hfired h hh)
    have := c16_snapshot_agrees lg hl (evOf h) tpl tp (ctxOf h) r hrr
    cases collect
    · rw [this.2]; rfl
    · rw [this.1]; rfl
  have hlen : ((logHistory c lg evOf tpl tp ctxOf collect hs).flatMap (·.logger)).length = (ActionCtx.runHits c hs).length := by
    unfold logHistory
    generalize ActionCtx.runHits c hs = fired at hone
    induction fired with
    | nil => rfl
    | cons x xs ih =>
      simp only [List.map_cons, List.flatMap_cons, List.length_append, List.length_cons]
      rw [hone x (List.mem_cons_self ..), ih (fun h hh => hone h (List.mem_cons_of_mem _ hh))]
      omega
  refine ⟨?_, hlen, ?_⟩
  · intro e he
    unfold logHistory at he
    obtain ⟨h, hh, rfl⟩ := List.mem_map.mp he
    exact hone h hh
  · intro hc
    rw [hlen]
    have hb := ActionCtx.runFrom_toLim c hs hco Stats.init
    have hcnt := C04.c04_count c.lim (hs.map (ActionCtx.toLim c)) hc
    unfold Limiter.runHits at hcnt
    rw [hb] at hcnt
    simpa [ActionCtx.runHits] using hcnt

/-- a template the formatter rejects produces no message (and, on a collecting tracepoint, no snapshot) -/
theorem c16_malformed_nothing (ev : String → Outcome) (tpl tp ctx : String) (collect : Bool) (e : Err)
    (hr : render ev tpl = .error e) (lg : LoggerObj) : logActionWith lg ev tpl tp ctx collect = ⟨[], none, [], 0⟩ := by
  cases collect <;> simp [logActionWith, snapshotLogBranch, logActionAttach, procLog, hr]

/-! ### non-vacuity -/

private def ev1 : String → Outcome := fun e =>
  if e = "x" then ⟨false, false, "int", "5", .int 5, false⟩
  else if e = "d['a:b']" then ⟨false, false, "str", "v", .str "v", false⟩
  else ⟨true, true, "NameError", "name 'nope' is not defined", .other, false⟩

private def segs1 : List Seg :=
  [.lit "a{b}".toList, .lit " ".toList, .field "x".toList none [], .lit "-".toList,
   .field "d['a:b']".toList (some 'r') ">5".toList, .field "nope".toList none []]

private def okIs (r : Except Err Rendered) (x : Rendered) : Bool :=
  match r with | .ok y => decide (y = x) | .error _ => false
private def errIs (r : Except Err Rendered) (x : Err) : Bool :=
  match r with | .ok _ => false | .error e => decide (e = x)

example : String.ofList (unparse segs1) = "a{{b}} {x}-{d['a:b']!r:>5}{nope}" := by decide
example : allWf segs1 := by
  intro s hs
  have : segs1.all Seg.wf = true := by decide
  exact List.all_eq_true.mp this s hs
example : okIs (render ev1 "a{{b}} {x}-{d['a:b']!r:>5}{nope}")
    ⟨"[deep] a{b} 5-  'v'name 'nope' is not defined", ["x", "d['a:b']", "nope"]⟩ = true := by decide
example : errIs (render ev1 "{x") .parse = true ∧ errIs (render ev1 "}") .parse = true ∧
    errIs (render ev1 "{x:d}") .spec = true ∧ errIs (render ev1 "{x!z}") .conversion = true ∧
    errIs (render ev1 "{}{0}") .numbering = true := by decide

private def ev2 : String → Outcome := fun e =>
  if e = "s" then ⟨false, false, "str", "text", .str "text", false⟩
  else if e = "wd" then ⟨false, false, "int", "7", .int 7, false⟩
  else if e = "0" then ⟨false, false, "int", "0", .int 0, false⟩
  else if e = "1" then ⟨false, false, "int", "1", .int 1, false⟩
  else ⟨true, true, "NameError", "name 'nope' is not defined", .other, false⟩
/-! ### replacement fields inside a format spec -/

/-- **nested field** — a field whose format spec is itself a field, `{expr:{w}}` (any expression texts, any
    conversion, any oracle): the text of `expr` (converted) is formatted with the TEXT OF `w` as its spec, and the
    message carries two LOG watches, `expr` first, `w` second — the spec's field is evaluated in the paused frame like
    any other field.  Stated on `renderNested` over the PARSED segment list: the parser's reading of `{expr:{w}}` and
    the `plainSpecs` dispatch of `renderChars` are outside this theorem (decided examples below + the correspondence
    run cover them); that `renderNested` IS `Formatter._vformat` at depth 2 is a modelling claim, compared with the
    real formatter on every generated nested template. -/
theorem c16_nested_spec (ev : String → Outcome) (nm w : List Char) (cv : Option Char)
    (hn : nm ≠ []) (hnd : isDigits nm = false) (hw : nameOk false w = true) (hwn : w ≠ []) (hwd : isDigits w = false) :
    renderNested ev [.field nm cv ('{' :: (w ++ ['}']))] =
      match convert cv (ev (String.ofList nm)).text.toList with
      | .error e => .error e
      | .ok obj =>
        match formatStr obj (ev (String.ofList w)).text.toList with
        | .error e => .error e
        | .ok t => .ok ⟨logPrefix ++ String.ofList t ++ logSuffix, [String.ofList nm, String.ofList w]⟩ := by
  have hp : parseChars ('{' :: (w ++ ['}'])) = .ok [.field w none []] := by
    have h := parse_unparse [.field w none []] (by
      intro s hs
      simp only [List.mem_singleton] at hs
      subst hs
      simp [Seg.wf, hw, noBrace])
    simpa [unparse, unparseSeg, convPart, specPart, normalise, norm] using h
  have hne : nm.isEmpty = false := by cases nm <;> simp_all
  have hwe : w.isEmpty = false := by cases w <;> simp_all
  have hp0 : parseChars [] = .ok [] := by rfl
  unfold renderNested
  simp only [renderWith, fieldExpr, hne, hnd, Bool.false_eq_true, if_false]
  cases hc : convert cv (ev (String.ofList nm)).text.toList with
  | error e => simp
  | ok obj =>
    simp only [renderLvl, hp, renderWith, fieldExpr, hwe, hwd, Bool.false_eq_true, if_false, convert, hp0]
    have hf0 : ∀ t : List Char, formatStr t [] = .ok t := by intro t; simp [formatStr]
    simp only [hf0, List.append_nil]
    cases hf : formatStr obj (ev (String.ofList w)).text.toList with
    | error e => simp
    | ok t => simp

/-- **watch order** — at every level of the formatter, for every way of formatting specs (`specR`): when a list of
    segments starting with a field renders, its LOG watches are the field's own expression FIRST, then the watches of
    the fields inside its format spec (in the order the spec renders them), then those of the rest — and the automatic
    numbering is handed on in that same order. -/
theorem c16_nested_watch_order (ev : String → Outcome)
    (specR : Option Nat → List Char → Except Err (List Char × List String × Option Nat))
    (auto : Option Nat) (nm : List Char) (cv : Option Char) (sp : List Char) (rest : List Seg)
    (t : List Char) (ws : List String) (a : Option Nat)
    (h : renderWith ev specR auto (.field nm cv sp :: rest) = .ok (t, ws, a)) :
    ∃ expr auto1 spec wsSpec auto2 t' ws',
      fieldExpr auto nm = .ok (expr, auto1) ∧ specR auto1 sp = .ok (spec, wsSpec, auto2) ∧
      renderWith ev specR auto2 rest = .ok (t', ws', a) ∧ ws = String.ofList expr :: (wsSpec ++ ws') := by
  simp only [renderWith] at h
  split at h
  · simp at h
  · next expr auto1 hfe =>
    split at h
    · simp at h
    · split at h
      · simp at h
      · next spec wsSpec auto2 hsp =>
        split at h
        · simp at h
        · split at h
          · next t' ws' a' hr =>
            simp only [Except.ok.injEq, Prod.mk.injEq] at h
            obtain ⟨-, hws, ha⟩ := h
            subst ha
            exact ⟨expr, auto1, spec, wsSpec, auto2, t', ws', hfe, hsp, hr, hws.symm⟩
          · simp at h

/-- **depth** — `_vformat` entered below depth 0 raises whatever the text is, so a replacement field at the deepest
    level (inside the spec of a field that is itself inside a spec) makes the whole message fail — even with an empty
    spec of its own. -/
theorem c16_nested_depth (ev : String → Outcome) :
    (∀ auto cs, renderLvl ev 0 auto cs = .error .recursion) ∧
    (∀ auto nm cv sp rest, ∃ e, renderWith ev (renderLvl ev 0) auto (.field nm cv sp :: rest) = .error e) := by
  refine ⟨fun _ _ => rfl, ?_⟩
  intro auto nm cv sp rest
  simp only [renderWith]
  cases fieldExpr auto nm with
  | error e => exact ⟨e, rfl⟩
  | ok r =>
    obtain ⟨expr, auto1⟩ := r
    simp only
    cases convert cv (ev (String.ofList expr)).text.toList with
    | error e => exact ⟨e, rfl⟩
    | ok obj => exact ⟨.recursion, rfl⟩

private def fsErr (r : Except Err (List Char)) (x : Err) : Bool :=
  match r with | .ok _ => false | .error e => decide (e = x)

/-- the width of a field is frame data once specs may contain fields: beyond the model's declared bound the answer is
    the outcome `tooWide` (nothing is materialised); a width past the ssize_t range is a spec error as in CPython -/
example : fsErr (formatStr "ab".toList "1000001".toList) .tooWide = true ∧
    fsErr (formatStr "ab".toList "99999999999999999999".toList) .spec = true ∧
    fsErr (formatStr "ab".toList ".99999999999999999999".toList) .spec = true ∧
    (match formatStr "ab".toList ">4".toList with | .ok t => decide (t = "  ab".toList) | .error _ => false) = true := by
  decide

/-- non-vacuity, and the rest of the nested grammar on concrete templates (through the parser): width from a field,
    automatic numbering running on through the spec, a failing spec field (its error text is no valid spec), a field
    three levels deep -/
example : okIs (render ev2 "{s:>{wd}}|{}{s:{}}") ⟨"[deep]    text|0text", ["s", "wd", "0", "s", "1"]⟩ = true ∧
    errIs (render ev2 "{s:{nope}}") .spec = true ∧ errIs (render ev2 "{s:{wd:{p}}}") .recursion = true ∧
    errIs (render ev2 "{s:{wd!x}}") .conversion = true := by decide

end C16
