/-
  C08 — Wire fidelity: the service receives every snapshot field intact, with auth.

  The conversion the theorems speak about is `Extracted.Wire.convertSnapshotRaw` (with `convertFrame`,
  `convertVariable`, `convertVariableId`, `convertWatch`, `convertTracepoint`, `convertLookup`, `convert_value`,
  `convertAttributes`): the Python of /repo translated on this run, over structures whose fields are the stored
  properties read from the source on this run and the protobuf fields read from the installed descriptors.
  `Wire.project*` is the documented reading of a message (written from the .proto), `Wire.convertSnapshot` adds the
  `try/except → None` of `convert_snapshot`, `Wire.run` the poll / push paths with the metadata cache.

  Quantifiers: every snapshot value of the model type — any number of frames, table entries, children, watches,
  attributes; any code points in any text; any integers — and every auth configuration and operation sequence.
  HYPOTHESES of the round-trip theorems — three, all named:
    * `Collectable`     (`s.collectable`) what the snapshot is assumed to be BY CONSTRUCTION in the collector, spelled
                        out by `c08_collectable_meaning`: a 128-bit id, time stamp and duration in uint64, uint32 line
                        and column numbers, every watch with result XOR error and one of the agent's sources,
                        attribute / resource values that went through BoundedAttributes.  Proved from the source as far
                        as the source decides it: the duration (`c08_duration_never_negative`, `c08_completed_in_range`,
                        from the translated `EventSnapshot.complete` — a clock stepping back used to give a negative
                        duration and a dropped snapshot, fix a7b49ff), the watch sources (`c08_sources_known`,
                        `c08_sources_roundtrip`).  The rest (128-bit ids from `getrandbits(128)`, line numbers of real
                        frames, `time_ns()` ≥ 0, `eval_watch` producing result XOR error) is ASSUMED here and exercised
                        by the correspondence run, which reports any collected snapshot outside `collectable`.
    * `WellFormedText`  (`s.textOk`)  recorded finding C08/lone-surrogate-dropped is its complement.
    * `IntsFitInt64`    (`s.intsFit`) recorded finding C08/attr-int-out-of-range-dropped is its complement.
  Each of the two findings has a `decide`d witness showing the snapshot IS dropped without the hypothesis.
  "Survives serialisation" (section `the wire`): a Lean model of the protobuf wire format (varint, fixed64, length-
  delimited, records, strict UTF-8: `Model/WireBytes.lean`) with one codec per message GENERATED from the installed
  descriptors (`Extracted/WireCodec.lean`); `decode (encode m) = some m` for every message protobuf accepts — any number
  of frames / entries / attributes, any text, attribute values nested to any depth (`c08_wire_snapshot`,
  `c08_wire_anyvalue`, `c08_wire_pollrequest`), and end to end from the snapshot (`c08_survives_serialisation`).
  The model's bytes are compared with the real runtime's on every generated case (both directions).  Trusted: that
  the RECEIVING runtime parses as the model's decoder does (exercised with the local upb runtime only).
  `FloatsAre64Bit` (`s.floatsOk`) is a typing condition of the model, which carries a float's bit pattern as a `Nat`
  (`c08_double_needs_64_bits_witness`: a 65-bit "pattern" does not survive the 8-byte field).
  Auth: the statement says every request "carries the metadata supplied by the configured auth provider" — it does
  not say what a provider must supply.  `BasicAuthProvider` supplies `Basic%20<base64>` (a literal "%20" where RFC 7617
  has a space): proved to be exactly that and to carry the credentials (`c08_basic_auth_header`), documented in
  notes/probes/c08_basic_auth_percent20.py, NOT a violation of C08.  A provider class that cannot be loaded makes
  every operation raise: nothing is sent, nothing is cached (`c08_auth_unloadable_sends_nothing`).
-/
import DeepModel.Proofs.WireSent
import DeepModel.Proofs.WireB64

set_option linter.unusedSimpArgs false

namespace C08
open Wire Extracted.Wire

/-! ### field maps (obligations re-checked against the extracted tables by `decide`) -/

/-- the documented wire name of a snapshot-side property -/
def wireName (cls prop : String) : String :=
  match cls, prop with
  | "VariableId", "vid" => "ID"
  | "TracePointConfig", "id" => "ID"
  | "TracePointConfig", "line_no" => "line_number"
  | "WatchResult", "result" => "good_result"
  | "WatchResult", "error" => "error_result"
  | "EventSnapshot", "id" => "ID"
  | _, p => p

/-- message fields the agent documents as not sent -/
def notSent (msg : String) : List String :=
  match msg with
  | "StackFrame" => ["native_frame"]
  | "WatchResult" => ["from_metric"]
  | "TracePointConfig" => ["targeting", "metrics"]
  | _ => []

/-- converter `fn` maps the stored properties `props` of `cls` one-to-one onto the fields of `msg`: every property
    read exactly once, every destination written once, each under its documented name, nothing else written, and
    the only fields left unset are the documented ones -/
def faithful (cls : String) (props : List String) (msg fn : String) : Bool :=
  match fieldMaps.lookup fn, protoFields.lookup msg with
  | some fm, some pf =>
    let dests : List String := fm.map (·.1)
    let srcs : List String := fm.map (·.2.1)
    decide dests.Nodup && decide srcs.Nodup &&
    props.all (fun p => srcs.contains p) && srcs.all (fun s => props.contains s) &&
    fm.all (fun r => r.1 == wireName cls r.2.1) &&
    dests.all (fun d => pf.contains d) &&
    (pf.filter (fun f => !dests.contains f) == notSent msg)
  | _, _ => false

/-- **no field dropped, duplicated or swapped** in any converter of push/__init__.py -/
theorem c08_fieldmap_complete :
    faithful "VariableId" VariableIdProps "VariableID" "__convert_variable_id" = true ∧
    faithful "Variable" VariableProps "Variable" "__convert_variable" = true ∧
    faithful "StackFrame" StackFrameProps "StackFrame" "__convert_frame" = true ∧
    faithful "WatchResult" WatchResultProps "WatchResult" "__convert_watch" = true ∧
    faithful "TracePointConfig" TracePointConfigProps "TracePointConfig" "__convert_tracepoint" = true ∧
    faithful "EventSnapshot" EventSnapshotProps "Snapshot" "convert_snapshot" = true := by
  decide

/-- tripwire: the poll request is built from time stamp, current hash and the converted resource, whose conversion carries the
    attributes and the dropped count -/
theorem c08_poll_request_fields :
    pollRequestFields.map (·.1) = ["ts_nanos", "current_hash", "resource"] ∧
    pollRequestFields.lookup "resource" = some "convert_resource(self.config.resource)" ∧
    (fieldMaps.lookup "__convert_attributes").map (fun fm => fm.map (fun r => (r.1, r.2.1))) =
      some [("dropped_attributes_count", "dropped"), ("attributes", "attributes")] := by
  decide

/-- tripwire: every watch source the agent writes is a name of the protobuf enum (so `WatchSource.Value` cannot raise) -/
theorem c08_sources_known :
    watchSources.all (fun n => (watchSourceValue (Text.ofString n)).isSome) = true := by
  decide

/-- **the source mapping is one-to-one over the whole enum**: every source the agent defines converts to a wire value
    that reads back as exactly that source (so no two sources share a wire value, none falls back to another) -/
theorem c08_sources_roundtrip :
    watchSources.all (fun n => watchSourceName (convertWatchSource (Text.ofString n)) == Text.ofString n) = true ∧
    (watchSources.map (fun n => convertWatchSource (Text.ofString n))).Nodup := by
  decide

/-! ### what `Collectable` demands, and the part of it the source decides -/

/-- `s.collectable` spelled out -/
theorem c08_collectable_meaning (s : EventSnapshot) :
    s.collectable = true ↔
      (s.id < 2 ^ 128 ∧ (0 ≤ s.ts_nanos ∧ s.ts_nanos < 2 ^ 64) ∧ (0 ≤ s.duration_nanos ∧ s.duration_nanos < 2 ^ 64) ∧
       (0 ≤ s.tracepoint.line_no ∧ s.tracepoint.line_no < 2 ^ 32) ∧
       (∀ f ∈ s.frames, f.inRange = true) ∧ (∀ w ∈ s.watches, w.wellFormed = true) ∧
       (∀ kv ∈ s.attributes, kv.2.holdable = true) ∧ (∀ kv ∈ s.resource, kv.2.holdable = true)) := by
  simp only [EventSnapshot.collectable, Bool.and_eq_true, decide_eq_true_eq, inU64, inU32, attrsAll,
    List.all_eq_true]
  constructor
  · rintro ⟨⟨⟨⟨⟨⟨⟨h1, h2⟩, h3⟩, h4⟩, h5⟩, h6⟩, h7⟩, h8⟩
    exact ⟨by simpa using h1, by simpa using h2, by simpa using h3, by simpa using h4, h5, h6, h7, h8⟩
  · rintro ⟨h1, h2, h3, h4, h5, h6, h7, h8⟩
    exact ⟨⟨⟨⟨⟨⟨⟨by simpa using h1, by simpa using h2⟩, by simpa using h3⟩, by simpa using h4⟩, h5⟩, h6⟩, h7⟩, h8⟩

/-- the duration `EventSnapshot.complete` stores is never negative, whatever the two clock readings — also when the
    wall clock stepped back between the hit and the completion -/
theorem c08_duration_never_negative (now ts : Int) : 0 ≤ completeDuration now ts := by
  unfold completeDuration
  omega

/-- …and fits the uint64 field whenever both readings are `time_ns()` values (0 ≤ t < 2^64) -/
theorem c08_completed_in_range (now ts : Int) (hn : inU64 now = true) (ht : inU64 ts = true) :
    inU64 (completeDuration now ts) = true := by
  simp only [inU64, Bool.and_eq_true, decide_eq_true_eq] at hn ht ⊢
  unfold completeDuration
  omega

/-! ### the tracepoint's line number (method tracepoints have none) -/

/-- **every tracepoint a location can produce converts**: a location's line is a source line (≥ 0, uint32) or
    `FunctionLocation.line` = -1 for a METHOD tracepoint; the line number the TracePointConfig then reports (constructor
    and `line_no` property as translated from the source) always fits the uint32 `line_number` field — a method
    tracepoint is reported with line 0 — and a real line is reported unchanged -/
theorem c08_tracepoint_line_converts (l : Int) (LocationLine : -1 ≤ l ∧ l < 2 ^ 32) :
    inU32 (configuredLineNo l) = true ∧ (0 ≤ l → configuredLineNo l = l) ∧
    inU32 (configuredLineNo functionLocationLine) = true := by
  refine ⟨?_, ?_, by decide⟩
  · by_cases hn : l < 0
    · have : l = -1 := by omega
      subst this; decide
    · simp [configuredLineNo, tracepointLineNo, tracepointStoredLine, inU32, hn]
      omega
  · intro h
    have hn : ¬ l < 0 := by omega
    simp [configuredLineNo, tracepointLineNo, tracepointStoredLine, hn]

/-- …so protobuf takes the converted config of every method tracepoint with well-formed text -/
theorem c08_method_tracepoint_converts (tp : TracePointConfig) (WellFormedText : tp.textOk = true) :
    (convertTracepoint { tp with line_no := configuredLineNo functionLocationLine }).accepts = true :=
  accepts_tracepoint (t := { tp with line_no := configuredLineNo functionLocationLine }) WellFormedText
    (by show inU32 (configuredLineNo functionLocationLine) = true; decide)

/-- tripwire: the line handed to `TracePointConfig(...)` is the location's, and a function location's line is not a
    source line (negative: "no line") -/
theorem c08_tracepoint_line_source :
    tracepointLineSource = "self.__location.line" ∧ functionLocationLine < 0 := by decide

/-! ### round trip -/

/-- **whatever is sent is the snapshot**: if a message is produced at all, reading it back gives every field of the
    snapshot — id, tracepoint, time stamp, duration, every frame, every table entry with children and truncation
    flag, every watch with result or error and its source, attributes, resource, log message.  No hypothesis on text. -/
theorem c08_sent_is_faithful (s : EventSnapshot) (Collectable : s.collectable = true) (m : PSnapshot)
    (h : convertSnapshot s = some m) : projectSnapshot m = s := by
  unfold convertSnapshot at h
  simp only at h
  split at h
  · cases h; exact project_snapshot Collectable
  · cases h

/-- **round trip** — a collectable snapshot with well-formed text is converted and reads back unchanged.
    `intsFit` is the further recorded finding about attribute values. -/
theorem c08_roundtrip_partial (s : EventSnapshot) (Collectable : s.collectable = true) (WellFormedText : s.textOk = true)
    (IntsFitInt64 : s.intsFit = true) :
    ∃ m, convertSnapshot s = some m ∧ projectSnapshot m = s := by
  refine ⟨convertSnapshotRaw s, ?_, project_snapshot Collectable⟩
  simp [convertSnapshot, accepts_snapshot Collectable WellFormedText IntsFitInt64]

/-- **total** — such a snapshot is never dropped -/
theorem c08_total_partial (s : EventSnapshot) (Collectable : s.collectable = true) (WellFormedText : s.textOk = true)
    (IntsFitInt64 : s.intsFit = true) :
    convertSnapshot s ≠ none := by
  obtain ⟨m, hm, _⟩ := c08_roundtrip_partial s Collectable WellFormedText IntsFitInt64
  simp [hm]

/-- a snapshot used by the witnesses: one attribute `k = v`, everything else empty -/
def witness (v : PyVal) (name : Text) : EventSnapshot :=
  { id := 7, tracepoint := ⟨Text.ofString "tp", Text.ofString "a.py", 3, [], []⟩, var_lookup := [], ts_nanos := 5,
    frames := [⟨name, name, name, 3, none, false, 0, none, 0, 0, [], true⟩], watches := [],
    attributes := [(Text.ofString "k", v)], duration_nanos := 1, resource := [], log_msg := none }

/-- the hypotheses are consistent: a snapshot with the tuple attribute `('x', None, 3)` satisfies all three and is
    sent, the `None` as an empty value at its position -/
theorem c08_roundtrip_nonvacuous :
    let s := witness (.tuple (.cons (.str (Text.ofString "x")) (.cons .none (.cons (.int 3) .nil)))) (Text.ofString "fn")
    s.collectable = true ∧ s.textOk = true ∧ s.intsFit = true ∧
      (match convertSnapshot s with
       | some m =>
         (match (m.attributes.map (·.value) : List PAnyValue) with
          | [PAnyValue.array_value (.cons (.string_value _) (.cons .empty (.cons (.int_value 3) .nil)))] => true
          | _ => false)
       | none => false) = true := by
  decide

/-- `WellFormedText` is needed: a lone surrogate (`'fn\ud800'`) in one text and the snapshot is DROPPED
    (known finding C08/lone-surrogate-dropped) -/
theorem c08_surrogate_dropped_witness :
    let s := witness (.str (Text.ofString "v")) [102, 110, 0xD800]
    s.collectable = true ∧ s.intsFit = true ∧ s.textOk = false ∧ convertSnapshot s = none := by
  decide

/-- `IntsFitInt64` is needed: the attribute `2**70` drops the snapshot
    (known finding C08/attr-int-out-of-range-dropped) -/
theorem c08_big_int_dropped_witness :
    let s := witness (.int (2 ^ 70)) (Text.ofString "fn")
    s.collectable = true ∧ s.textOk = true ∧ s.intsFit = false ∧ convertSnapshot s = none := by
  decide

/-- the clamp is needed: a TracePointConfig that reported the location's line of a method tracepoint AS IT IS (-1)
    gives a snapshot outside `collectable` that is DROPPED — the uint32 field refuses it -/
theorem c08_unclamped_method_line_dropped_witness :
    let s0 := witness (.bool true) (Text.ofString "fn")
    let s := { s0 with tracepoint := { s0.tracepoint with line_no := functionLocationLine } }
    s.textOk = true ∧ s.intsFit = true ∧ s.collectable = false ∧ convertSnapshot s = none := by
  decide

/-- **oneof** — a watch carries its result XOR its error, whichever it has, and its source -/
theorem c08_oneof (w : WatchResult) (h : w.wellFormed = true) :
    let m := convertWatch w
    (m.good_result.isSome = w.result.isSome) ∧ (m.error_result = w.error) ∧
    ¬ (m.good_result.isSome = true ∧ m.error_result.isSome = true) ∧
    m.good_result.map projectVariableId = w.result ∧ watchSourceName m.source = w.source := by
  obtain ⟨e, r, er, src⟩ := w
  simp only [WatchResult.wellFormed, Bool.and_eq_true, Bool.not_eq_true', Bool.and_eq_false_iff] at h
  have hs := (source_roundtrip h.2).2.1
  simp only [convertWatch, convertWatchSource, hs]
  refine ⟨?_, ?_, ?_, ?_, ?_⟩
  · cases r <;> simp
  · simp
  · rcases h.1 with h1 | h1 <;> cases r <;> cases er <;> simp_all
  · cases r <;> simp [project_variableId]
  · simp

/-- **attribute values** — every value `BoundedAttributes` can hold (bool, str, int, float, tuples of those with
    `None` allowed) is converted to SOME member of the AnyValue oneof — in particular tuples (D11) and bools as bools
    — and reads back unchanged -/
theorem c08_attr_values (v : PyVal) (h : v.holdable = true) :
    convert_value v ≠ .pyNone ∧ projectValue (convert_value v) = v := by
  refine ⟨?_, project_convert_value h⟩
  cases v <;> simp [PyVal.holdable, PyVal.isPrim] at h <;> simp [convert_value]

/-- …and protobuf takes it under the two named conditions -/
theorem c08_attr_values_accepted_partial (v : PyVal) (h : v.holdable = true)
    (IntsFitInt64 : v.intsFit = true) (WellFormedText : v.textOk = true) :
    (convert_value v).accepts = true :=
  accepts_convert_value h IntsFitInt64 WellFormedText

/-- the poll request's resource: attributes and dropped count arrive unchanged -/
theorem c08_resource (a : BoundedAttributes) (h : attrsAll PyVal.holdable a.items = true) (r : PResource)
    (hr : convertResource a = some r) :
    r.attributes.map projectKeyValue = a.items ∧ r.dropped_attributes_count = a.dropped := by
  unfold convertResource at hr
  simp only at hr
  split at hr
  · cases hr
    exact ⟨project_attrs a.items h, rfl⟩
  · cases hr

/-! ### the wire: "…and survives serialisation" -/

/-- model lemma: varint — every natural number is read back, whatever follows it in the stream -/
theorem c08_wire_varint (n : Nat) (rest : Bytes) : decVarint (encVarint n ++ rest) = some (n, rest) :=
  decVarint_enc n rest

/-- model lemma: records — every stream of well-formed records (field number ≥ 1, fixed-width payloads in range; any
    number of records, any payload bytes) is split back into exactly those records -/
theorem c08_wire_records (rs : List Rec) (h : ∀ r ∈ rs, r.ok = true) : decRecs (encRecs rs) = some rs :=
  decRecs_enc rs h

/-- model lemma: strict UTF-8 — every text without a surrogate code point (any length, any planes) is read back -/
theorem c08_wire_utf8 (t : Text) (h : t.ok = true) : utf8Dec (utf8Enc t) = some t :=
  utf8Dec_enc t h

/-- tripwire: the field numbers, types and labels the codecs were generated from, for the three messages whose
    numbers are spelled out in the hand-proved recursive codec (AnyValue, ArrayValue, KeyValueList) and for Snapshot -/
theorem c08_wire_schema :
    (wireSchema.lookup "AnyValue" == some [(1, "string_value", "string", "oneof:value"), (2, "bool_value", "bool", "oneof:value"),
      (3, "int_value", "int64", "oneof:value"), (4, "double_value", "double", "oneof:value"),
      (5, "array_value", "message:ArrayValue", "oneof:value"), (6, "kvlist_value", "message:KeyValueList", "oneof:value"),
      (7, "bytes_value", "bytes", "oneof:value")]) = true ∧
    (wireSchema.lookup "ArrayValue" == some [(1, "values", "message:AnyValue", "repeated")]) = true ∧
    (wireSchema.lookup "KeyValueList" == some [(1, "values", "message:KeyValue", "repeated")]) = true ∧
    ((wireSchema.lookup "Snapshot").map (fun fs => fs.map (fun f => (f.1, f.2.1))) ==
      some [(1, "ID"), (2, "tracepoint"), (3, "var_lookup"), (4, "ts_nanos"), (5, "frames"), (6, "watches"),
            (7, "attributes"), (8, "duration_nanos"), (9, "resource"), (10, "log_msg")]) = true := by
  decide

/-- model lemma: (generated / template codec reads back what it wrote) every AnyValue protobuf accepts — strings, bools, int64, doubles, bytes, arrays and
    key-value lists NESTED TO ANY DEPTH, empty values inside arrays — is read back from its bytes exactly -/
theorem c08_wire_anyvalue (v : PAnyValue) (Accepted : v.accepts = true) (DoublesAre64Bit : v.bitsOk = true)
    (IsAMessage : v ≠ .pyNone) : decAny (encRecs (encAny v)) = some v :=
  rt_AnyValue v Accepted DoublesAre64Bit IsAMessage

/-- model lemma: (generated codec reads back what it wrote — the PROPERTY theorem is `c08_survives_serialisation`)
    for every Snapshot message protobuf accepts (any number of frames, table
    entries, children, watches, attributes; any well-formed text; every optional field set or unset) that is a
    message at all (`wireOk`: a watch holds ONE member of its oneof, doubles are 64-bit patterns), decoding its bytes
    gives back exactly that message — codec generated from the installed descriptors -/
theorem c08_wire_snapshot (m : PSnapshot) (Accepted : m.accepts = true) (IsAMessage : m.wireOk = true) :
    decSnapshot (encRecs (encSnapshot m)) = some m :=
  rt_Snapshot m Accepted IsAMessage

/-- model lemma: …and so does the generated codec of every poll request (time stamp, hash, resource with its attributes and dropped
    count) that protobuf accepts and that is a message (`wireOk`) -/
theorem c08_wire_pollrequest (m : PPollRequest) (Accepted : m.accepts = true) (IsAMessage : m.wireOk = true) :
    decPollRequest (encRecs (encPollRequest m)) = some m :=
  rt_PollRequest m Accepted IsAMessage

/-- **…and survives serialisation** — end to end: whenever `convert_snapshot` produces a message for a collectable
    snapshot, the bytes of that message decode to a message that reads back as exactly the snapshot: id, tracepoint,
    time stamp, duration, every frame, every table entry with children and truncation flag, every watch with result
    or error and source, attributes, resource, log message.  No hypothesis on text or integers: what cannot be
    encoded is not produced (`convertSnapshot s = none`, the two recorded findings). -/
theorem c08_survives_serialisation (s : EventSnapshot) (Collectable : s.collectable = true)
    (FloatsAre64Bit : s.floatsOk = true) (m : PSnapshot) (h : convertSnapshot s = some m) :
    (decSnapshot (encRecs (encSnapshot m))).map projectSnapshot = some s := by
  unfold convertSnapshot at h
  simp only at h
  split at h
  · rename_i hacc
    cases h
    rw [rt_Snapshot _ hacc (wireOk_snapshot Collectable FloatsAre64Bit)]
    simp [project_snapshot Collectable]
  · cases h

/-- `DoublesAre64Bit` / `FloatsAre64Bit` is needed: the "pattern" 2^64 (65 bits) is written into the 8-byte field as
    zeros and reads back as the pattern 0; a genuine pattern (0.5) is read back as itself, from exactly these bytes -/
theorem c08_double_needs_64_bits_witness :
    (PAnyValue.double_value (2 ^ 64)).accepts = true ∧ (PAnyValue.double_value (2 ^ 64)).bitsOk = false ∧
    (match decAny (encRecs (encAny (.double_value (2 ^ 64)))) with
     | some (.double_value 0) => true
     | _ => false) = true ∧
    encRecs (encAny (.double_value 0x3FE0000000000000)) = [0x21, 0, 0, 0, 0, 0, 0, 0xE0, 0x3F] ∧
    (match decAny [0x21, 0, 0, 0, 0, 0, 0, 0xE0, 0x3F] with
     | some (.double_value 0x3FE0000000000000) => true
     | _ => false) = true := by
  decide

/-- non-vacuity: the witness snapshot with a nested tuple attribute and a float satisfies every hypothesis of
    `c08_survives_serialisation` and IS converted, so the theorem speaks about its bytes -/
theorem c08_survives_nonvacuous :
    let s := witness (.tuple (.cons (.str (Text.ofString "é")) (.cons .none (.cons (.float 0x3FE0000000000000) .nil))))
      (Text.ofString "fn")
    s.collectable = true ∧ s.floatsOk = true ∧ (convertSnapshot s).isSome = true ∧
      ((convertSnapshot s).map (fun m => m.accepts && m.wireOk)) = some true := by
  decide

example : (PAnyValue.array_value (.cons (.kvlist_value (.cons [107] (.array_value (.cons .empty .nil)) .nil))
    (.cons (.int_value (-1)) .nil))).accepts = true := by decide

/-! ### auth -/

/-- model lemma: base64 — every byte string of any length is recovered from its padded encoding -/
theorem c08_base64_roundtrip (bs : List Nat) (h : bytesOk bs = true) : b64decode (b64encode bs).toList = some bs :=
  b64_roundtrip bs h

/-- tripwire + model lemma: **the basic-auth header** — conjuncts 1 and 3 unfold the TRANSLATED `BasicAuthProvider.provide`
    (exactly one pair `authorization: Basic%20<base64>`; nothing when a credential is missing), conjunct 2 is the base64
    round trip: decoding gives back exactly the UTF-8 bytes of `username:password`.  DOMAIN: `u`, `p` range over Lean
    `String`, i.e. Python `str` credentials WITHOUT lone surrogates (empty, containing `:`, non-ASCII, any length).
    Outside it `provide()` raises — a lone surrogate: UnicodeEncodeError at `.encode("utf-8")`, a non-str credential:
    TypeError at `+` — which the auth model covers as a provider fault on every call (nothing sent, nothing cached:
    `c08_auth`, `c08_auth_fault_not_cached`); the auth stream feeds such credentials to the real code every run. -/
theorem c08_basic_auth_header (u p : String) :
    basicProvide (some u) (some p) = [("authorization", "Basic%20" ++ b64encode (utf8 (u ++ ":" ++ p)))] ∧
    b64decode (b64encode (utf8 (u ++ ":" ++ p))).toList = some (utf8 (u ++ ":" ++ p)) ∧
    (∀ o : Option String, basicProvide none o = [] ∧ basicProvide o none = []) := by
  refine ⟨rfl, b64_roundtrip _ (utf8_bytesOk _), ?_⟩
  intro o
  cases o <;> exact ⟨rfl, rfl⟩

/-- non-vacuity / anchor: `bob:` is `Ym9iOg==` (a one-byte remainder is padded with `==`), it decodes back, and the
    same text with one `=` missing is refused -/
example : b64Chars [98, 111, 98, 58] = ['Y', 'm', '9', 'i', 'O', 'g', '=', '='] ∧
    b64decode ['Y', 'm', '9', 'i', 'O', 'g', '=', '='] = some [98, 111, 98, 58] ∧
    b64decode ['Y', 'm', '9', 'i', 'O', 'g', '='] = none := by
  decide

/-- **every poll and every snapshot request carries the provider's metadata** — for every auth configuration (no
    provider, basic with / without credentials, any custom provider), every sequence of polls and pushes, and every
    placement of provider failures (`faults i`: the provider raises the i-th time it is asked), starting from the
    empty metadata cache: each request that reaches a stub has a `metadata=` argument and it is what the configured
    provider supplies.  (An operation during which the provider raises sends nothing.) -/
theorem c08_auth (c : AuthCfg) (faults : Nat → Bool) (ops : List Op) :
    ∀ w ∈ run c faults ⟨none, 0⟩ ops, ∀ x, w.metadata = some x → x = some (expectedMetadata c) :=
  run_inv c faults ops ⟨none, 0⟩ (Or.inl rfl)

/-- **the provider must be constant** — `c08_auth` above is about configurations whose provider always supplies the
    same metadata (`AuthCfg` has no other).  For a provider whose answer depends on when it is asked (`answers t`):
    under the named hypothesis every request carries what the provider supplies AT THAT TIME … -/
theorem c08_auth_current_partial (answers : Nat → Metadata) (ProviderIsConstant : ∀ i j, answers i = answers j)
    (times : List Nat) : sentAt answers none times = times.map answers := by
  have gen : ∀ (ts : List Nat) (cache : Option Metadata), (cache = none ∨ cache = some (answers 0)) →
      sentAt answers cache ts = ts.map answers := by
    intro ts
    induction ts with
    | nil => intro _ _; rfl
    | cons t rest ih =>
      intro cache h
      rcases h with h | h <;> subst h
      · simp only [sentAt, metadataAt, List.map_cons]
        congr 1
        apply ih
        cases metadataCached
        · exact Or.inl rfl
        · exact Or.inr (by simp [ProviderIsConstant t 0])
      · simp only [sentAt, metadataAt, List.map_cons]
        rw [ProviderIsConstant t 0]
        congr 1
        exact ih _ (Or.inr rfl)
  exact gen times none (Or.inl rfl)

/-- … and the hypothesis is needed (known finding C08/auth-metadata-cached-forever): a provider whose token rotates
    is asked once; the second request carries the FIRST token although the provider's answer is by then another -/
theorem c08_auth_rotation_witness :
    let answers : Nat → Metadata := fun t => [("authorization", if t = 0 then "Bearer token-0" else "Bearer token-1")]
    sentAt answers none [0, 1] = [answers 0, answers 0] ∧ answers 1 ≠ answers 0 := by
  decide

/-- a failed attempt leaves nothing behind: as long as nothing is cached, the first time the provider answers its
    value is what `metadata()` returns -/
theorem c08_auth_recovers (c : AuthCfg) (faults : Nat → Bool) (g : Grpc) (h : g.cache = none)
    (hok : faults g.asked = false) : (g.metadata c faults).1 = some (expectedMetadata c) :=
  metadata_recovers c faults g h hok

/-- …and a provider failure caches nothing -/
theorem c08_auth_fault_not_cached (c : AuthCfg) (faults : Nat → Bool) (g : Grpc) (h : g.cache = none)
    (hraise : (g.metadata c faults).1 = none) : (g.metadata c faults).2.cache = none := by
  unfold Grpc.metadata at hraise ⊢
  simp only [h] at hraise ⊢
  cases hp : provided c with
  | none => simp [hp] at hraise
  | some p =>
    simp only [hp] at hraise ⊢
    by_cases hf : faults g.asked = true
    · simp [hf, h]
    · simp [hf] at hraise

/-- **a provider that cannot be loaded** — `c.unloadable`: a provider name is configured and its kind is
    `ProviderKind.unloadable`, i.e. `AuthProvider.get_provider` RAISES for it (no dot in the name: ValueError, unknown
    module: ModuleNotFoundError, unknown attribute: AttributeError, the attribute is `None` as for `builtins.None`:
    UnknownAuthProvider, not instantiable: TypeError; `c08_get_provider_load` pins that no loading statement is guarded).
    For every such configuration, every environment (`faults`) and every sequence of polls and pushes NOTHING is sent —
    no request goes out without the configured provider's metadata.  (A corollary of the fault model: `runCfg` runs the
    configuration with its own faults, `effFaults`, which are "every call" here.) -/
theorem c08_auth_unloadable_sends_nothing (c : AuthCfg) (Unloadable : c.unloadable = true) (faults : Nat → Bool)
    (ops : List Op) : ∀ w ∈ runCfg c faults ⟨none, 0⟩ ops, w.metadata = none := by
  simp only [AuthCfg.unloadable, Bool.and_eq_true, Bool.not_eq_true', decide_eq_true_eq] at Unloadable
  have he : effFaults c faults = fun _ => true := by
    funext i
    simp [effFaults, AuthCfg.unloadable, Unloadable.1, Unloadable.2]
  unfold runCfg
  rw [he]
  exact run_unloadable c Unloadable.1 (by rw [Unloadable.2]; decide) ⟨by decide, by decide⟩ ops ⟨none, 0⟩ rfl

/-- …and for EVERY configuration run with its own faults (loadable or not, a callable that is not a provider included)
    each request that does go out carries what the configured provider supplies -/
theorem c08_auth_cfg (c : AuthCfg) (faults : Nat → Bool) (ops : List Op) :
    ∀ w ∈ runCfg c faults ⟨none, 0⟩ ops, ∀ x, w.metadata = some x → x = some (expectedMetadata c) :=
  c08_auth c (effFaults c faults) ops

/-- tripwire: how `get_provider` loads the class.  The documented `UnknownAuthProvider` is raised only when the attribute
    EXISTS AND IS `None` (`SERVICE_AUTH_PROVIDER='builtins.None'`); every realistic failure surfaces as ValueError /
    ModuleNotFoundError / AttributeError / TypeError from the unguarded statements -/
theorem c08_get_provider_load :
    getProviderLoad = ["module, cls = provider.rsplit('.', 1)", "provider_class = getattr(import_module(module), cls)",
                       "if provider_class is None:", "return provider_class(config)"] := by
  decide

/-- **any number of threads** at `metadata()` (poll timer, task pool), any schedule of their two atomic regions:
    every request is sent with the provider's metadata — no thread ever sees a placeholder -/
theorem c08_auth_concurrent (c : AuthCfg) (n : Nat) (sched : List Nat) :
    ∀ md ∈ (crun c n sched).sent, md = expectedMetadata c :=
  crun_inv c sched ⟨none, List.replicate n 0, []⟩ ⟨Or.inl rfl, by intro md h; cases h⟩

/-- non-vacuity: a poll and a push with a custom provider both go out with its metadata; a snapshot that cannot be
    converted sends nothing -/
example :
    let c : AuthCfg := ⟨some "my.Provider", .custom [("authorization", "Bearer t"), ("x-org", "7")], none, none⟩
    (run c (fun _ => false) ⟨none, 0⟩ [.poll 1 [] ⟨[], 0⟩, .push (witness (.bool true) (Text.ofString "fn")),
                   .push (witness (.bool true) [0xDC00])]).map Wire.metadata
      = [some (some [("authorization", "Bearer t"), ("x-org", "7")]),
         some (some [("authorization", "Bearer t"), ("x-org", "7")]), none] := by
  decide

/-- non-vacuity: with a provider name that cannot be loaded (`builtins.None`) a poll and a push send nothing in a
    fault-free environment; a callable that is not a provider (`builtins.print`) is treated as no provider: both go out
    with empty metadata -/
example :
    let bad : AuthCfg := ⟨some "builtins.None", .unloadable, none, none⟩
    let notp : AuthCfg := ⟨some "builtins.print", .notAProvider, none, none⟩
    let ops : List Op := [.poll 1 [] ⟨[], 0⟩, .push (witness (.bool true) (Text.ofString "fn"))]
    bad.unloadable = true ∧ (runCfg bad (fun _ => false) ⟨none, 0⟩ ops).map Wire.metadata = [none, none] ∧
    notp.unloadable = false ∧
    (runCfg notp (fun _ => false) ⟨none, 0⟩ ops).map Wire.metadata = [some (some []), some (some [])] := by
  decide

/-- basic auth without a password supplies no metadata — and the requests still carry the (empty) metadata argument -/
example :
    let c : AuthCfg := ⟨some "deep.api.auth.BasicAuthProvider", .basic, some "bob", none⟩
    (run c (fun _ => false) ⟨none, 0⟩ [.poll 1 [] ⟨[], 0⟩]).map Wire.metadata = [some (some [])] := by
  decide

/-- the provider fails the first two times it is asked: those two operations send nothing, everything after carries
    the metadata; and two threads overlapping at the first use both send it -/
example :
    let c : AuthCfg := ⟨some "my.Provider", .custom [("authorization", "Bearer t")], none, none⟩
    (run c (fun i => decide (i < 2)) ⟨none, 0⟩
        [.poll 1 [] ⟨[], 0⟩, .push (witness (.bool true) (Text.ofString "fn")), .poll 2 [] ⟨[], 0⟩,
         .push (witness (.bool true) (Text.ofString "fn"))]).map Wire.metadata
      = [none, none, some (some [("authorization", "Bearer t")]), some (some [("authorization", "Bearer t")])] ∧
    (crun c 2 [0, 1, 1, 0]).sent = [[("authorization", "Bearer t")], [("authorization", "Bearer t")]] := by
  decide

end C08
