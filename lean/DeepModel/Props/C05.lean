/-
  C05 — Collection is bounded and spends its budget breadth-first.

  Model: `Collector.step / run / runToEnd / processVariable / collect` (Model/Collector.lean) over a heap of raw object
  facts (Model/Heap.lean).  Every decision in it is a definition of `Extracted.Collector`, regenerated from the Python
  source on every run: `check_var_count`, `new_var_id`, `truncate_string`, the depth test of `process_child_nodes`,
  the cap test of `process_list_breadth_first`, the queue end of `breadth_first_search`, the type-name lists, the
  order of the kind tests.  The theorems below are therefore about the code as it is now.

  Quantifiers: every heap (finite list of objects with arbitrary references: sharing, cycles, dangling), every
  setting of the four limits including 0, every list of frames and of watch / log / capture values, every number of
  iterations.  No bound anywhere.

  DOMAIN of the limits: natural numbers (`Limits` has `Nat` fields).  The code takes the four values as they are in the
  config of a directly constructed action (tracepoint args never reach them): a negative int stops the search before the
  root (`size > max`) or slices from the end (`text[:-1]`), a non-integer value raises inside the comparison and the
  action produces no snapshot.  Both are outside the statement; the check records them in a labelled stream.

  SCOPE of the order theorems (`c05_bfs_order`, `c05_queue_invariant`, `c05_level_order`, `c05_locals_first`) and of
  `c05_budget_spent`: ONE search — one `process_variable` call: the locals of one frame, one watch / log field value, the
  capture value.  A snapshot is a sequence of searches sharing the cache; across searches depths restart at 0.
  The bounds (`c05_count`, `c05_string`, `c05_collection`, `c05_depth`) are per snapshot.
-/
import DeepModel.Proofs.CollectorSnap
import DeepModel.Proofs.FramesCollect
import DeepModel.Proofs.FramesEntries
import DeepModel.Proofs.CollectorExamples

namespace C05
open Heap Collector Extracted.Collector

/-! ### count -/

/-- **count, per search** — whatever the heap, after any number of iterations of any search started inside an
    action, the identity cache (one id per recorded variable) holds at most `maxVars + 1` ids. -/
theorem c05_count_search (H : Heap) (L : Limits) (c : Cache) (t : List Entry) (name : String) (o : ObjId) (k : Nat)
    (h : AInv L c t) : (run H L k (bfsInit L c t name o)).cache.length ≤ L.maxVars + 1 :=
  (run_rinv k _ (h.rinv_init name o)).count

/-- **count, per snapshot** — a finished snapshot (frames of the whole stack, watches, log fields, capture value
    together) has at most `maxVars + 1` table entries. -/
theorem c05_count (H : Heap) (a : ActionIn) (s : Snapshot) (h : collect H a = .ok s) :
    s.table.length ≤ a.limits.maxVars + 1 := by
  have f := collect_facts h
  have := f.inv.count
  have := f.len
  omega

/-- **the budget is spent before anything is dropped** — a search is cut short by the budget test only when
    `maxVars + 1` ids have been handed out (it never stops early). -/
theorem c05_budget_spent (H : Heap) (L : Limits) (c : Cache) (t : List Entry) (name : String) (o : ObjId) (k : Nat)
    (h : AInv L c t) (hs : (run H L k (bfsInit L c t name o)).stopped = true) :
    (run H L k (bfsInit L c t name o)).cache.length = L.maxVars + 1 := by
  have r := run_rinv (H := H) k _ (h.rinv_init name o)
  have := r.count
  have := r.stop hs
  omega

/-! ### strings -/

/-- **strings** — every entry's value is the rendered text of its object cut to `maxStr` code points: never longer
    than `maxStr`, a prefix of the full text, and flagged truncated exactly when the full text is longer. -/
theorem c05_string (H : Heap) (a : ActionIn) (s : Snapshot) (h : collect H a = .ok s) :
    ∀ e ∈ s.table, ∃ text, renderText (H.obj e.obj) = .ok text ∧
      e.value.length ≤ a.limits.maxStr ∧ e.value.toList = text.toList.take a.limits.maxStr ∧
      (e.truncated = true ↔ text.length > a.limits.maxStr) := by
  intro e he
  obtain ⟨text, h1, _, h3, h4⟩ := Frames.collect_ok h e he
  refine ⟨text, h1, ?_, ?_, ?_⟩
  · rw [h3]; simp [truncateString, Py.sliceTo]; omega
  · rw [h3]; simp [truncateString, Py.sliceTo]
  · rw [h4]; simp [truncateString, Py.len]

/-! ### collections -/

/-- **collections** — an entry for a sequence-like value (a list / tuple / set / frozenset type name that is not an
    exact dict) or for an exception (whose `args` are its children) lists at most `maxColl` children. -/
theorem c05_collection (H : Heap) (a : ActionIn) (s : Snapshot) (h : collect H a = .ok s) :
    ∀ e ∈ s.table, (H.obj e.obj).isDictExact = false →
      (listLikeTypes.contains e.ty = true ∨ (H.obj e.obj).isExc = .ok true) →
      e.children.length ≤ a.limits.maxColl := by
  intro e he hd hk
  obtain ⟨_, _, hty, _, _⟩ := Frames.collect_ok h e he
  obtain ⟨cs, lost, hcs, hsplit, _⟩ := Frames.collect_kids h e he
  have hcap := childNodes_cap a.limits e.vid (H.obj e.obj) e.depth cs hcs hd (by rw [← hty]; exact hk)
  have := congrArg List.length hsplit
  simp only [List.length_append, List.length_map] at this
  omega

/-! ### depth -/

/-- **depth** (first-recording depth) — `Entry.depth` is the depth of the node that RECORDED the entry (the value a search
    starts from — a frame's locals dict, a watch value — is level 0 and is always recorded; truncated subtraction).  It is at
    most `maxDepth - 1`, and a value is expanded only when its own recording depth + 1 is below the limit
    (`c05_depth_cut`).  Within a search the recording depth is the SHALLOWEST depth at which the search meets the object
    (`c05_bfs_order`).  This is not a bound on the longest path of references in the snapshot: an object recorded at a
    shallow level (and expanded there) can also be referred to from a deeper entry, or from a later search, through the
    cache — `z = [y]; y = [x]; x = [w]` with `maxDepth = 3` records `w` at depth 2 under `x`, and the chain z → y → x → w
    has four levels.  "Nothing nested deeper than the maximum depth" is read as: nothing is recorded at a depth beyond the
    limit and nothing is expanded at the limit; the check's oracle measures the same thing (shortest distance from the
    frame variables / watch results in the snapshot's own graph). -/
theorem c05_depth (H : Heap) (a : ActionIn) (s : Snapshot) (h : collect H a = .ok s) :
    ∀ e ∈ s.table, e.depth ≤ a.limits.maxDepth - 1 := by
  intro e he
  have f := collect_facts h
  rcases f.inv.tdepth e he with h0 | h1
  · omega
  · omega

/-- the work list never holds a node deeper than that either, at any time of any search -/
theorem c05_depth_queue (H : Heap) (L : Limits) (c : Cache) (t : List Entry) (name : String) (o : ObjId) (k : Nat)
    (h : AInv L c t) : ∀ n ∈ (run H L k (bfsInit L c t name o)).queue, n.depth ≤ L.maxDepth - 1 := by
  intro n hn
  rcases (run_rinv (H := H) k _ (h.rinv_init name o)).qdepth n hn with h0 | h1
  · omega
  · omega

/-- children are only looked for below the depth limit: `childNodes` of a value recorded at depth `d` is empty unless
    `d + 1 < maxDepth` -/
theorem c05_depth_cut (L : Limits) (pvid : Nat) (o : PyObj) (d : Nat) (hd : L.maxDepth ≤ d + 1) (cs : List Node)
    (h : childNodes L pvid o d = .ok cs) : cs = [] := by
  cases cs with
  | nil => rfl
  | cons c cs => have := (childNodes_meta L pvid o d _ h c (List.mem_cons_self ..)).2.2; omega

/-! ### all sources of values share the limits of the action -/

/-- watch, log-field and capture values are collected with the action's own limits (in the model both loops of
    `collect` receive `a.limits`; these are the facts of the source that make the model right) -/
theorem c05_all_sources_same_limits :
    watchesUseActionLimits = true ∧ logUsesActionLimits = true ∧ logUsesActionCache = true := by decide

/-! ### breadth first -/

/-- the code takes the next node from the FRONT of the work list (`queue.pop(0)`) — re-checked against the source on
    every run; every theorem of this section depends on it -/
theorem c05_queue_front : queueEnd = .front := queueEnd_front

/-- **breadth-first order** (per search) — at any time of any search, the recorded variables were recorded in non-decreasing depth
    order: everything at one depth is recorded before anything deeper. -/
theorem c05_bfs_order (H : Heap) (L : Limits) (c : Cache) (t : List Entry) (name : String) (o : ObjId) (k : Nat) :
    ((run H L k (bfsInit L c t name o)).recorded.map (fun p => p.1.depth)).Pairwise (· ≤ ·) := by
  have b := run_binv k _ (bfsInit_binv H L c t name o)
  have hp : (run H L k (bfsInit L c t name o)).popped.Pairwise (fun a b => a.depth ≤ b.depth) :=
    (List.pairwise_append.mp b.sorted).1
  have := hp.sublist b.recSub
  rw [List.pairwise_map] at this ⊢
  exact this

/-- the queue invariant behind it: taken nodes followed by waiting nodes are sorted by depth, and the waiting nodes
    span at most two adjacent levels -/
theorem c05_queue_invariant (H : Heap) (L : Limits) (c : Cache) (t : List Entry) (name : String) (o : ObjId) (k : Nat) :
    let s := run H L k (bfsInit L c t name o)
    (s.popped ++ s.queue).Pairwise (fun a b => a.depth ≤ b.depth) ∧
      ∀ a ∈ s.queue, ∀ b ∈ s.queue, b.depth ≤ a.depth + 1 := by
  have b := run_binv k _ (bfsInit_binv H L c t name o)
  exact ⟨b.sorted, b.span⟩

/-- **shallower variables win** (per search) — once a search has taken a node more than one level below a recorded variable `p`,
    every child of `p` already has its id: no variable is crowded out by something deeper. -/
theorem c05_level_order (H : Heap) (L : Limits) (c : Cache) (t : List Entry) (name : String) (o : ObjId) (k : Nat) :
    let s := run H L k (bfsInit L c t name o)
    ∀ p ∈ s.recorded, ∀ cs, childNodes L p.2 (H.obj p.1.obj) p.1.depth = .ok cs →
      (∃ b ∈ s.popped, p.1.depth + 1 < b.depth) → ∀ x ∈ cs, (lookupId s.cache x.obj).isSome = true := by
  intro s p hp cs hcs ⟨b, hb, hlt⟩ x hx
  have bi := run_binv k _ (bfsInit_binv H L c t name o)
  have hmem := bi.kids p hp cs hcs x hx
  have hxd := (childNodes_meta L _ _ _ cs hcs x hx).1
  rcases List.mem_append.mp hmem with h1 | h1
  · exact bi.seen x h1
  · have := (List.pairwise_append.mp bi.sorted).2.2 b hb x h1
    omega

/-- **locals first** — in the search of a frame (root = the frame's locals dict, an exact dict): once any value nested
    inside a local (depth ≥ 2) has been taken from the work list, every local of the frame already has its id. -/
theorem c05_locals_first (H : Heap) (L : Limits) (c : Cache) (t : List Entry) (d : ObjId) (k : Nat)
    (hdict : (H.obj d).isDictExact = true) (hname : (H.obj d).tyName = "dict") (hdepth : 2 ≤ L.maxDepth) :
    let s := run H L k (bfsInit L c t localsName d)
    (∃ b ∈ s.popped, 2 ≤ b.depth) → (∃ id, (⟨localsName, none, d, 0, none⟩, id) ∈ s.recorded) →
      ∀ kv ∈ (H.obj d).dictItems, (lookupId s.cache kv.2).isSome = true := by
  intro s ⟨b, hb, hb2⟩ ⟨id, hrec⟩ kv hkv
  have hcs : childNodes L id (H.obj d) 0 = .ok (dictChildren _root_.id id 1 (H.obj d).dictItems) := by
    have hnd : depthStop (0 : Int) (L.maxDepth : Int) = false := by
      simp [depthStop]; omega
    unfold childNodes
    rw [hname]
    simp [noChildTypes, childBranches, branchChildren, hdict, hnd]
  have := c05_level_order H L c t localsName d k _ hrec _ hcs ⟨b, hb, by simp only; omega⟩
  apply this ⟨kv.1.text, nodeOrig kv.1.text (if kv.1.isStr then some kv.1.text else none), kv.2, 1, some id⟩
  simp only [dictChildren, List.mem_map]
  exact ⟨kv, hkv, rfl⟩

/-! ### termination -/

/-- **every search ends** — for every heap (cyclic or not) and every limits, independently of the depth limit: after
    `fuelBound` iterations the search is over (work list empty, budget reached, or an exception left it). -/
theorem c05_terminates (H : Heap) (L : Limits) (s : BState) :
    ∃ n, (run H L n s).final = true := ⟨fuelBound H L s, runToEnd_final H L s⟩

/-- and a finished search does not move any more -/
theorem c05_final_stable (H : Heap) (L : Limits) (s : BState) (k : Nat) :
    run H L k (runToEnd H L s) = runToEnd H L s := run_final k (runToEnd_final H L s)

/-! ### non-vacuity: the limits are really hit by concrete heaps

  `z = [[1,2,3],[4,5,6],[7,8,9]]; y = 7` (the example of defect D4) -/

set_option maxRecDepth 20000

/-- budget 3: the locals dict (deleted afterwards), `z`, `y` and the first sub-list are recorded — `y` is not crowded
    out by the contents of `z`; exactly `maxVars + 1 = 4` ids were handed out -/
example : (match collect Ex.nested ⟨⟨3, 1024, 10, 5⟩, Ex.frame0, []⟩ with
    | .ok s => (s.frames.map (·.map (fun r => (r.vid, r.name))), s.table.map (fun e => (e.vid, e.depth)))
    | .failed _ => ([], [])) = ([[(2, "z"), (3, "y")]], [(2, 1), (3, 1), (4, 2)]) := by decide

/-- collection size 2, string length 3: `z` lists 2 of its 3 elements, "Size: 3" is cut to "Siz" and flagged -/
example : (match collect Ex.nested ⟨⟨40, 3, 2, 5⟩, Ex.frame0, []⟩ with
    | .ok s => s.table.map (fun e => (e.vid, e.value, e.truncated, e.children.length))
    | .failed _ => []) =
    [(2, "Siz", true, 2), (3, "7", false, 0), (4, "Siz", true, 2), (5, "Siz", true, 2),
     (6, "1", false, 0), (7, "2", false, 0), (8, "4", false, 0), (9, "5", false, 0)] := by decide

/-- depth 2: only the locals themselves; depth 1 or 0: the frame has no variables at all (the locals dict is level 0) -/
example : (match collect Ex.nested ⟨⟨40, 1024, 10, 2⟩, Ex.frame0, []⟩ with
    | .ok s => s.table.map (fun e => (e.vid, e.depth, e.children.length)) | .failed _ => []) = [(2, 1, 0), (3, 1, 0)] := by
  decide
example : (match collect Ex.nested ⟨⟨40, 1024, 10, 1⟩, Ex.frame0, []⟩ with
    | .ok s => (s.frames, s.table) | .failed _ => ([], [])) = ([[]], []) := by decide

/-- the search of the nested example stops by the budget (`c05_budget_spent` is not vacuous) -/
example : (runToEnd Ex.nested ⟨3, 1024, 10, 5⟩ (bfsInit ⟨3, 1024, 10, 5⟩ [] [] localsName 0)).stopped = true := by decide

/-- with the BACK of the work list (the code before the fix of D4) the same budget is spent inside the last sub-list
    and `y` is missed: the order theorems are about the queue end, not about the rest of the model -/
example : ((popWith .back [⟨"a", none, 1, 1, none⟩, ⟨"b", none, 2, 1, none⟩]).map (·.1.name)) = some "b" := by decide

end C05
