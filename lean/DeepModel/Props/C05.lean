/-
  C05 — Collection is bounded and spends its budget breadth-first.

  Model: `Collector.step / run / runToEnd / processVariable / collect` (Model/Collector.lean) over a heap of raw object
  facts (Model/Heap.lean).  Every decision in it is a definition of `Extracted.Collector`, regenerated from the Python
  source on every run: `check_var_count`, `new_var_id`, `truncate_string`, the depth test of `process_child_nodes`,
  the cap test of `process_list_breadth_first`, the queue end of `breadth_first_search`, the type-name lists, the
  order of the kind tests.  The theorems below are therefore about the code as it is now.

  Quantifiers: every heap (finite list of objects with arbitrary references: sharing, cycles, dangling), every
  setting of the four limits including 0, every list of frames and of watch / log / capture values, every number of
  iterations.  No bound anywhere.

  DOMAIN of the limits: natural numbers (`Limits` has `Nat` fields).  The code takes the four values as they are in the
  config of a directly constructed action (tracepoint args never reach them): a negative int stops the search before the
  root (`size > max`) or slices from the end (`text[:-1]`), a non-integer value raises inside the comparison and the
  action produces no snapshot.  Both are outside the statement; the check records them in a labelled stream.

  SCOPE of the order theorems (`c05_bfs_order`, `c05_queue_invariant`, `c05_level_order`, `c05_locals_first`) and of
  `c05_budget_spent`: ONE search — one `process_variable` call: the locals of one frame, one watch / log field value, the
  capture value.  A snapshot is a sequence of searches sharing the cache; across searches depths restart at 0.
  The bounds (`c05_count`, `c05_string`, `c05_collection`, `c05_depth`) are per snapshot.

  DEFERRED SNAPSHOTS (`c05_deferred_*`): a snapshot with stage line_capture / method_capture is collected at the line and
  completed later by `DeferredSnapshotActionCallback` with the returned / raised value.  `Collector.deferredSnapshot`
  (Model/CollectorDeferred.lean) models the two phases with what `Extracted.CollectorDeferred` says the second finds of the
  first; `deferred_eq_collect` proves the result equal to ONE collection (frames, watches / log fields, captured value last),
  so every per-snapshot bound above holds over the whole pushed snapshot, for every event and value — WHEN THE HOST CHANGED
  NOTHING the snapshot looks at between the two phases (one heap).  In general the host runs in between: `deferredSnapshot2 H H'`
  has a heap per phase; count, depth and identity are proved for every pair (`c05_deferred_count`, `C07.c07_deferred_identity`),
  the "describes its object" clauses only for `H' = H` (`c05_deferred_bounds_partial`, witness `c05_stale_capture_witness`).

  THE TIME BUDGET (`c05_time_*`, section at the end): `FrameCollector.__time_exceeded` and the guard of `_process_frame` are
  regenerated from the source (`Extracted/CollectorTime.lean`); the clock is a script (`Clock.read k` = what the k-th
  `time_ns()` call of the collector returns), ANY function Nat → Int (not monotone, may lie before `ts`), any `ts`, any
  INT budget incl. 0 and negative within `BudgetInRange` (|maxMs| < 2^32: where exact division stands for float division).  The statement does not say what the time budget is to do; what the code does is stated
  exactly (`c05_time_exact`): the clock is looked at once per selected frame on REACHING it, a frame reached within the
  budget is collected whole (the clock is not looked at again until the next frame — `c05_time_reads`, and the number of
  clock reads of the real collector is compared on every case), a frame reached after it carries no variables, and so do
  all later ones (`c05_time_sticky`); such frames are still listed (`C02.c02_frames` holds for whatever the collector
  produced).  NOT covered: time spent inside one frame's collection is never checked by the code — one huge frame can
  overrun the budget without bound; watches / log fields / capture values are collected whatever the clock says.
-/
import DeepModel.Proofs.CollectorSnap
import DeepModel.Proofs.FramesCollect
import DeepModel.Proofs.FramesEntries
import DeepModel.Proofs.CollectorExamples
import DeepModel.Proofs.CollectorTime
import DeepModel.Proofs.CollectorDeferred
import DeepModel.Proofs.Frames

namespace C05
open Heap Collector Extracted.Collector

/-! ### count -/

/-- **count, per search** — whatever the heap, after any number of iterations of any search started inside an
    action, the identity cache (one id per recorded variable) holds at most `maxVars + 1` ids. -/
theorem c05_count_search (H : Heap) (L : Limits) (c : Cache) (t : List Entry) (name : String) (o : ObjId) (k : Nat)
    (h : AInv L c t) : (run H L k (bfsInit L c t name o)).cache.length ≤ L.maxVars + 1 :=
  (run_rinv k _ (h.rinv_init name o)).count

/-- **count, per snapshot** — a finished snapshot (frames of the whole stack, watches, log fields, capture value
    together) has at most `maxVars + 1` table entries. -/
theorem c05_count (H : Heap) (a : ActionIn) (s : Snapshot) (h : collect H a = .ok s) :
    s.table.length ≤ a.limits.maxVars + 1 := by
  have f := collect_facts h
  have := f.inv.count
  have := f.len
  omega

/-- **the budget is spent before anything is dropped** — a search is cut short by the budget test only when
    `maxVars + 1` ids have been handed out (it never stops early). -/
theorem c05_budget_spent (H : Heap) (L : Limits) (c : Cache) (t : List Entry) (name : String) (o : ObjId) (k : Nat)
    (h : AInv L c t) (hs : (run H L k (bfsInit L c t name o)).stopped = true) :
    (run H L k (bfsInit L c t name o)).cache.length = L.maxVars + 1 := by
  have r := run_rinv (H := H) k _ (h.rinv_init name o)
  have := r.count
  have := r.stop hs
  omega

/-! ### strings -/

/-- **strings** — every entry's value is the rendered text of its object cut to `maxStr` code points: never longer
    than `maxStr`, a prefix of the full text, and flagged truncated exactly when the full text is longer. -/
theorem c05_string (H : Heap) (a : ActionIn) (s : Snapshot) (h : collect H a = .ok s) :
    ∀ e ∈ s.table, ∃ text, renderText (H.obj e.obj) = .ok text ∧
      e.value.length ≤ a.limits.maxStr ∧ e.value.toList = text.toList.take a.limits.maxStr ∧
      (e.truncated = true ↔ text.length > a.limits.maxStr) := by
  intro e he
  obtain ⟨text, h1, _, h3, h4⟩ := Frames.collect_ok h e he
  refine ⟨text, h1, ?_, ?_, ?_⟩
  · rw [h3]; simp [truncateString, Py.sliceTo]; omega
  · rw [h3]; simp [truncateString, Py.sliceTo]
  · rw [h4]; simp [truncateString, Py.len]

/-! ### collections -/

/-- **collections** — an entry for a sequence-like value (a list / tuple / set / frozenset type name that is not an
    exact dict) or for an exception (whose `args` are its children) lists at most `maxColl` children. -/
theorem c05_collection (H : Heap) (a : ActionIn) (s : Snapshot) (h : collect H a = .ok s) :
    ∀ e ∈ s.table, (H.obj e.obj).isDictExact = false →
      (listLikeTypes.contains e.ty = true ∨ (H.obj e.obj).isExc = .ok true) →
      e.children.length ≤ a.limits.maxColl := by
  intro e he hd hk
  obtain ⟨_, _, hty, _, _⟩ := Frames.collect_ok h e he
  obtain ⟨cs, lost, hcs, hsplit, _⟩ := Frames.collect_kids h e he
  have hcap := childNodes_cap a.limits e.vid (H.obj e.obj) e.depth cs hcs hd (by rw [← hty]; exact hk)
  have := congrArg List.length hsplit
  simp only [List.length_append, List.length_map] at this
  omega

/-! ### depth -/

/-- **depth** (first-recording depth) — `Entry.depth` is the depth of the node that RECORDED the entry (the value a search
    starts from — a frame's locals dict, a watch value — is level 0 and is always recorded; truncated subtraction).  It is at
    most `maxDepth - 1`, and a value is expanded only when its own recording depth + 1 is below the limit
    (`c05_depth_cut`).  Within a search the recording depth is the SHALLOWEST depth at which the search meets the object
    (`c05_bfs_order`).  This is not a bound on the longest path of references in the snapshot: an object recorded at a
    shallow level (and expanded there) can also be referred to from a deeper entry, or from a later search, through the
    cache — `z = [y]; y = [x]; x = [w]` with `maxDepth = 3` records `w` at depth 2 under `x`, and the chain z → y → x → w
    has four levels.  "Nothing nested deeper than the maximum depth" is read as: nothing is recorded at a depth beyond the
    limit and nothing is expanded at the limit; the check's oracle measures the same thing (shortest distance from the
    frame variables / watch results in the snapshot's own graph). -/
theorem c05_depth (H : Heap) (a : ActionIn) (s : Snapshot) (h : collect H a = .ok s) :
    ∀ e ∈ s.table, e.depth ≤ a.limits.maxDepth - 1 := by
  intro e he
  have f := collect_facts h
  rcases f.inv.tdepth e he with h0 | h1
  · omega
  · omega

/-- the work list never holds a node deeper than that either, at any time of any search -/
theorem c05_depth_queue (H : Heap) (L : Limits) (c : Cache) (t : List Entry) (name : String) (o : ObjId) (k : Nat)
    (h : AInv L c t) : ∀ n ∈ (run H L k (bfsInit L c t name o)).queue, n.depth ≤ L.maxDepth - 1 := by
  intro n hn
  rcases (run_rinv (H := H) k _ (h.rinv_init name o)).qdepth n hn with h0 | h1
  · omega
  · omega

/-- children are only looked for below the depth limit: `childNodes` of a value recorded at depth `d` is empty unless
    `d + 1 < maxDepth` -/
theorem c05_depth_cut (L : Limits) (pvid : Nat) (o : PyObj) (d : Nat) (hd : L.maxDepth ≤ d + 1) (cs : List Node)
    (h : childNodes L pvid o d = .ok cs) : cs = [] := by
  cases cs with
  | nil => rfl
  | cons c cs => have := (childNodes_meta L pvid o d _ h c (List.mem_cons_self ..)).2.2; omega

/-! ### all sources of values share the limits of the action -/

/-- watch, log-field and capture values are collected with the action's own limits (in the model both loops of
    `collect` receive `a.limits`; these are the facts of the source that make the model right) -/
theorem c05_all_sources_same_limits :
    watchesUseActionLimits = true ∧ logUsesActionLimits = true ∧ logUsesActionCache = true := by decide

/-! ### breadth first -/

/-- the code takes the next node from the FRONT of the work list (`queue.pop(0)`) — re-checked against the source on
    every run; every theorem of this section depends on it -/
theorem c05_queue_front : queueEnd = .front := queueEnd_front

/-- **breadth-first order** (per search) — at any time of any search, the recorded variables were recorded in non-decreasing depth
    order: everything at one depth is recorded before anything deeper. -/
theorem c05_bfs_order (H : Heap) (L : Limits) (c : Cache) (t : List Entry) (name : String) (o : ObjId) (k : Nat) :
    ((run H L k (bfsInit L c t name o)).recorded.map (fun p => p.1.depth)).Pairwise (· ≤ ·) := by
  have b := run_binv k _ (bfsInit_binv H L c t name o)
  have hp : (run H L k (bfsInit L c t name o)).popped.Pairwise (fun a b => a.depth ≤ b.depth) :=
    (List.pairwise_append.mp b.sorted).1
  have := hp.sublist b.recSub
  rw [List.pairwise_map] at this ⊢
  exact this

/-- the queue invariant behind it: taken nodes followed by waiting nodes are sorted by depth, and the waiting nodes
    span at most two adjacent levels -/
theorem c05_queue_invariant (H : Heap) (L : Limits) (c : Cache) (t : List Entry) (name : String) (o : ObjId) (k : Nat) :
    let s := run H L k (bfsInit L c t name o)
    (s.popped ++ s.queue).Pairwise (fun a b => a.depth ≤ b.depth) ∧
      ∀ a ∈ s.queue, ∀ b ∈ s.queue, b.depth ≤ a.depth + 1 := by
  have b := run_binv k _ (bfsInit_binv H L c t name o)
  exact ⟨b.sorted, b.span⟩

/-- **shallower variables win** (per search) — once a search has taken a node more than one level below a recorded variable `p`,
    every child of `p` already has its id: no variable is crowded out by something deeper. -/
theorem c05_level_order (H : Heap) (L : Limits) (c : Cache) (t : List Entry) (name : String) (o : ObjId) (k : Nat) :
    let s := run H L k (bfsInit L c t name o)
    ∀ p ∈ s.recorded, ∀ cs, childNodes L p.2 (H.obj p.1.obj) p.1.depth = .ok cs →
      (∃ b ∈ s.popped, p.1.depth + 1 < b.depth) → ∀ x ∈ cs, (lookupId s.cache x.obj).isSome = true := by
  intro s p hp cs hcs ⟨b, hb, hlt⟩ x hx
  have bi := run_binv k _ (bfsInit_binv H L c t name o)
  have hmem := bi.kids p hp cs hcs x hx
  have hxd := (childNodes_meta L _ _ _ cs hcs x hx).1
  rcases List.mem_append.mp hmem with h1 | h1
  · exact bi.seen x h1
  · have := (List.pairwise_append.mp bi.sorted).2.2 b hb x h1
    omega

/-- **locals first** — in the search of a frame (root = the frame's locals dict, an exact dict): once any value nested
    inside a local (depth ≥ 2) has been taken from the work list, every local of the frame already has its id. -/
theorem c05_locals_first (H : Heap) (L : Limits) (c : Cache) (t : List Entry) (d : ObjId) (k : Nat)
    (hdict : (H.obj d).isDictExact = true) (hname : (H.obj d).tyName = "dict") (hdepth : 2 ≤ L.maxDepth) :
    let s := run H L k (bfsInit L c t localsName d)
    (∃ b ∈ s.popped, 2 ≤ b.depth) → (∃ id, (⟨localsName, none, d, 0, none⟩, id) ∈ s.recorded) →
      ∀ kv ∈ (H.obj d).dictItems, (lookupId s.cache kv.2).isSome = true := by
  intro s ⟨b, hb, hb2⟩ ⟨id, hrec⟩ kv hkv
  have hcs : childNodes L id (H.obj d) 0 = .ok (dictChildren _root_.id id 1 (H.obj d).dictItems) := by
    have hnd : depthStop (0 : Int) (L.maxDepth : Int) = false := by
      simp [depthStop]; omega
    unfold childNodes
    rw [hname]
    simp [noChildTypes, childBranches, branchChildren, hdict, hnd]
  have := c05_level_order H L c t localsName d k _ hrec _ hcs ⟨b, hb, by simp only; omega⟩
  apply this ⟨kv.1.text, nodeOrig kv.1.text (if kv.1.isStr then some kv.1.text else none), kv.2, 1, some id⟩
  simp only [dictChildren, List.mem_map]
  exact ⟨kv, hkv, rfl⟩

/-! ### termination -/

/-- **every search ends** — for every heap (cyclic or not) and every limits, independently of the depth limit: after
    `fuelBound` iterations the search is over (work list empty, budget reached, or an exception left it). -/
theorem c05_terminates (H : Heap) (L : Limits) (s : BState) :
    ∃ n, (run H L n s).final = true := ⟨fuelBound H L s, runToEnd_final H L s⟩

/-- and a finished search does not move any more -/
theorem c05_final_stable (H : Heap) (L : Limits) (s : BState) (k : Nat) :
    run H L k (runToEnd H L s) = runToEnd H L s := run_final k (runToEnd_final H L s)

/-! ### the processing-time budget (`MAX_TP_PROCESS_TIME`) -/

section time
open CollectorTime

/-- the range in which the exact division of `Model/TimeBase.lean` stands for CPython's float division: the budget is an int
    of magnitude below 2^32 ms (≈ 49 days).  Argument (on paper, NOT machine-checked — there is no float model here):
    `int / int` is correctly rounded and monotone; `maxMs` is then exactly representable; a reading over the budget has an
    exact quotient ≥ `maxMs + 10^-6`, and half an ulp of a double below 2^32 is < 2.4·10^-7, so the rounded quotient is
    still > `maxMs`; a reading not over it has a quotient ≤ `maxMs`, which rounding cannot lift above `maxMs`.  The clock
    magnitude does not matter.  Outside the range the real collector differs: budget 10^13 ms, reading budget + 1 ns →
    `1e13 > 10**13` is False, the frame IS collected (reviewer's probe).  Budgets that are not ints (0.5, True, nan, inf:
    accepted by Python, other arithmetic; '100', None: TypeError out of `_process_frame`, the action is lost) are outside
    the model altogether (`maxMs : Int`): ASSUMPTIONS of the check, recorded in the stream `budget-outside`. -/
def BudgetInRange (ck : Clock) : Prop := -(2 : Int) ^ 32 < ck.maxMs ∧ ck.maxMs < (2 : Int) ^ 32

/-- **time budget, exactly** — for every scripted clock (any function, not assumed monotone), time stamp, frame-type
    selection of the stack, and every int budget IN RANGE (`BudgetInRange`: the hypothesis is not used by the proof — the
    model's exact arithmetic holds for all ints — it delimits where the model is the code): frame `i` gets its variables
    collected iff it is selected and neither the reading taken on reaching it nor any earlier reading was more than `maxMs` ms
    after the trigger's time stamp.  Refinement of the sticky-flag loop (`timeExceeded`: translated statement by statement;
    `frameGuard`: the guard expression of `_process_frame` recognised by shape, one of three templates by conjunct order) to
    the stateless `Spec.collects`. -/
theorem c05_time_exact (ck : Clock) (_hr : BudgetInRange ck) (sels : List Bool) (i : Nat) (hi : i < sels.length) :
    (decisions ck sels)[i]? = some (Spec.collects ck sels i) := by
  unfold decisions
  rw [initial_flag]
  have := decisionsFrom_spec ck sels 0 i hi
  simpa [Spec.collects] using this

theorem selectedBefore_mono (sels : List Bool) {i j : Nat} (h : i ≤ j) :
    Spec.selectedBefore sels i ≤ Spec.selectedBefore sels j := by
  unfold Spec.selectedBefore
  have : (sels.take i) = ((sels.take j).take i) := by rw [List.take_take, Nat.min_eq_left h]
  rw [this]
  exact (List.take_sublist _ _).count_le _

/-- **sticky** — once a selected frame was reached after the budget was spent (it carries no variables), no later frame
    carries variables either, whatever the clock says afterwards (it is not even looked at). -/
theorem c05_time_sticky (ck : Clock) (hr : BudgetInRange ck) (sels : List Bool) (i j : Nat) (hij : i < j) (hj : j < sels.length)
    (hs : sels[i]? = some true) (hd : (decisions ck sels)[i]? = some false) :
    (decisions ck sels)[j]? = some false := by
  have hi : i < sels.length := by omega
  rw [c05_time_exact ck hr sels i hi] at hd
  rw [c05_time_exact ck hr sels j hj]
  simp only [Option.some.injEq] at hd ⊢
  have hsel : sels.getD i false = true := by
    rw [List.getD_eq_getElem?_getD, hs]; rfl
  simp only [Spec.collects, hsel, Bool.true_and] at hd
  rw [List.all_eq_false] at hd
  obtain ⟨m, hm, hover⟩ := hd
  simp only [Spec.collects, Bool.and_eq_false_iff]
  right
  rw [List.all_eq_false]
  refine ⟨m, ?_, hover⟩
  have := selectedBefore_mono sels (Nat.le_of_lt hij)
  simp only [List.mem_range] at hm ⊢
  omega

/-- **within the budget nothing changes** — if no reading is over the budget, exactly the frames the frame type selects are
    collected. -/
theorem c05_time_within_budget (ck : Clock) (hr : BudgetInRange ck) (sels : List Bool) (h : ∀ k, Spec.over ck k = false) :
    decisions ck sels = sels := by
  apply List.ext_getElem?
  intro i
  by_cases hi : i < sels.length
  · rw [c05_time_exact ck hr sels i hi]
    have : (List.range (Spec.selectedBefore sels i + 1)).all (fun m => !Spec.over ck m) = true := by
      rw [List.all_eq_true]; intro m _; simp [h m]
    simp [Spec.collects, this, List.getD_eq_getElem?_getD, List.getElem?_eq_getElem hi]
  · have h1 : sels.length ≤ i := by omega
    have h2 : (decisions ck sels).length ≤ i := by
      unfold decisions; rw [decisionsFrom_length]; exact h1
    rw [List.getElem?_eq_none h1, List.getElem?_eq_none h2]

/-- model lemma: in the glue `decisionsFrom` (which contains the guard only — the collection of a frame is not part of it, so
    "no read inside a frame" is true BY CONSTRUCTION of the model) the clock is read once for every frame collected, plus at
    most once more (the reading that found the budget spent), and never more often than there are selected frames.  That the
    REAL collector reads the clock only there rests on the extractor's shape checks (exactly one `time_ns()` in
    `__time_exceeded`, `__time_exceeded` called only in the guard of `_process_frame`, the guard enclosing the whole collection)
    and on the comparison of the number of clock reads of the real collector with `readsUsed` on every generated case. -/
theorem c05_time_reads (ck : Clock) (sels : List Bool) :
    (decisions ck sels).count true ≤ readsUsed ck sels ∧
    readsUsed ck sels ≤ (decisions ck sels).count true + 1 ∧
    readsUsed ck sels ≤ sels.count true := by
  unfold decisions readsUsed
  have h1 := decisionsFrom_reads_collected ck sels TState.init
  have h2 := decisionsFrom_reads_le ck sels TState.init
  rw [initial_flag] at h1 h2 ⊢
  simp only [Nat.zero_add, Bool.false_eq_true, if_false, Nat.add_zero] at h1 h2
  exact ⟨h1.1, h1.2, h2⟩

/-- **frames reached after the budget carry no variables** — in the frame collection of an action run against a scripted
    clock: one variable list per frame of the stack, and the list of a frame that `Spec.collects` rejects is empty.  (That an
    ACCEPTED frame is collected whole is not stated here: it is what the check's oracle `judge_frames` measures.) -/
theorem c05_time_frames (H : Heap) (L : Limits) (ck : Clock) (hr : BudgetInRange ck) (fs : List TFrame) (c : Cache) (t : List Entry)
    (hok : (collectFrames H L (frameIns ck fs) c t).failed = none) :
    (collectFrames H L (frameIns ck fs) c t).frames.length = fs.length ∧
    ∀ i, i < fs.length → Spec.collects ck (fs.map (·.selected)) i = false →
      (collectFrames H L (frameIns ck fs) c t).frames[i]? = some [] := by
  have hlen : (frameIns ck fs).length = fs.length := by
    simp [frameIns, decisions, decisionsFrom_length]
  obtain ⟨h1, h2⟩ := Frames.collectFrames_shape H L (frameIns ck fs) c t hok
  refine ⟨by rw [h1, hlen], ?_⟩
  intro i hi hc
  apply h2
  have hd := c05_time_exact ck hr (fs.map (·.selected)) i (by simpa using hi)
  have hdi : i < (decisions ck (fs.map (·.selected))).length := by
    unfold decisions; rw [decisionsFrom_length]; simpa using hi
  rw [List.getElem?_eq_getElem hdi, hc] at hd
  simp only [frameIns, List.getElem?_zipWith, List.getElem?_eq_getElem hi, List.getElem?_eq_getElem hdi]
  simp only [Option.some.injEq] at hd
  simp [hd]

/-- tripwire: the constants of the budget — read from the action config under this key with this default (ms), and a NEW
    `FrameCollector` (hence a clear flag) for every action -/
theorem c05_time_constants : Extracted.CollectorTime.maxTpProcessTimeKey = "MAX_TP_PROCESS_TIME" ∧
    Extracted.CollectorTime.maxTpProcessTimeDefault = 100 ∧ Extracted.CollectorTime.collectorPerAction = true ∧
    Extracted.CollectorTime.initialExceeded = false := by decide

/-- model lemma: the actions of one trace event (`timedActions`, what the driver runs): the first action is decided by
    `decisions` with its OWN budget and a clear flag against the clock from the current reading on; the next action starts at
    the reading after the ones the first consumed — own flag, shared clock. -/
theorem c05_time_actions (ts : Int) (script : Nat → Int) (off : Nat) (a : TimedAction) (as : List TimedAction) :
    let ck : Clock := ⟨ts, a.maxMs, fun k => script (off + k)⟩
    (timedActions ts script off (a :: as)).1 =
      ⟨a.limits, frameIns ck a.frames, a.watches⟩ ::
        (timedActions ts script (off + readsUsed ck (a.frames.map (·.selected))) as).1 := rfl

/-- two actions, 100 ms each, script 5 ns, 200 ms, 5 ns: the first finds its budget spent at its second frame; the second
    starts with a clear flag and a clock that went back: it collects both frames -/
example : (timedActions 0 (fun k => [5, 200000000, 5].getD k 5) 0
      [⟨⟨1, 1, 1, 1⟩, [⟨0, true⟩, ⟨0, true⟩], [], 100⟩, ⟨⟨1, 1, 1, 1⟩, [⟨0, true⟩, ⟨0, true⟩], [], 100⟩]).1.map
        (fun a => a.frames.map (·.collect)) = [[true, false], [true, true]] := by decide

/-- non-vacuity: frame type all_frame over 4 frames, budget 100 ms, readings 5 ms, 100 ms (still inside: the comparison is
    strict), 100 ms + 1 ns (spent), then a clock that went BACK to 0: frames 0 and 1 collected, 2 and 3 not; 3 readings. -/
example : let ck : Clock := ⟨1, 100, fun k => [5000001, 100000001, 100000002, 0].getD k 0⟩
    (decisions ck [true, true, true, true], readsUsed ck [true, true, true, true]) =
      ([true, true, false, false], 3) := by decide

/-- single_frame (only frame 0 selected): one reading, the deeper frames never look at the clock -/
example : let ck : Clock := ⟨1, 100, fun _ => 0⟩
    (decisions ck [true, false, false], readsUsed ck [true, false, false]) = ([true, false, false], 1) := by decide

/-- budget 0 and a clock that has not moved: not spent (strictly more than); moved by 1 ns: spent -/
example : (decisions ⟨7, 0, fun _ => 7⟩ [true], decisions ⟨7, 0, fun _ => 8⟩ [true]) = ([true], [false]) := by decide

end time

/-! ### deferred snapshots (stage line_capture / method_capture): one budget across the callback -/

section deferred
open Extracted.CollectorDeferred

/-- tripwire: what makes the two phases of a deferred snapshot share one budget — as far as the extractor looks:
    `ActionContext.__exit__` has its known shape (does not touch the cache); inside `VariableCacheProvider` only `__init__` and
    `new_var_id` write the identity map; NO other store to an attribute named `var_cache` exists in action_context.py /
    snapshot_action.py (the constructor and the nested log context excepted), no setattr / `__dict__` access names the cache
    (`cacheRebinds = []`); the callback collects through the action context that built the snapshot and merges into that
    snapshot.  A rebinding by means the extractor does not look for (another module, exec) leaves these flags true: that side
    is covered by the differential run only (stream `deferred`). -/
theorem c05_deferred_shares_budget :
    exitKeepsCache = true ∧ cacheOnlyGrows = true ∧ cacheRebinds = [] ∧ callbackSameContext = true ∧
    mergeIsUpdate = true := by decide

/-- **count over the whole pushed snapshot, two heaps** — `H` = the program state at the tracepoint's line, `H'` = the state at
    the completing event (the host ran in between and may have changed, grown or emptied the objects phase 1 recorded): for
    every pair of heaps, limits, frames, watches, and every event / returned or raised value the callback completes the snapshot
    with, frame + watches + captured value together hold at most `maxVars + 1` variables (the callback does not start a fresh
    budget), and nothing is recorded deeper than `maxDepth - 1`. -/
theorem c05_deferred_count (H H' : Heap) (a : ActionIn) (event : String) (value : ObjId) (s : Snapshot)
    (h : deferredSnapshot2 H H' a event value = .ok s) :
    s.table.length ≤ a.limits.maxVars + 1 ∧ ∀ e ∈ s.table, e.depth ≤ a.limits.maxDepth - 1 := by
  obtain ⟨c, f, _⟩ := deferred2_facts h
  refine ⟨?_, ?_⟩
  · have := f.inv.count
    have := f.len
    omega
  · intro e he
    rcases f.inv.tdepth e he with h0 | h1
    · omega
    · omega

/-- **the per-entry bounds (partial)** — named hypothesis: the two phases see the SAME heap (`deferredSnapshot H` =
    `deferredSnapshot2 H H`: the host changed nothing the snapshot looks at between the tracepoint's line and the completing
    event).  Then every entry, the captured value's included, is the rendering of ITS object cut to `maxStr` (flag exact), and
    sequences / exceptions list at most `maxColl` children.  Without the hypothesis the "describes the value" reading fails
    (`c05_stale_capture_witness`); that each entry was within the bounds when it was recorded remains true of the code but is
    not proved here for `H ≠ H'` (the entry invariants of Proofs/FramesEntries are stated against one heap). -/
theorem c05_deferred_bounds_partial (H : Heap) (a : ActionIn) (event : String) (value : ObjId) (s : Snapshot)
    (h : deferredSnapshot H a event value = .ok s) :
    ∀ e ∈ s.table,
      (∃ text, renderText (H.obj e.obj) = .ok text ∧ e.value.length ≤ a.limits.maxStr ∧
        (e.truncated = true ↔ text.length > a.limits.maxStr)) ∧
      ((H.obj e.obj).isDictExact = false →
        (listLikeTypes.contains e.ty = true ∨ (H.obj e.obj).isExc = .ok true) → e.children.length ≤ a.limits.maxColl) := by
  obtain ⟨ws, hw⟩ := deferred_is_collect H a event value
  rw [hw] at h
  intro e he
  obtain ⟨text, h1, h2, _, h4⟩ := c05_string H ⟨a.limits, a.frames, ws⟩ s h e he
  exact ⟨⟨text, h1, h2, h4⟩, c05_collection H ⟨a.limits, a.frames, ws⟩ s h e he⟩

/-- `r = []` at the tracepoint's line (`return fill(r)`); at the return event the same list holds one element -/
def Ex.staleLine : Heap := ⟨[Ex.dictOf [("r", 1)], Ex.listOf []]⟩
def Ex.staleReturn : Heap := ⟨[Ex.dictOf [("r", 1)], Ex.listOf [2], Ex.scalar "int" "1000"]⟩

set_option maxRecDepth 20000

/-- non-vacuity: `z = [[1,2,3],[4,5,6],[7,8,9]]; y = 7`, budget 3 spent by the frame; the callback at `return` with the
    sub-list `[7,8,9]` (object 3, not yet recorded) gets an error result, not a fresh budget; at the next `line` event
    nothing is captured -/
example : (match deferredSnapshot Ex.nested ⟨⟨3, 1024, 10, 5⟩, Ex.frame0, []⟩ "return" 3 with
    | .ok s => (s.table.length, s.watches.map (fun w => (w.hasResult, w.error)))
    | .failed _ => (0, [])) = (3, [(false, some "variable limit reached")]) := by decide
example : (match deferredSnapshot Ex.nested ⟨⟨3, 1024, 10, 5⟩, Ex.frame0, []⟩ "line" 3 with
    | .ok s => (s.table.length, s.watches.length) | .failed _ => (0, 9)) = (3, 0) := by decide
/-- budget left: the captured value and its elements are recorded under new ids after the frame's -/
example : (match deferredSnapshot Ex.nested ⟨⟨40, 1024, 10, 2⟩, Ex.frame0, []⟩ "return" 3 with
    | .ok s => (s.table.map (·.vid), s.watches.map (·.vid)) | .failed _ => ([], [])) = ([2, 3, 4, 5, 6, 7], [some 4]) := by decide

/-- witness: **the hypothesis of `c05_deferred_bounds_partial` is needed** (known-finding candidate
    `C15/stale-capture-of-recorded-object`): the line records `r` as `Size: 0`; the function returns that same list, now
    holding one element; the identity cache answers for the captured value — the pushed snapshot says
    `return → id 2 = list 'Size: 0'`, no children, while the value returned renders as `Size: 1`. -/
theorem c05_stale_capture_witness :
    (match deferredSnapshot2 Ex.staleLine Ex.staleReturn ⟨⟨40, 1024, 10, 5⟩, Ex.frame0, []⟩ "return" 1 with
      | .ok s => (s.table.map (fun e => (e.vid, e.value, e.children.length)), s.watches.map (·.vid))
      | .failed _ => ([], [])) = ([(2, "Size: 0", 0)], [some 2]) ∧
    (match renderText (Ex.staleReturn.obj 1) with | .ok t => t | .error _ => "") = "Size: 1" := by decide

end deferred

/-! ### non-vacuity: the limits are really hit by concrete heaps

  `z = [[1,2,3],[4,5,6],[7,8,9]]; y = 7` (the example of defect D4) -/

set_option maxRecDepth 20000

/-- budget 3: the locals dict (deleted afterwards), `z`, `y` and the first sub-list are recorded — `y` is not crowded
    out by the contents of `z`; exactly `maxVars + 1 = 4` ids were handed out -/
example : (match collect Ex.nested ⟨⟨3, 1024, 10, 5⟩, Ex.frame0, []⟩ with
    | .ok s => (s.frames.map (·.map (fun r => (r.vid, r.name))), s.table.map (fun e => (e.vid, e.depth)))
    | .failed _ => ([], [])) = ([[(2, "z"), (3, "y")]], [(2, 1), (3, 1), (4, 2)]) := by decide

/-- collection size 2, string length 3: `z` lists 2 of its 3 elements, "Size: 3" is cut to "Siz" and flagged -/
example : (match collect Ex.nested ⟨⟨40, 3, 2, 5⟩, Ex.frame0, []⟩ with
    | .ok s => s.table.map (fun e => (e.vid, e.value, e.truncated, e.children.length))
    | .failed _ => []) =
    [(2, "Siz", true, 2), (3, "7", false, 0), (4, "Siz", true, 2), (5, "Siz", true, 2),
     (6, "1", false, 0), (7, "2", false, 0), (8, "4", false, 0), (9, "5", false, 0)] := by decide

/-- depth 2: only the locals themselves; depth 1 or 0: the frame has no variables at all (the locals dict is level 0) -/
example : (match collect Ex.nested ⟨⟨40, 1024, 10, 2⟩, Ex.frame0, []⟩ with
    | .ok s => s.table.map (fun e => (e.vid, e.depth, e.children.length)) | .failed _ => []) = [(2, 1, 0), (3, 1, 0)] := by
  decide
example : (match collect Ex.nested ⟨⟨40, 1024, 10, 1⟩, Ex.frame0, []⟩ with
    | .ok s => (s.frames, s.table) | .failed _ => ([], [])) = ([[]], []) := by decide

/-- the search of the nested example stops by the budget (`c05_budget_spent` is not vacuous) -/
example : (runToEnd Ex.nested ⟨3, 1024, 10, 5⟩ (bfsInit ⟨3, 1024, 10, 5⟩ [] [] localsName 0)).stopped = true := by decide

/-- with the BACK of the work list (the code before the fix of D4) the same budget is spent inside the last sub-list
    and `y` is missed: the order theorems are about the queue end, not about the rest of the model -/
example : ((popWith .back [⟨"a", none, 1, 1, none⟩, ⟨"b", none, 2, 1, none⟩]).map (·.1.name)) = some "b" := by decide

end C05
