/-
  C20 — Plugins are optional: ordered, skipped when missing / inactive / failing to construct, isolated when
  faulty.

  * loading: `Plugins.load` (Model/Plugins.lean) with the sort direction and the `order() or 0` default read from
    the source this run (`Extracted.Plugins`).  Quantifier: every list of configured plugins `specs` (built-in
    and custom, importable or not, constructible or not, active or not, any `order()` value: `None`, ints, bools and
    floats — every finite number, as the decimal `m / 10^e` it is (`Plugins.Num`), compared as Python compares numbers:
    negative, fractional, ties such as 1 / 1.0 / True; `inf`, `nan` and instances of int/float SUBCLASSES with their own
    comparison are outside the model —; something falsy that is not a number ('' / [] / {}: counts as 0, because
    `order() or 0` runs before the number test); raising; a truthy non-number).  The harness sends the EXACT value of a
    float (`float.as_integer_ratio`), so a float beyond 2^53 is compared with an int as Python compares them.
  * "switched off by configuration": `Extracted.Plugins.isActive` is `Plugin.is_active` + `utils.str2bool` translated from
    the source this run, on the value `PLUGIN_<NAME>` has when it reaches `is_active` (text, Python bool/int, or None).
  * what the statement's "the agent still starts" and "the snapshot is still delivered" rest on: `c20_start_completes`
    and `c20_snapshot_delivered` hold when ONLY plugin callbacks fail (with an `Exception`).  Unguarded steps of
    `Deep.start` — `load_plugins` as a whole, `Resource.create`, `config.resource_providers`, `trigger_handler.start`,
    `grpc.start`, `poll.start` — and of `_decorate_snapshot` — building the attributes, the final `merge_in` — are agent
    code; if one of THEM fails, start raises / the snapshot is lost (for the trace path contained by C01's handlers).
  * isolation: one theorem per callback family, each obtained from the *generic* isolation theorem
    (`Guard.iso_loop`, Proofs/GuardIso.lean) applied to the loop of that family in the guard skeleton extracted
    from the source this run.  Quantifier: every environment whose faults are `Exception`-class (`FaultsIn
    onlyExc`: what the handlers of the plugin loops are written for — a `BaseException` from a plugin is contained
    by C01's wrapper and by the per-action handler, but may cost the rest of that action) — i.e. every subset of
    callbacks raising at every call, every number of plugins, every branch decision; shutdown: either class.
    Each theorem says: the loop ends normally (the host operation goes on) and in EVERY iteration j the first call of
    the loop body — the plugin callback itself, or the argument read that directly precedes it (decorators: the
    snapshot id; span creation: the tracepoint; metric: the method name) — is made right after the iteration starts,
    whatever failed in the other iterations: a failure of plugin i never skips plugin j.  What the callback of j then
    does is the plugin's own business; that the delivered snapshot / metrics / spans of the other plugins are the same
    as without the failure is what the fault-subset runs on the real code compare.
-/
import DeepModel.Proofs.Plugins
import DeepModel.Proofs.GuardAt

namespace C20
open Plugins Guard Extracted.Guards

/-! ### loading -/

/-- **loaded = the loadable ones, stably sorted by the DECLARED `order() or 0`**: the result is a permutation of the
    configured plugins that import, construct and are active; it is ordered by key — the number `order()` returned
    (int, bool or float: `Num`, compared as Python compares numbers, nothing rounded) —; and plugins whose keys are
    the same number keep their configured order (built-in first, then custom, as listed). -/
theorem c20_loaded (specs : List Spec) :
    (load specs).Perm (specs.filter Spec.loadable) ∧
    (load specs).Pairwise (fun a b => a.key.le b.key = true) ∧
    ∀ k, (load specs).filter (fun s => s.key.eqv k) = (specs.filter Spec.loadable).filter (fun s => s.key.eqv k) :=
  ⟨sort_perm _, sort_sorted _, fun k => sort_stable k _⟩

/-- model lemma: **the order the plugins are compared by is the order of the numbers**: `Num.le` on `m / 10^e` is reflexive,
    total and transitive, agrees with `≤` of the integers on whole numbers, and does not depend on how many decimal
    places a number is written with (so 1, 1.0 and True are one position, and 1.2 < 1.5 < 2, -0.5 < 0). -/
theorem c20_order_is_numeric :
    (∀ a : Num, a.le a = true) ∧ (∀ a b : Num, a.le b = true ∨ b.le a = true) ∧
    (∀ a b c : Num, a.le b = true → b.le c = true → a.le c = true) ∧
    (∀ a b : Int, (Num.ofInt a).le (Num.ofInt b) = decide (a ≤ b)) ∧
    (∀ a : Num, a.eqv ⟨a.m * 10, a.e + 1⟩ = true) :=
  ⟨Num.le_refl, Num.le_total, fun _ _ _ => Num.le_trans, Num.le_ofInt, Num.eqv_scale⟩

/-- **a strictly smaller declared order is strictly in front**: if `a` and `b` are both loaded and `a`'s order is
    smaller than `b`'s (not `b ≤ a`), then `a` stands before `b` in the loaded list — whatever their configured
    sequence and however close the two numbers are (1.2 before 1.5, -0.5 before the built-in 0). -/
theorem c20_smaller_first (specs : List Spec) (i j : Nat) (hi : i < (load specs).length) (hj : j < (load specs).length)
    (hlt : ((load specs)[j]).key.le ((load specs)[i]).key = false) : i < j := by
  rcases Nat.lt_or_ge i j with h | h
  · exact h
  · exfalso
    rcases Nat.eq_or_lt_of_le h with h | h
    · subst h; rw [Num.le_refl] at hlt; exact Bool.noConfusion hlt
    · have := List.pairwise_iff_getElem.mp (c20_loaded specs).2.1 j i hj hi h
      rw [this] at hlt; exact Bool.noConfusion hlt

/-- model lemma: **the identity of a plugin is its configured ENTRY, not its name** (a corollary of the permutation in
    `c20_loaded`; `load` is the hand-written `sort ∘ filter`, so "nothing is de-duplicated" holds of the MODEL by
    construction — a de-duplicating loader leaves the extracted constants unchanged and is caught only dynamically, by
    the load stream's twin entries against the real `load_plugins`): every configured entry that is loadable is
    loaded exactly as many times as it is configured — also two entries that are equal in everything the model sees
    (the same dotted name listed twice; two classes with the same class name and `Plugin.name` from different
    modules) — and an entry that is not loadable is not loaded at all.  Nothing is de-duplicated. -/
theorem c20_loaded_multiplicity (specs : List Spec) (s : Spec) :
    (load specs).count s = if s.loadable then specs.count s else 0 := by
  rw [(c20_loaded specs).1.count_eq]
  cases h : s.loadable with
  | true => simp [List.count_filter h]
  | false =>
    simp only [Bool.false_eq_true, if_false]
    exact List.count_eq_zero.mpr (fun hm => by simp [List.mem_filter, h] at hm)

/-- a plugin is loaded iff it is configured and loadable: missing dependencies, `PLUGIN_<NAME>=False` and a
    raising constructor each skip exactly that plugin. -/
theorem c20_loaded_iff (specs : List Spec) (s : Spec) :
    s ∈ load specs ↔ s ∈ specs ∧ s.loadable = true := by
  rw [(c20_loaded specs).1.mem_iff, List.mem_filter]

/-- spelled out: loaded ⇔ configured, importable, constructible, `is_active()` evaluates to true for its switch, and
    `order()` usable. -/
theorem c20_loaded_iff_spelled (specs : List Spec) (s : Spec) :
    s ∈ load specs ↔ s ∈ specs ∧ s.importOk = true ∧ s.ctorOk = true ∧
      Extracted.Plugins.isActive s.switch = some true ∧ s.order ≠ .unusable := by
  rw [c20_loaded_iff]
  have hg : Extracted.Plugins.orderGuarded = true := by decide
  simp only [Spec.loadable, Spec.active, Spec.orderOk, hg, Bool.not_true, Bool.or_false, Bool.and_eq_true]
  constructor
  · rintro ⟨h1, ⟨⟨h2, h3⟩, h4⟩, h5⟩
    refine ⟨h1, h2, h3, ?_, ?_⟩
    · cases hh : Extracted.Plugins.isActive s.switch with
      | none => simp [hh] at h4
      | some b => simp [hh] at h4; rw [h4]
    · cases ho : s.order <;> simp_all
  · rintro ⟨h1, h2, h3, h4, h5⟩
    refine ⟨h1, ⟨⟨h2, h3⟩, by simp [h4]⟩, ?_⟩
    cases ho : s.order <;> simp_all

/-- **switched off by configuration** — what `is_active` makes of the `PLUGIN_<NAME>` value (translated from the
    source): not set / `None` ⇒ active; any text, bool or number ⇒ active iff its text form, lower-cased, is one of
    "yes", "true", "t", "1", "y".  In particular `False`, `0`, `''`, `'False'`, `'no'`, `'off'` switch a plugin off and
    it is then not loaded (`c20_loaded_iff_spelled`). -/
theorem c20_switch (v : PyVal) :
    Extracted.Plugins.isActive none = some true ∧
    Extracted.Plugins.isActive (some v) = some (["yes", "true", "t", "1", "y"].contains (Py.lower (pyStr v))) := by
  refine ⟨rfl, ?_⟩
  cases v <;> simp [Extracted.Plugins.isActive, Extracted.Plugins.truthy, Extracted.Plugins.str2boolCoerces, pyStr]

theorem c20_switch_examples :
    Extracted.Plugins.isActive (some (.bool false)) = some false ∧ Extracted.Plugins.isActive (some (.int 0)) = some false ∧
    Extracted.Plugins.isActive (some (.text "")) = some false ∧ Extracted.Plugins.isActive (some (.text "False")) = some false ∧
    Extracted.Plugins.isActive (some (.bool true)) = some true ∧ Extracted.Plugins.isActive (some (.text "YES")) = some true := by
  decide

/-- a plugin whose `order()` cannot be used never makes the load fail (it is skipped: `c20_loaded_iff_spelled`).
    Within the model's order values only (`Order`: raises / truthy non-number / falsy / a number of the EXACT types int,
    bool, float): an `order()` returning an instance of an int SUBCLASS whose comparison raises passes the number test
    and makes `list.sort` raise out of `load_plugins`, and `nan` leaves the list unsorted — both outside `Order`, not
    generated (audit a3 P4; reported as a defect candidate of /repo). -/
theorem c20_load_total (specs : List Spec) : loadRaises specs = false := by
  have hg : Extracted.Plugins.orderGuarded = true := by decide
  simp [loadRaises, hg]

/-- the order is the declared one: a loaded plugin with a smaller key is never behind one with a larger key. -/
theorem c20_order_respected (specs : List Spec) (i j : Nat) (hi : i < j) (hj : j < (load specs).length) :
    (((load specs)[i]'(by omega)).key.le ((load specs)[j]'hj).key) = true :=
  List.pairwise_iff_getElem.mp (c20_loaded specs).2.1 i j (by omega) hj hi

/-- what the source says now: ascending sort, a falsy `order()` counts as 0 (the three facts of `c20_loaded` are
    stated for this direction; `reverse=True` in the source makes this — and the proofs above — fail). -/
theorem c20_direction : Extracted.Plugins.sortReverse = false ∧ Extracted.Plugins.orderNoneAs = 0 := by decide

/-! ### isolation of the callback families (Exception-class plugin failures) -/

/-- the statement shared by the families below; the loop is named by position (`lastLoop`: the only loop of the
    function, or the inner one of the metric pair), so renaming the iterated variable does not matter -/
def Isolated (allowed : RaiseSet) (s : Stmt) : Prop :=
  ∃ id body site, lastLoop s = some (id, body) ∧ firstCall body = some site ∧
    ∀ env, FaultsIn allowed env → ∀ tr, ∃ tr', exec env (.loop id body) tr = (.normal, tr') ∧
      (∀ j, j < env.iters tr id → ∃ f, Adjacent (Ev.call site f) (Ev.iter id j) tr')

/-- importing: a plugin module that is missing (or whose import fails) does not stop the following names. -/
theorem c20_import_isolated : Isolated RaiseSet.onlyExc pluginGenerator :=
  isoCallLastLoop_spec _ _ (by decide)

/-- constructing / `is_active()`: a raising constructor or an inactive plugin (`continue`) skips only itself. -/
theorem c20_construct_isolated :
    Isolated RaiseSet.onlyExc loadPlugins :=
  isoCallLastLoop_spec _ _ (by decide)

/-- resource providers in `Deep.start`: a failing provider costs its own attributes; the loop ends normally and
    `start` goes on to install the hooks. -/
theorem c20_resource_isolated : Isolated RaiseSet.onlyExc deepStart :=
  isoCallLastLoop_spec _ _ (by decide)

/-- snapshot decorators: the snapshot is still completed (the loop ends normally, `merge_in` + `return` follow)
    with the decorations of the others. -/
theorem c20_decorators_isolated : Isolated RaiseSet.onlyExc decorateSnapshot :=
  isoCallLastLoop_spec _ _ (by decide)

/-- metric processors: for each metric every processor is tried. -/
theorem c20_metric_processors_isolated :
    Isolated RaiseSet.onlyExc metricProcessAction :=
  isoCallLastLoop_spec _ _ (by decide)

/-- span processors: every processor is asked to create its span. -/
theorem c20_span_processors_isolated :
    Isolated RaiseSet.onlyExc spanProcessAction :=
  isoCallLastLoop_spec _ _ (by decide)

/-- closing spans: every span created for the line/method is closed even if another one fails to close. -/
theorem c20_spans_close_isolated : Isolated RaiseSet.onlyExc spanCallbackProcess :=
  isoCallLastLoop_spec _ _ (by decide)

/-- results of an event (log line through the tracepoint logger, decorated snapshot push): one failing result
    does not lose the others. -/
theorem c20_results_isolated : Isolated RaiseSet.onlyExc triggerContextExit :=
  isoCallLastLoop_spec _ _ (by decide)

/-- plugin shutdown: every plugin is shut down, whatever class the others raise. -/
theorem c20_shutdown_isolated : Isolated RaiseSet.all deepShutdown :=
  isoCallLastLoop_spec _ _ (by decide)

/-- **after the decorators, the snapshot is returned**: `_decorate_snapshot` has exactly two ways to end, for
    every environment: it returns the snapshot, or something outside the guarded decorator loop raised (the
    loop itself ends normally under `Exception`-class decorator failures: `c20_decorators_isolated`). -/
theorem c20_decorate_returns (env : Env) (tr : Trace) (o : Out) (tr' : Trace)
    (h : exec env decorateSnapshot tr = (o, tr')) :
    o = .returned "self.snapshot" ∨ ∃ e, o = .raised e := by
  cases o with
  | raised e => exact Or.inr ⟨e, rfl⟩
  | returned v =>
    have := mayRet_sound [] env (agrees_nil env) decorateSnapshot _ _ _ h
    have hall : ∀ v ∈ mayRet [] decorateSnapshot, v = "self.snapshot" := by decide
    exact Or.inl (by rw [hall v this])
  | normal =>
    have := mayNormal_sound env decorateSnapshot _ _ h
    have h2 : mayNormal decorateSnapshot = false := by decide
    rw [h2] at this; simp at this
  | broke =>
    have := mayBreak_sound env decorateSnapshot _ _ h
    have h2 : mayBreak decorateSnapshot = false := by decide
    rw [h2] at this; simp at this
  | continued =>
    have := mayCont_sound env decorateSnapshot _ _ h
    have h2 : mayCont decorateSnapshot = false := by decide
    rw [h2] at this; simp at this

/-- the call sites of the (last) loop of a function: where its plugin callbacks are -/
def loopSites (s : Stmt) : List String := (lastLoop s).elim [] (fun p => sites p.2)

/-- **the agent still starts** — when the only calls of `Deep.start` that fail are those of the resource-provider
    loop (a provider's `resource()`, merging what it returned), with an `Exception`, then for every such failure
    pattern `start` (of an instance that is neither started nor shut down) runs to its end and sets `started`. -/
theorem c20_start_completes (env : Env) (hf : FaultsAt (onlyAt (loopSites deepStart)) env)
    (h1 : ∀ tr, env.cond tr "self.started" = false) (h2 : ∀ tr, env.cond tr "self._shutdown" = false)
    (tr : Trace) (o : Out) (tr' : Trace) (h : exec env deepStart tr = (o, tr')) :
    o = .normal ∧ Ev.set "started" "True" ∈ tr' :=
  completes_with_store (onlyAt (loopSites deepStart)) deepStart (by decide)
    [("self.started", false), ("self._shutdown", false)] (by decide) (by decide) (by decide) "started" "True" (by decide)
    env hf (agrees_of_forall _ env (by
      intro p hp tr0
      simp only [List.mem_cons, List.not_mem_nil, or_false] at hp
      rcases hp with rfl | rfl
      · exact h1 tr0
      · exact h2 tr0)) tr o tr' h

/-- **the snapshot is still delivered with the remaining decorations** — when the only calls of `_decorate_snapshot`
    that fail are those of the decorator loop (reading the id, a decorator's `decorate()`, merging what it returned), with
    an `Exception`, the function returns the snapshot (which its caller then pushes), for every such failure pattern. -/
theorem c20_snapshot_delivered (env : Env) (hf : FaultsAt (onlyAt (loopSites decorateSnapshot)) env)
    (tr : Trace) (o : Out) (tr' : Trace) (h : exec env decorateSnapshot tr = (o, tr')) :
    o = .returned "self.snapshot" := by
  rcases c20_decorate_returns env tr o tr' h with h' | ⟨e, rfl⟩
  · exact h'
  · exact absurd h (guard_sound_at (onlyAt (loopSites decorateSnapshot)) decorateSnapshot (by decide) env hf tr e tr')

/-! ### non-vacuity -/

private def sp (id : Nat) (imp ctor act : Bool) (o : Option Int) : Spec :=
  ⟨id, imp, ctor, if act then none else some (.bool false), .value (o.map Num.ofInt)⟩

private def spn (id : Nat) (m : Int) (e : Nat) : Spec := ⟨id, true, true, none, .value (some ⟨m, e⟩)⟩

/-- built-in 0 and 1, custom 2..6: one missing module, one inactive, one raising constructor, ties, `None`,
    a negative order. -/
example :
    (load [sp 0 true true true (some 0), sp 1 false true true none, sp 2 true true true (some 5),
           sp 3 true false true (some (-9)), sp 4 true true false (some (-8)), sp 5 true true true none,
           sp 6 true true true (some (-1)), sp 7 true true true (some 5),
           ⟨8, true, true, none, .unusable⟩, ⟨9, true, true, some (.text "no"), .value (some (Num.ofInt (-50)))⟩]).map Spec.id
      = [6, 0, 5, 2, 7] := by
  decide

/-- fractional and boolean orders: 1.5 configured before 1.2, 2.0 and 2 and True(=1) ties, -0.5 against the built-in
    0, 0.0 (falsy): declared order decides, ties keep the configured sequence — nothing is truncated -/
example :
    (load [spn 0 0 0, spn 1 15 1, spn 2 12 1, spn 3 20 1, spn 4 2 0, spn 5 (-5) 1, spn 6 1 0, spn 7 0 1,
           spn 8 (-25) 2, spn 9 10 1]).map Spec.id
      = [5, 8, 0, 7, 6, 9, 2, 1, 3, 4] := by
  decide

/-- the same entry three times (twice usable, as configured; equal in name and everything else): all copies are loaded -/
example : ((load [spn 1 5 0, spn 2 0 0, spn 1 5 0, spn 1 5 0]).map Spec.id) = [2, 1, 1, 1] := by decide

/-- a loop without the per-plugin `try` is not isolated (what the metric loop looked like before it was guarded) -/
example : IsoLoopIn RaiseSet.onlyExc "ps" (.loop "ps" (.call "p.counter")) = false := by decide

private def isIter : Ev → Bool
  | .iter _ _ => true
  | _ => false

private def isCaught : Ev → Bool
  | .caught _ _ => true
  | _ => false

/-- fail the second call (`decorator.decorate`, after the `id_str` read) of the second iteration -/
private def secondDecoratorFails : Env :=
  { fault := fun tr _ => if (tr.filter isIter).length == 2 && (match tr with | .call _ _ :: _ => true | _ => false)
                         then some .exc else none,
    iters := fun _ _ => 3, cond := fun _ _ => true, catches := fun _ _ => false }

/-- a concrete run of the decorator loop: 3 decorators, the second one raises; all three are entered, one
    failure is caught, the snapshot is returned. -/
example :
    (exec secondDecoratorFails decorateSnapshot []).1 = .returned "self.snapshot" ∧
    ((exec secondDecoratorFails decorateSnapshot []).2.filter isIter).length = 3 ∧
    ((exec secondDecoratorFails decorateSnapshot []).2.filter isCaught).length = 1 := by
  decide

end C20
