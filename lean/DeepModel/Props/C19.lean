/-
  C19 — Configuration resolves with documented precedence and works from the environment.

  Every theorem is about `Extracted.Config.*`: `getAttribute` — `ConfigService.__getattribute__` translated statement
  by statement (try/except AttributeError, custom-dict test and read, module attribute, DEEP_<name>, callable test
  and call) — applied to the object `__init__` builds (`lookup`), the module settings table of deep/config/__init__.py, the translated
  `IN_APP_INCLUDE` / `IN_APP_EXCLUDE` functions, the translated `is_app_frame` and `parse_short_name`, the APP_ROOT
  amendment of `deep.start`, and whether `RepeatedTimer` coerces its interval — all regenerated from /repo on every
  run (harness/extract/config.py) — composed by `Config.World` (validated by the correspondence check).

  Quantifiers: every code dict, every environment, every interpreter prefix, every name (documented or unknown),
  every include/exclude list, root and file name.  No bound anywhere.
-/
import DeepModel.Model.Config

namespace C19
open Cfg Extracted.Config Config

theorem isNone_iff (v : CVal) : v.isNone = true ↔ v = CVal.none := by
  cases v <;> simp [CVal.isNone]

def customVal (custom : List (String × CVal)) (k : String) : CVal := (custom.lookup k).getD CVal.none

/-- what the translated `__getattribute__` computes from the three things it reads: the outcome `o` of the object's
    own attribute lookup, the entry `x` of the code dict, and the module/environment -/
def gaCore (o : OwnOut) (x : Option CVal) (env : Env) (px k : String) : CVal :=
  match o with
  | .value a => a
  | .raises => CVal.other "raises"
  | .attributeError =>
    let attr := x.getD CVal.none
    if attr.isNone then
      if !(moduleValue env px k).isSome then
        (if (getenv env ("DEEP_" ++ k)).isNone then CVal.none else getenv env ("DEEP_" ++ k))
      else
        (if ((moduleValue env px k).getD CVal.none).isCallable then ((moduleValue env px k).getD CVal.none).call
         else (moduleValue env px k).getD CVal.none)
    else if attr.isCallable then attr.call else attr

theorem getAttribute_core (own : String → OwnOut) (custom : List (String × CVal)) (env : Env) (px k : String) :
    getAttribute own (some custom) env px k = gaCore (own k) (custom.lookup k) env px k := by
  cases ho : own k with
  | value a => unfold getAttribute gaCore; simp only [ho]
  | raises => unfold getAttribute gaCore; simp only [ho]
  | attributeError =>
    cases hc : custom.lookup k with
    | none =>
      unfold getAttribute gaCore
      simp only [ho, dictHas, dictGet, hc, Option.isSome_some, Option.isSome_none, Bool.true_and,
        Bool.false_eq_true, if_false, Option.getD_none]
    | some v =>
      unfold getAttribute gaCore
      simp only [ho, dictHas, dictGet, hc, Option.isSome_some, Bool.true_and, if_true, Option.getD_some]

theorem lookup_core (custom : List (String × CVal)) (env : Env) (px k : String) :
    lookup custom env px k = gaCore (ownStatic k) (custom.lookup k) env px k :=
  getAttribute_core ownStatic custom env px k

theorem env_arm (env : Env) (n : String) :
    (if (getenv env n).isNone then CVal.none else getenv env n) =
      (match env.lookup n with
        | none => CVal.none
        | some s => CVal.str s) := by
  unfold getenv
  cases env.lookup n <;> rfl

theorem call_arm (v : CVal) : (if v.isCallable then v.call else v) = callIt v := by
  cases v <;> rfl

theorem module_arm (env : Env) (px k : String) :
    (if !(moduleValue env px k).isSome then
        (if (getenv env ("DEEP_" ++ k)).isNone then CVal.none else getenv env ("DEEP_" ++ k))
      else
        (if ((moduleValue env px k).getD CVal.none).isCallable then ((moduleValue env px k).getD CVal.none).call
         else (moduleValue env px k).getD CVal.none)) =
      (match moduleValue env px k with
        | none => (match env.lookup ("DEEP_" ++ k) with
            | none => CVal.none
            | some s => CVal.str s)
        | some v => callIt v) := by
  rw [env_arm, call_arm]
  cases moduleValue env px k <;> rfl

/-- the chain below the object's own attributes: reached exactly when the own lookup raised AttributeError -/
def chain (custom : List (String × CVal)) (env : Env) (px k : String) : CVal :=
  if (customVal custom k).isNone then
    (match moduleValue env px k with
      | none => (match env.lookup ("DEEP_" ++ k) with
          | none => CVal.none
          | some s => CVal.str s)
      | some v => callIt v)
  else callIt (customVal custom k)

theorem getAttribute_falls_through (own : String → OwnOut) (custom : List (String × CVal)) (env : Env) (px k : String)
    (hown : own k = OwnOut.attributeError) :
    getAttribute own (some custom) env px k = chain custom env px k := by
  rw [getAttribute_core, hown]
  unfold chain customVal gaCore
  simp only [call_arm]
  rw [← call_arm ((moduleValue env px k).getD CVal.none), module_arm]

theorem lookup_foreign (custom : List (String × CVal)) (env : Env) (px k : String)
    (hk : ownNames.contains k = false) :
    lookup custom env px k =
      if (customVal custom k).isNone then
        (match moduleValue env px k with
          | none => (match env.lookup ("DEEP_" ++ k) with
              | none => CVal.none
              | some s => CVal.str s)
          | some v => callIt v)
      else callIt (customVal custom k) := by
  have hown : ownStatic k = OwnOut.attributeError := by unfold ownStatic; rw [hk]; rfl
  exact getAttribute_falls_through ownStatic custom env px k hown

/-- **precedence** — for every name the object does not have of its own (`ownNames`: its methods, properties and
    instance attributes and everything every Python object has — the `__…__` names of `object`; the module's own
    `__name__`, `__file__` … are module attributes, `moduleOtherNames`), every code dict and environment:
    (1) a code value other than `None` wins; (2) else the `deep.config` module attribute (env-backed default);
    (3) else `DEEP_<name>` from the environment; (4) else absent.  Callables of levels 1–2 are called. -/
theorem c19_precedence (custom : List (String × CVal)) (env : Env) (px k : String)
    (hk : ownNames.contains k = false) :
    (∀ v, custom.lookup k = some v → v.isNone = false → lookup custom env px k = callIt v) ∧
    ((custom.lookup k = none ∨ custom.lookup k = some CVal.none) →
      (∀ m, moduleValue env px k = some m → lookup custom env px k = callIt m) ∧
      (moduleValue env px k = none →
        (∀ s, env.lookup ("DEEP_" ++ k) = some s → lookup custom env px k = CVal.str s) ∧
        (env.lookup ("DEEP_" ++ k) = none → lookup custom env px k = CVal.none))) := by
  rw [lookup_foreign custom env px k hk]
  constructor
  · intro v hv hn
    have : customVal custom k = v := by simp [customVal, hv]
    rw [this, hn]; rfl
  · intro hc
    have hattr : (customVal custom k).isNone = true := by
      rcases hc with h | h <;> simp [customVal, h, CVal.isNone]
    rw [hattr]
    refine ⟨?_, ?_⟩
    · intro m hm; simp [hm]
    · intro hm
      refine ⟨?_, ?_⟩
      · intro s hs; simp [hm, hs]
      · intro hs; simp [hm, hs]

/-! ### the translated `__getattribute__` itself -/

/-- model lemma: the `try` arm of the translated `__getattribute__` — when `super().__getattribute__(name)` RETURNS
    (`own k = .value v`: an instance attribute, a method, a property whose getter returned), that value is the result
    whatever the code dict (including a `self.__custom` that is `None`, or an entry of the same name:
    `ConfigService({"plugins": 1}).plugins` is the plugin list), the environment and the module say.  `own` is ANY
    outcome function; for the object as `__init__` leaves it, it is the static table `ownStatic` (hypothesis of
    `c19_precedence`). -/
theorem c19_own_attribute_first (own : String → OwnOut) (custom : Option (List (String × CVal))) (env : Env)
    (px k : String) (v : CVal) (h : own k = OwnOut.value v) : getAttribute own custom env px k = v := by
  unfold getAttribute
  simp only [h]

/-- **the code decides "own" by whether the lookup raised AttributeError, not by the name** — when
    `super().__getattribute__(name)` raises AttributeError the result is the chain below (code dict entry, called if
    callable; else module attribute; else `DEEP_<name>`; else `None`) — for a name the object does not have, AND for an
    own PROPERTY whose getter raised AttributeError: the failure is swallowed and the code-dict / environment value of
    that name is handed out (finding candidate `C19/own-getter-attributeerror-falls-through`, witness below, probe
    notes/probes/c19_own_getter_attribute_error.py). -/
theorem c19_attribute_error_falls_through (own : String → OwnOut) (custom : List (String × CVal)) (env : Env)
    (px k : String) (hown : own k = OwnOut.attributeError) :
    getAttribute own (some custom) env px k = chain custom env px k :=
  getAttribute_falls_through own custom env px k hown

/-- any other exception of the own lookup (a getter raising ValueError, …) propagates: nothing else is read -/
theorem c19_own_lookup_raises (own : String → OwnOut) (custom : Option (List (String × CVal))) (env : Env)
    (px k : String) (h : own k = OwnOut.raises) : getAttribute own custom env px k = CVal.other "raises" := by
  unfold getAttribute
  simp only [h]

/-- witness: with the getter of the own property `tracepoint_logger` raising AttributeError the code entry of that
    name is returned, `has_span_processor` resolves to `DEEP_has_span_processor`; with the getters returning, the
    own values win (replayed on the implementation). -/
theorem c19_own_getter_attribute_error_witness :
    let broken : String → OwnOut := fun n =>
      if n == "tracepoint_logger" || n == "has_span_processor" then OwnOut.attributeError else ownStatic n
    getAttribute broken (some [("tracepoint_logger", CVal.str "CODE VALUE")]) [] "/px" "tracepoint_logger"
        = CVal.str "CODE VALUE" ∧
      getAttribute broken (some []) [("DEEP_has_span_processor", "ENVTEXT")] "/px" "has_span_processor"
        = CVal.str "ENVTEXT" ∧
      getAttribute ownStatic (some [("tracepoint_logger", CVal.str "CODE VALUE")]) [] "/px" "tracepoint_logger"
        = CVal.other "own attribute tracepoint_logger" := ⟨by rfl, by rfl, by rfl⟩

/-- a module attribute that is a class (`ConfigService`, imported into deep.config) is callable: it is CALLED and the
    new instance handed out, like the module functions -/
theorem c19_module_class_called :
    lookup [] [] "/px" "ConfigService" = CVal.other "instance of ConfigService" := by rfl

/-- **the `self.__custom is not None` guard** — an object whose custom dict is `None` resolves every name exactly
    as one with an empty dict (no exception from `name in None`): module attribute, else `DEEP_<name>`, else `None`. -/
theorem c19_custom_none_as_empty (own : String → OwnOut) (env : Env) (px k : String) :
    getAttribute own none env px k = getAttribute own (some []) env px k := by
  unfold getAttribute
  cases own k <;> rfl

/-- a value given in code wins whatever the environment (and the interpreter prefix) is -/
theorem c19_code_beats_environment (custom : List (String × CVal)) (env env' : Env) (px px' k : String) (v : CVal)
    (hv : custom.lookup k = some v) (hn : v.isNone = false) :
    lookup custom env px k = lookup custom env' px' k := by
  by_cases hk : ownNames.contains k = true
  · rw [lookup_core, lookup_core]; unfold ownStatic; rw [hk]; rfl
  · have hk' : ownNames.contains k = false := by simpa using hk
    rw [(c19_precedence custom env px k hk').1 v hv hn, (c19_precedence custom env' px' k hk').1 v hv hn]

/-- **callables are called** — a function given in code yields what it returns; the module-level functions
    (`IN_APP_INCLUDE`, `IN_APP_EXCLUDE`) yield their result for the current environment; environment text for an
    unknown name is never called (it is text). -/
theorem c19_callable_called (custom : List (String × CVal)) (env : Env) (px k : String) (r : CVal)
    (hk : ownNames.contains k = false) (hv : custom.lookup k = some (CVal.callable r)) :
    lookup custom env px k = r := by
  rw [(c19_precedence custom env px k hk).1 _ hv rfl]; rfl

theorem c19_module_functions_called (custom : List (String × CVal)) (env : Env) (px : String)
    (hi : custom.lookup "IN_APP_INCLUDE" = none) (he : custom.lookup "IN_APP_EXCLUDE" = none) :
    lookup custom env px "IN_APP_INCLUDE" = fn_IN_APP_INCLUDE env px ∧
    lookup custom env px "IN_APP_EXCLUDE" = fn_IN_APP_EXCLUDE env px := by
  constructor
  · rw [((c19_precedence custom env px "IN_APP_INCLUDE" (by decide)).2 (Or.inl hi)).1
      (CVal.callable (fn_IN_APP_INCLUDE env px)) (by rfl)]
    rfl
  · rw [((c19_precedence custom env px "IN_APP_EXCLUDE" (by decide)).2 (Or.inl he)).1
      (CVal.callable (fn_IN_APP_EXCLUDE env px)) (by rfl)]
    rfl

theorem lookup_congr {c c' : List (String × CVal)} {k : String} (h : c.lookup k = c'.lookup k) (env : Env)
    (px : String) : lookup c env px k = lookup c' env px k := by
  rw [lookup_core, lookup_core, h]

theorem any_of_lookup_none {c : List (String × CVal)} {k : String} (h : c.lookup k = none) :
    c.any (fun e => e.1 == k) = false := by
  induction c with
  | nil => rfl
  | cons e c ih =>
    obtain ⟨a, b⟩ := e
    by_cases hk : k = a
    · subst hk; simp [List.lookup] at h
    · have hk' : (k == a) = false := by simpa using hk
      have hk2 : (a == k) = false := by simpa using fun h' => hk h'.symm
      rw [List.lookup_cons, hk'] at h
      simp [hk2, ih h]

theorem lookup_startConfig_ne (c : List (String × CVal)) (env env' : Env) (px calcRoot k : String)
    (hk : k ≠ "APP_ROOT") : lookup (startConfig c env calcRoot) env' px k = lookup c env' px k := by
  unfold startConfig
  split
  · rfl
  · apply lookup_congr
    have : (k == "APP_ROOT") = false := by simpa using hk
    rw [List.lookup_cons, this]

/-- every plain module setting reads the environment variable `DEEP_<its name>` -/
theorem env_names : ∀ e ∈ moduleDefaults, ∀ ev, e.2.1 = some ev → ev = "DEEP_" ++ e.1 := by decide

/-- the documented settings whose value is text (all but the two list-valued ones) -/
def textKeys : List String := ["SERVICE_URL", "SERVICE_SECURE", "LOGGING_CONF", "POLL_TIMER", "SERVICE_AUTH_PROVIDER"]

theorem moduleValue_text (k : String) (hk : k ∈ textKeys) (v : String) (env : Env) (px : String) :
    moduleValue (("DEEP_" ++ k, v) :: env) px k = some (CVal.str v) := by
  simp only [textKeys, List.mem_cons, List.not_mem_nil, or_false] at hk
  rcases hk with rfl | rfl | rfl | rfl | rfl <;> rfl

theorem text_not_own : ∀ k ∈ documentedKeys, ownNames.contains k = false := by decide

/-- **documented settings: code = environment** (text settings) — each documented setting other than the two
    list-valued ones resolves to the same text whether that text is given in the dict handed to `deep.start` or as
    `DEEP_<KEY>` in the environment (for APP_ROOT the text must be non-empty: an empty variable counts as unset).
    Hypothesis `hText` excludes IN_APP_INCLUDE / IN_APP_EXCLUDE: see `c19_include_string_in_code_witness`. -/
theorem c19_documented_env_eq_code_partial (k : String) (hdoc : k ∈ documentedKeys)
    (hText : k ≠ "IN_APP_INCLUDE" ∧ k ≠ "IN_APP_EXCLUDE") (v : String) (hv : k = "APP_ROOT" → v ≠ "")
    (custom : List (String × CVal)) (hc : custom.lookup k = none) (env : Env) (px calcRoot : String) :
    (World.started ⟨(k, CVal.str v) :: custom, env, px⟩ calcRoot).get k = CVal.str v ∧
    (World.started ⟨custom, ("DEEP_" ++ k, v) :: env, px⟩ calcRoot).get k = CVal.str v := by
  have hown := text_not_own k hdoc
  by_cases hroot : k = "APP_ROOT"
  · subst hroot
    have hv' := hv rfl
    constructor
    · simp only [World.started, World.get, startConfig, List.any_cons, beq_self_eq_true, Bool.true_or, if_true]
      rw [(c19_precedence _ env px "APP_ROOT" hown).1 (CVal.str v) (by simp [List.lookup]) rfl]; rfl
    · have hany := any_of_lookup_none hc
      simp only [World.started, World.get, startConfig, hany, Bool.false_eq_true, if_false, List.lookup_cons,
        beq_self_eq_true]
      have hne : (v != "") = true := bne_iff_ne.mpr hv'
      have hE : ("DEEP_APP_ROOT" == "DEEP_" ++ "APP_ROOT") = true := by decide
      simp only [hE, hne, if_true]
      rw [(c19_precedence _ _ px "APP_ROOT" hown).1 (CVal.str v) (by simp [List.lookup]) rfl]; rfl
  · have htext : k ∈ textKeys := by
      simp only [documentedKeys, List.mem_cons, List.not_mem_nil, or_false] at hdoc
      simp only [textKeys, List.mem_cons, List.not_mem_nil, or_false]
      rcases hdoc with h | h | h | h | h | h | h | h
      · exact Or.inl h
      · exact Or.inr (Or.inl h)
      · exact Or.inr (Or.inr (Or.inl h))
      · exact Or.inr (Or.inr (Or.inr (Or.inl h)))
      · exact Or.inr (Or.inr (Or.inr (Or.inr h)))
      · exact absurd h hText.1
      · exact absurd h hText.2
      · exact absurd h hroot
    constructor
    · simp only [World.started, World.get]
      rw [lookup_startConfig_ne _ _ _ _ _ _ hroot,
        (c19_precedence _ env px k hown).1 (CVal.str v) (by simp [List.lookup]) rfl]; rfl
    · simp only [World.started, World.get]
      rw [lookup_startConfig_ne _ _ _ _ _ _ hroot,
        ((c19_precedence custom _ px k hown).2 (Or.inl hc)).1 _ (moduleValue_text k htext v env px)]; rfl

/-! ## application frames and short paths -/

theorem startsWith_iff (f p : String) : Py.startsWith f p = true ↔ p.toList <+: f.toList := by
  simp [Py.startsWith]

theorem find_none_iff (f : String) (l : List String) :
    List.find? (fun path => Py.startsWith f path) l = none ↔ ¬ ∃ e ∈ l, e.toList <+: f.toList := by
  simp only [List.find?_eq_none, startsWith_iff]
  constructor
  · rintro h ⟨e, he, hp⟩; exact h e he hp
  · intro h e he hp; exact h ⟨e, he, hp⟩

/-- **application frame** — exactly when the file is under no exclude prefix and under an include prefix or the
    application root; for all include/exclude lists, roots and file names. -/
theorem c19_app_frame (incl excl : List String) (root f : String) :
    (isAppFrame incl excl root f).1 = true ↔
      (¬ ∃ e ∈ excl, e.toList <+: f.toList) ∧ ((∃ i ∈ incl, i.toList <+: f.toList) ∨ root.toList <+: f.toList) := by
  cases he : List.find? (fun path => Py.startsWith f path) excl with
  | some e =>
    have hm := List.mem_of_find?_eq_some he
    have hp := List.find?_some he
    simp only [isAppFrame, he]
    constructor
    · intro h; cases h
    · rintro ⟨h, _⟩; exact absurd ⟨e, hm, (startsWith_iff f e).mp hp⟩ h
  | none =>
    have hne := (find_none_iff f excl).mp he
    cases hi : List.find? (fun path => Py.startsWith f path) incl with
    | some i =>
      have hm := List.mem_of_find?_eq_some hi
      have hp := List.find?_some hi
      simp only [isAppFrame, he, hi]
      exact ⟨fun _ => ⟨hne, Or.inl ⟨i, hm, (startsWith_iff f i).mp hp⟩⟩, fun _ => trivial⟩
    | none =>
      have hni := (find_none_iff f incl).mp hi
      simp only [isAppFrame, he, hi]
      by_cases hr : Py.startsWith f root = true
      · simp only [hr, if_true]
        exact ⟨fun _ => ⟨hne, Or.inr ((startsWith_iff f root).mp hr)⟩, fun _ => trivial⟩
      · simp only [hr, if_false]
        constructor
        · intro h; cases h
        · rintro ⟨_, h | h⟩
          · exact absurd h hni
          · exact absurd ((startsWith_iff f root).mpr h) hr

/-- **exclusion wins** — one matching exclude prefix makes the frame a library frame, whatever is included. -/
theorem c19_exclusion_wins (incl excl : List String) (root f e : String) (he : e ∈ excl)
    (hp : e.toList <+: f.toList) : (isAppFrame incl excl root f).1 = false := by
  cases h : (isAppFrame incl excl root f).1 with
  | false => rfl
  | true => exact absurd ⟨e, he, hp⟩ ((c19_app_frame incl excl root f).mp h).1

/-- the matched prefix the code reports is a prefix of the file name taken from the configuration: the first
    matching exclude entry, else the first matching include entry, else the root; none iff nothing matches. -/
theorem c19_matched_prefix (incl excl : List String) (root f : String) :
    (∀ p, (isAppFrame incl excl root f).2 = some p →
      p.toList <+: f.toList ∧ (p ∈ excl ∨ p ∈ incl ∨ p = root)) ∧
    ((isAppFrame incl excl root f).2 = none ↔
      (¬ ∃ e ∈ excl, e.toList <+: f.toList) ∧ (¬ ∃ i ∈ incl, i.toList <+: f.toList) ∧ ¬ root.toList <+: f.toList) := by
  cases he : List.find? (fun path => Py.startsWith f path) excl with
  | some e =>
    have hm := List.mem_of_find?_eq_some he
    have hp := (startsWith_iff f e).mp (List.find?_some he)
    simp only [isAppFrame, he]
    refine ⟨?_, ?_⟩
    · intro p h; cases h; exact ⟨hp, Or.inl hm⟩
    · constructor
      · intro h; cases h
      · rintro ⟨h, _⟩; exact absurd ⟨e, hm, hp⟩ h
  | none =>
    have hne := (find_none_iff f excl).mp he
    cases hi : List.find? (fun path => Py.startsWith f path) incl with
    | some i =>
      have hm := List.mem_of_find?_eq_some hi
      have hp := (startsWith_iff f i).mp (List.find?_some hi)
      simp only [isAppFrame, he, hi]
      refine ⟨?_, ?_⟩
      · intro p h; cases h; exact ⟨hp, Or.inr (Or.inl hm)⟩
      · constructor
        · intro h; cases h
        · rintro ⟨_, h, _⟩; exact absurd ⟨i, hm, hp⟩ h
    | none =>
      have hni := (find_none_iff f incl).mp hi
      simp only [isAppFrame, he, hi]
      by_cases hr : Py.startsWith f root = true
      · simp only [hr, if_true]
        refine ⟨?_, ?_⟩
        · intro p h; cases h; exact ⟨(startsWith_iff f root).mp hr, Or.inr (Or.inr rfl)⟩
        · constructor
          · intro h; cases h
          · rintro ⟨_, _, h⟩; exact absurd ((startsWith_iff f root).mp hr) h
      · simp only [hr, if_false]
        refine ⟨?_, ?_⟩
        · intro p h; cases h
        · exact ⟨fun _ => ⟨hne, hni, fun h => hr ((startsWith_iff f root).mpr h)⟩, fun _ => rfl⟩

/-- **short path** — the file name with the matched prefix removed (and the file name itself when nothing matched);
    the application-frame flag is passed through. -/
theorem c19_short_path (incl excl : List String) (root f : String) :
    (parseShortName (isAppFrame incl excl root) f).2 = (isAppFrame incl excl root f).1 ∧
    (∀ p, (isAppFrame incl excl root f).2 = some p →
      (parseShortName (isAppFrame incl excl root) f).1 = String.ofList (f.toList.drop p.length) ∧
      p ++ (parseShortName (isAppFrame incl excl root) f).1 = f) ∧
    ((isAppFrame incl excl root f).2 = none → (parseShortName (isAppFrame incl excl root) f).1 = f) := by
  unfold parseShortName
  cases h : isAppFrame incl excl root f with
  | mk app m =>
    cases m with
    | none => simp
    | some p =>
      have hp := ((c19_matched_prefix incl excl root f).1 p (by rw [h])).1
      refine ⟨rfl, ?_, ?_⟩
      · intro q hq
        cases hq
        have hs : Py.sliceFrom f (Py.len p) = String.ofList (f.toList.drop p.length) := by
          simp [Py.sliceFrom, Py.len]
        simp only [hs, true_and]
        obtain ⟨t, ht⟩ := hp
        apply String.toList_injective
        rw [String.toList_append, String.toList_ofList, ← ht]
        have : p.length = p.toList.length := String.length_toList.symm
        rw [this, List.drop_left]
      · intro hq; cases hq

/-- tripwire: the route a collected frame takes to the rules, as the source spells it NOW (`frameRoute` is rebuilt from
    the AST on every run — a real value, compared here): `parse_short_name` asks `self.__source.is_app_frame`, the
    collector's source is what it was constructed with, the snapshot action constructs it with itself, its
    `is_app_frame` is the configuration's, and `trigger_context.config` is the configuration the trigger was built
    with.  A cache, a second rule set or another object on any of these hops changes the list and fails this theorem.
    (Not pinned: who constructs the TriggerContext — `TriggerHandler`, C11/C12's area.) -/
theorem c19_collector_asks_config :
    frameRoute =
      ["FrameCollector.parse_short_name: self.__source.is_app_frame(filename)",
       "FrameCollector.__init__: self.__source = source",
       "SnapshotActionContext._process_action: FrameCollector(self, self.trigger_context.frame)",
       "SnapshotActionContext.is_app_frame: return self.trigger_context.config.is_app_frame(filename)",
       "TriggerContext.config: return self.__config",
       "TriggerContext.__init__: self.__config = config"] := by decide

/-- tripwire: **no consumer reads the environment behind the configuration's back** — every read of the process
    environment anywhere under src/deep (all files scanned on every run: os.getenv / os.environ.get / os.environ[..] /
    any other use of os.environ) is in deep/config (module defaults, the DEEP_<name> fallback of `__getattribute__`),
    in deep/__init__.py (DEEP_APP_ROOT only) or in the resource detector (its two variables, C18).  A use site such as
    `os.environ.get('DEEP_SERVICE_URL') or config.SERVICE_URL` in grpc_service.py adds an entry and fails this. -/
theorem c19_env_reads_only_in_config :
    (∀ r ∈ envReadSites, r.1 ∈ ["deep/config/__init__.py", "deep/config/config_service.py", "deep/__init__.py",
                                 "deep/api/resource/__init__.py"]) ∧
    envReadSites.filter (fun r => r.1 == "deep/__init__.py" || r.1 == "deep/api/resource/__init__.py"
                                   || r.1 == "deep/config/config_service.py") =
      [("deep/__init__.py", "'DEEP_APP_ROOT'"), ("deep/api/resource/__init__.py", "DEEP_RESOURCE_ATTRIBUTES"),
       ("deep/api/resource/__init__.py", "DEEP_SERVICE_NAME"), ("deep/config/config_service.py", "'DEEP_%s' % name")] := by
  decide

/-! ## environment text -/

theorem strList_map (xs : List String) : strList (xs.map CVal.str) = some xs := by
  induction xs with
  | nil => rfl
  | cons x xs ih => simp [strList, ih]

theorem splitChars_no_sep (c : Char) (l : List Char) (h : c ∉ l) : splitChars c l = [l] := by
  induction l with
  | nil => rfl
  | cons x l ih =>
    have hx : (x == c) = false := by
      apply beq_false_of_ne
      intro e; apply h; rw [e]; exact List.mem_cons_self ..
    have hl : c ∉ l := fun hm => h (List.mem_cons_of_mem _ hm)
    simp only [splitChars, hx, ih hl]
    rfl

/-- the list a comma separated environment text stands for (unset = empty list) -/
def envList (env : Env) (name : String) : List String :=
  match env.lookup name with
  | none => []
  | some s => splitStr ',' s

theorem splitStr_no_sep (s : String) (h : ',' ∉ s.toList) : splitStr ',' s = [s] := by
  simp [splitStr, splitChars_no_sep ',' s.toList h]

/-- **include list from the environment** — `DEEP_IN_APP_INCLUDE` split at commas, a flat list of texts. -/
theorem c19_include_list_flat (env : Env) (px : String) :
    fn_IN_APP_INCLUDE env px = CVal.list ((envList env "DEEP_IN_APP_INCLUDE").map CVal.str) ∧
    pathList (fn_IN_APP_INCLUDE env px) = some (envList env "DEEP_IN_APP_INCLUDE") := by
  have h1 : fn_IN_APP_INCLUDE env px = CVal.list ((envList env "DEEP_IN_APP_INCLUDE").map CVal.str) := by
    unfold fn_IN_APP_INCLUDE envList getenv
    cases h : env.lookup "DEEP_IN_APP_INCLUDE" with
    | none => simp [CVal.isNone]
    | some s =>
      by_cases hc : ',' ∈ s.toList
      · simp [CVal.isNone, CVal.strIn, hc, CVal.split]
      · simp [CVal.isNone, CVal.strIn, hc, splitStr_no_sep s hc]
  exact ⟨h1, by rw [h1]; exact strList_map _⟩

/-- **exclude list from the environment is flat** — `DEEP_IN_APP_EXCLUDE` split at commas followed by the
    interpreter prefix: one list of texts (no nesting), for every environment. -/
theorem c19_exclude_list_flat (env : Env) (px : String) :
    fn_IN_APP_EXCLUDE env px = CVal.list ((envList env "DEEP_IN_APP_EXCLUDE" ++ [px]).map CVal.str) ∧
    pathList (fn_IN_APP_EXCLUDE env px) = some (envList env "DEEP_IN_APP_EXCLUDE" ++ [px]) := by
  have h1 : fn_IN_APP_EXCLUDE env px = CVal.list ((envList env "DEEP_IN_APP_EXCLUDE" ++ [px]).map CVal.str) := by
    unfold fn_IN_APP_EXCLUDE envList getenv
    cases h : env.lookup "DEEP_IN_APP_EXCLUDE" with
    | none => simp [CVal.isNone, CVal.append]
    | some s =>
      by_cases hc : ',' ∈ s.toList
      · simp [CVal.isNone, CVal.strIn, hc, CVal.split, CVal.append]
      · simp [CVal.isNone, CVal.strIn, hc, splitStr_no_sep s hc, CVal.append]
  exact ⟨h1, by rw [h1]; exact strList_map _⟩

/-- tripwire: an interval given as integer text (as the environment does) is the number it spells; holds because
    `RepeatedTimer` coerces with `float()` (`timerCoercesWithFloat`, read from the source). -/
theorem c19_poll_interval_text (s : String) (n : Int) (h : Py.parseInt s = some n) :
    pollInterval (CVal.str s) = pollInterval (CVal.int n) := by
  simp [pollInterval, timerCoercesWithFloat, parseDecimal, h]

/-- **POLL_TIMER: native value = its text** — a float given in code and its text (the form the environment gives)
    are the same interval, for every float; likewise ints and integer texts (`c19_poll_interval_text`). -/
theorem c19_poll_interval_float_text (r : String) :
    pollInterval (CVal.float r) = pollInterval (CVal.str r) := by
  simp [pollInterval, timerCoercesWithFloat]

/-- POLL_TIMER=10 in code and DEEP_POLL_TIMER="10" in the environment give the same interval, the default is 10,
    fractional texts and numbers and `True` are read as `float()` reads them -/
theorem c19_poll_timer_env_eq_code :
    pollInterval ((World.mk [] [("DEEP_POLL_TIMER", "10")] "/px").get "POLL_TIMER") = some ⟨10, 0⟩ ∧
    pollInterval ((World.mk [("POLL_TIMER", CVal.int 10)] [] "/px").get "POLL_TIMER") = some ⟨10, 0⟩ ∧
    pollInterval ((World.mk [] [] "/px").get "POLL_TIMER") = some ⟨10, 0⟩ ∧
    pollInterval (CVal.str "10.5") = some ⟨105, 1⟩ ∧ pollInterval (CVal.float "2.5") = some ⟨25, 1⟩ ∧
    pollInterval (CVal.str " 0.05 ") = some ⟨5, 2⟩ ∧ pollInterval (CVal.bool true) = some ⟨1, 0⟩ ∧
    pollInterval (CVal.str "abc") = none := by decide

/-- **boolean settings: native value = its text** (SERVICE_SECURE, PLUGIN_<NAME>) — a value given in code whose
    text is `t` (a bool, a number, None, or text) is read by `str2bool` exactly like the text `t` the environment
    would give; holds because `str2bool` converts with `str()` first (`str2boolCoercesWithStr`, read from the
    source: without it `SERVICE_SECURE=False` in code raises AttributeError out of `Deep.start`). -/
theorem c19_bool_setting_native_eq_text (v : CVal) (t : String) (h : pyStr v = some t) :
    str2bool v = str2bool (CVal.str t) := by
  cases v <;> simp [pyStr] at h <;> simp [str2bool, str2boolCoercesWithStr, pyStr, h]

/-- … through the configuration: SERVICE_SECURE as the bool False in code, as the text 'False' in code and as
    DEEP_SERVICE_SECURE=False all choose the insecure channel; True/'true'/1 and the default the secure one; a plugin
    is switched off by False as well as by 'False'. -/
theorem c19_service_secure_forms :
    (World.mk [("SERVICE_SECURE", CVal.bool false)] [] "/px").secure = some false ∧
    (World.mk [("SERVICE_SECURE", CVal.str "False")] [] "/px").secure = some false ∧
    (World.mk [] [("DEEP_SERVICE_SECURE", "False")] "/px").secure = some false ∧
    (World.mk [("SERVICE_SECURE", CVal.bool true)] [] "/px").secure = some true ∧
    (World.mk [("SERVICE_SECURE", CVal.int 1)] [] "/px").secure = some true ∧
    (World.mk [] [] "/px").secure = some true ∧
    (World.mk [("PLUGIN_X", CVal.bool false)] [] "/px").pluginActive "X" = some false ∧
    (World.mk [] [("DEEP_PLUGIN_X", "False")] "/px").pluginActive "X" = some false ∧
    (World.mk [] [] "/px").pluginActive "X" = some true := by decide

/-- **known finding D30** (`C19/include-string-in-code`): the documented comma separated *text* given in code is
    iterated character by character — `"/"` then matches every absolute path — while the same text in the
    environment is split into prefixes.  This is why `c19_documented_env_eq_code_partial` excludes the two keys. -/
theorem c19_include_string_in_code_witness :
    (World.mk [("IN_APP_INCLUDE", CVal.str "/x,/y"), ("APP_ROOT", CVal.str "/app")] [] "/px").appFrame "/lib/z.py"
      = some (true, some "/") ∧
    (World.mk [("APP_ROOT", CVal.str "/app")] [("DEEP_IN_APP_INCLUDE", "/x,/y")] "/px").appFrame "/lib/z.py"
      = some (false, none) := by decide

/-- **IN_APP_INCLUDE: a list in code = the comma separated text in the environment** — for every text `t`, the
    list of its comma separated parts given in code and `DEEP_IN_APP_INCLUDE=t` are iterated as the same prefixes. -/
theorem c19_include_code_list_eq_env (t : String) (custom : List (String × CVal)) (env : Env) (px : String)
    (hc : custom.lookup "IN_APP_INCLUDE" = none) :
    pathList (lookup (("IN_APP_INCLUDE", CVal.list ((splitStr ',' t).map CVal.str)) :: custom) env px "IN_APP_INCLUDE")
      = some (splitStr ',' t) ∧
    pathList (lookup custom (("DEEP_IN_APP_INCLUDE", t) :: env) px "IN_APP_INCLUDE") = some (splitStr ',' t) := by
  constructor
  · rw [(c19_precedence _ env px "IN_APP_INCLUDE" (by decide)).1
      (CVal.list ((splitStr ',' t).map CVal.str)) (by simp [List.lookup]) rfl]
    exact strList_map _
  · rw [((c19_precedence custom _ px "IN_APP_INCLUDE" (by decide)).2 (Or.inl hc)).1
      (CVal.callable (fn_IN_APP_INCLUDE (("DEEP_IN_APP_INCLUDE", t) :: env) px)) (by rfl)]
    have := (c19_include_list_flat (("DEEP_IN_APP_INCLUDE", t) :: env) px).2
    simpa [callIt, envList, List.lookup] using this

/-- **IN_APP_EXCLUDE: the environment form has one prefix more** — the same parts given as a list in code are
    used as given, while `DEEP_IN_APP_EXCLUDE=t` yields them FOLLOWED BY the interpreter prefix (`sys.exec_prefix`,
    appended by deep.config only on this route).  Disclosed asymmetry between the two ways of giving this setting
    (finding candidate `C19/exclude-list-in-code-without-interpreter-prefix`, replayed on the implementation). -/
theorem c19_exclude_env_appends_interpreter_prefix (t : String) (custom : List (String × CVal)) (env : Env)
    (px : String) (hc : custom.lookup "IN_APP_EXCLUDE" = none) :
    pathList (lookup (("IN_APP_EXCLUDE", CVal.list ((splitStr ',' t).map CVal.str)) :: custom) env px "IN_APP_EXCLUDE")
      = some (splitStr ',' t) ∧
    pathList (lookup custom (("DEEP_IN_APP_EXCLUDE", t) :: env) px "IN_APP_EXCLUDE")
      = some (splitStr ',' t ++ [px]) := by
  constructor
  · rw [(c19_precedence _ env px "IN_APP_EXCLUDE" (by decide)).1
      (CVal.list ((splitStr ',' t).map CVal.str)) (by simp [List.lookup]) rfl]
    exact strList_map _
  · rw [((c19_precedence custom _ px "IN_APP_EXCLUDE" (by decide)).2 (Or.inl hc)).1
      (CVal.callable (fn_IN_APP_EXCLUDE (("DEEP_IN_APP_EXCLUDE", t) :: env) px)) (by rfl)]
    have := (c19_exclude_list_flat (("DEEP_IN_APP_EXCLUDE", t) :: env) px).2
    simpa [callIt, envList, List.lookup] using this

/-- **application frames from the environment** — with no include/exclude given in code, `is_app_frame` tests the
    comma separated prefixes of DEEP_IN_APP_INCLUDE, and those of DEEP_IN_APP_EXCLUDE followed by the interpreter
    prefix; it never raises. -/
theorem c19_app_frame_from_env (custom : List (String × CVal)) (env : Env) (px root f : String)
    (hi : custom.lookup "IN_APP_INCLUDE" = none) (he : custom.lookup "IN_APP_EXCLUDE" = none)
    (hr : custom.lookup "APP_ROOT" = some (CVal.str root)) :
    (World.mk custom env px).appFrame f =
      some (isAppFrame (envList env "DEEP_IN_APP_INCLUDE") (envList env "DEEP_IN_APP_EXCLUDE" ++ [px]) root f) := by
  have ⟨h1, h2⟩ := c19_module_functions_called custom env px hi he
  have hroot : lookup custom env px "APP_ROOT" = CVal.str root := by
    rw [(c19_precedence custom env px "APP_ROOT" (by decide)).1 _ hr rfl]; rfl
  simp only [World.appFrame, World.get, World.appRoot, h1, h2, (c19_include_list_flat env px).2,
    (c19_exclude_list_flat env px).2, hroot]
  rfl

/-! ## every documented setting at its use site -/

/-- tripwire: the use-site table covers every documented setting (`documentedKeys` is read from docs/config/config.md
    on every run: a newly documented setting without a use-site reading fails here). -/
theorem c19_use_site_covers_documented : ∀ k ∈ documentedKeys, ∀ v : CVal, (useOf k v).isSome = true := by
  intro k hk v
  simp only [documentedKeys, List.mem_cons, List.not_mem_nil, or_false] at hk
  rcases hk with rfl | rfl | rfl | rfl | rfl | rfl | rfl | rfl <;> rfl

/-- `NativeOf k t v`: `v` is how a programmer writes in code what the environment spells as the text `t` for the
    documented setting `k` — the text itself for the text settings; a bool / number / text whose `str()` is `t` for
    SERVICE_SECURE; the float or int the text spells for POLL_TIMER; the list of the comma separated parts for
    IN_APP_INCLUDE.  (IN_APP_EXCLUDE: `c19_exclude_env_appends_interpreter_prefix`, the disclosed asymmetry;
    APP_ROOT goes through `deep.start`: `c19_documented_env_eq_code_partial`.) -/
inductive NativeOf : String → String → CVal → Prop
  | url (t : String) : NativeOf "SERVICE_URL" t (CVal.str t)
  | logging (t : String) : NativeOf "LOGGING_CONF" t (CVal.str t)
  | auth (t : String) : NativeOf "SERVICE_AUTH_PROVIDER" t (CVal.str t)
  | flag (v : CVal) (t : String) (h : pyStr v = some t) (hn : v.isNone = false) : NativeOf "SERVICE_SECURE" t v
  | secondsFloat (r : String) : NativeOf "POLL_TIMER" r (CVal.float r)
  | secondsInt (s : String) (n : Int) (h : Py.parseInt s = some n) : NativeOf "POLL_TIMER" s (CVal.int n)
  | secondsText (t : String) : NativeOf "POLL_TIMER" t (CVal.str t)
  | inclList (t : String) : NativeOf "IN_APP_INCLUDE" t (CVal.list ((splitStr ',' t).map CVal.str))

theorem get_code (k : String) (v : CVal) (c : List (String × CVal)) (env : Env) (px : String)
    (hown : ownNames.contains k = false) (hn : v.isNone = false) :
    (World.mk ((k, v) :: c) env px).get k = callIt v := by
  simp only [World.get]
  exact (c19_precedence _ env px k hown).1 v (by simp [List.lookup]) hn

theorem get_env_text (k : String) (hk : k ∈ textKeys) (t : String) (c : List (String × CVal)) (env : Env)
    (px : String) (hown : ownNames.contains k = false) (hc : c.lookup k = none) :
    (World.mk c (("DEEP_" ++ k, t) :: env) px).get k = CVal.str t := by
  simp only [World.get]
  rw [((c19_precedence c _ px k hown).2 (Or.inl hc)).1 _ (moduleValue_text k hk t env px)]; rfl

/-- **six of the eight documented settings behave identically at their USE SITE whether given in code or as their
    DEEP_ variable** — SERVICE_URL, SERVICE_SECURE, LOGGING_CONF, POLL_TIMER, SERVICE_AUTH_PROVIDER, IN_APP_INCLUDE
    (exactly the keys `NativeOf` has constructors for: `c19_use_site_native_keys`; NOT IN_APP_EXCLUDE — the two routes
    differ by the interpreter prefix, `c19_exclude_env_appends_interpreter_prefix`, known finding — and NOT APP_ROOT,
    whose variable is read by `deep.start` only: `c19_documented_env_eq_code_partial`).  For every text `t`, every
    native spelling `v` of it, every other code entries and environment: the consumer (channel target / `str2bool` /
    `float()` / provider path / logging file / prefix iteration) computes the same from `{k: v}` in code and from
    `DEEP_<k>=t`.  Holds because RepeatedTimer coerces with `float()` and `str2bool` with `str()` (both read from the
    source on every run).  POLL_TIMER texts outside the plain-decimal alphabet (`1e1`, `inf`, `nan`, `١٠`, `1_0`) are
    `Use.unmodelled` on both routes: the equation then says nothing about Python (`intervalTextModelled`). -/
theorem c19_use_site_env_eq_code (k t : String) (v : CVal) (h : NativeOf k t v) (c : List (String × CVal))
    (env : Env) (px : String) (hc : c.lookup k = none) :
    (World.mk ((k, v) :: c) env px).use k = (World.mk c (("DEEP_" ++ k, t) :: env) px).use k := by
  cases h with
  | url =>
    simp only [World.use]
    rw [get_code _ _ _ _ _ (by decide) rfl, get_env_text _ (by decide) _ _ _ _ (by decide) hc]; rfl
  | logging =>
    simp only [World.use]
    rw [get_code _ _ _ _ _ (by decide) rfl, get_env_text _ (by decide) _ _ _ _ (by decide) hc]; rfl
  | auth =>
    simp only [World.use]
    rw [get_code _ _ _ _ _ (by decide) rfl, get_env_text _ (by decide) _ _ _ _ (by decide) hc]; rfl
  | flag _ _ h hn =>
    simp only [World.use]
    rw [get_code _ _ _ _ _ (by decide) hn, get_env_text _ (by decide) _ _ _ _ (by decide) hc]
    have hcall : callIt v = v := by cases v <;> first | rfl | simp [pyStr] at h
    rw [hcall]
    simp only [useOf, c19_bool_setting_native_eq_text v t h]
  | secondsFloat =>
    simp only [World.use]
    rw [get_code _ _ _ _ _ (by decide) rfl, get_env_text _ (by decide) _ _ _ _ (by decide) hc]
    have hm : intervalTextModelled (CVal.float t) = intervalTextModelled (CVal.str t) := rfl
    simp only [useOf, callIt, c19_poll_interval_float_text, hm]
  | secondsInt _ n h =>
    simp only [World.use]
    rw [get_code _ _ _ _ _ (by decide) rfl, get_env_text _ (by decide) _ _ _ _ (by decide) hc]
    have hi : pollInterval (CVal.int n) = some ⟨n, 0⟩ := rfl
    simp only [useOf, callIt, c19_poll_interval_text t n h, hi]
  | secondsText =>
    simp only [World.use]
    rw [get_code _ _ _ _ _ (by decide) rfl, get_env_text _ (by decide) _ _ _ _ (by decide) hc]; rfl
  | inclList =>
    have := c19_include_code_list_eq_env t c env px hc
    have hE : "DEEP_" ++ "IN_APP_INCLUDE" = "DEEP_IN_APP_INCLUDE" := by decide
    simp only [World.use, World.get, useOf, hE, this.1, this.2]

/-- `NativeOf` speaks of exactly six documented keys — never of IN_APP_EXCLUDE or APP_ROOT — and of each of the six
    for some text and value (the theorem above is not vacuous for any of them) -/
theorem c19_use_site_native_keys :
    (∀ k t v, NativeOf k t v → k ∈ documentedKeys ∧ k ≠ "IN_APP_EXCLUDE" ∧ k ≠ "APP_ROOT") ∧
    (∀ k ∈ documentedKeys, k ≠ "IN_APP_EXCLUDE" → k ≠ "APP_ROOT" → ∃ t v, NativeOf k t v) := by
  constructor
  · intro k t v h
    cases h <;> decide
  · intro k hk h1 h2
    simp only [documentedKeys, List.mem_cons, List.not_mem_nil, or_false] at hk
    rcases hk with rfl | rfl | rfl | rfl | rfl | rfl | rfl | rfl
    · exact ⟨"h:1", _, NativeOf.url _⟩
    · exact ⟨"False", CVal.bool false, NativeOf.flag _ _ rfl rfl⟩
    · exact ⟨"f.conf", _, NativeOf.logging _⟩
    · exact ⟨"0.25", _, NativeOf.secondsFloat _⟩
    · exact ⟨"a.B", _, NativeOf.auth _⟩
    · exact ⟨"/a,/b", _, NativeOf.inclList _⟩
    · exact absurd rfl h1
    · exact absurd rfl h2

/-- interval texts outside the plain-decimal alphabet are outside the model (not "fails"); inside it a non-number
    fails and a decimal is the number it spells -/
theorem c19_interval_alphabet_witness :
    useOf "POLL_TIMER" (CVal.str "1e1") = some Use.unmodelled ∧ useOf "POLL_TIMER" (CVal.str "inf") = some Use.unmodelled ∧
    useOf "POLL_TIMER" (CVal.str "١٠") = some Use.unmodelled ∧ useOf "POLL_TIMER" (CVal.str "1..2") = some Use.fails ∧
    useOf "POLL_TIMER" (CVal.str " 2.5 ") = some (Use.seconds ⟨25, 1⟩) := by decide

/-- the two routes can disagree when the native value is NOT a spelling of the text: the int 0 is not the text
    "0.5" — and the hypothesis `hn` of `NativeOf.flag` is needed: `None` in code is "not given", not the text "None" -/
theorem c19_use_site_needs_native_witness :
    (World.mk [("POLL_TIMER", CVal.int 0)] [] "/px").use "POLL_TIMER" ≠
      (World.mk [] [("DEEP_POLL_TIMER", "0.5")] "/px").use "POLL_TIMER" ∧
    (World.mk [("SERVICE_SECURE", CVal.none)] [] "/px").use "SERVICE_SECURE" = some (Use.flag true) ∧
    (World.mk [] [("DEEP_SERVICE_SECURE", "None")] "/px").use "SERVICE_SECURE" = some (Use.flag false) := by decide

/-! ### non-vacuity -/

/-- use sites: a fractional interval as text and as float, False as bool and as text, an include list -/
example : (World.mk [] [("DEEP_POLL_TIMER", "0.25")] "/px").use "POLL_TIMER" = some (Use.seconds ⟨25, 2⟩) ∧
    (World.mk [("POLL_TIMER", CVal.float "0.25")] [] "/px").use "POLL_TIMER" = some (Use.seconds ⟨25, 2⟩) ∧
    (World.mk [("SERVICE_SECURE", CVal.bool false)] [] "/px").use "SERVICE_SECURE" = some (Use.flag false) ∧
    (World.mk [] [("DEEP_IN_APP_INCLUDE", "/a,/b")] "/px").use "IN_APP_INCLUDE" = some (Use.prefixes ["/a", "/b"]) ∧
    NativeOf "SERVICE_SECURE" "False" (CVal.bool false) :=
  ⟨by decide, by decide, by decide, by decide, NativeOf.flag _ _ rfl rfl⟩


/-- the translated `__getattribute__`: own attribute before the code dict; a `None` custom dict; a code `None` falls
    through to the module default, an unknown name to `DEEP_<name>`, a callable is called, nothing found = `None` -/
example : getAttribute ownStatic (some [("plugins", CVal.int 1)]) [] "/px" "plugins" = CVal.other "own attribute plugins" ∧
    getAttribute ownStatic none [("DEEP_X", "e")] "/px" "X" = CVal.str "e" ∧
    getAttribute ownStatic (some [("POLL_TIMER", CVal.none)]) [] "/px" "POLL_TIMER" = CVal.int 10 ∧
    getAttribute ownStatic (some [("X", CVal.callable (CVal.int 3))]) [("DEEP_X", "e")] "/px" "X" = CVal.int 3 ∧
    getAttribute ownStatic (some []) [] "/px" "X" = CVal.none := ⟨by rfl, by rfl, by rfl, by rfl, by rfl⟩

example : isAppFrame ["/app/src", "/opt/shared"] ["/app/src/vendor", "/px"] "/app" "/app/src/vendor/x.py"
      = (false, some "/app/src/vendor") ∧
    isAppFrame ["/app/src", "/opt/shared"] ["/app/src/vendor", "/px"] "/app" "/opt/shared/m.py"
      = (true, some "/opt/shared") ∧
    isAppFrame [] ["/px"] "/app" "/app/main.py" = (true, some "/app") ∧
    isAppFrame [] ["/px"] "/app" "/usr/lib/x.py" = (false, none) ∧
    parseShortName (isAppFrame [] ["/px"] "/app") "/app/main.py" = ("/main.py", true) := by decide

example : (World.mk [("X", CVal.callable (CVal.int 3)), ("Y", CVal.none)] [("DEEP_Y", "fromenv"), ("DEEP_X", "no")]
      "/px").get "X" matches CVal.int 3 := by decide

end C19
