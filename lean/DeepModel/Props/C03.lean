/-
  C03 — Trigger placement: actions fire at exactly the configured locations.

  Every theorem is about the *translated* source text (`Extracted.Locations`, regenerated on every run):
  `LineLocation.at_location`, the named branch of `FunctionLocation.at_location`, `location_from_event`,
  `TriggerHandler.__actions_for_location`, `grpc.convert_response`, the guards of `__trace_call`, composed by
  `Trigger.traceCall` in the statement order of `__trace_call`.

  Quantifiers: every event (any kind text, path, line, function), every list of tracepoints received from the
  service (`resp`, merged per location by `convert_response`) and registered in code (`custom`), several on one
  location or on locations never reached, every gate outcome (`Event.denied` — an arbitrary function of the event
  position), every event stream, every interleaving of any number of threads.  No bound anywhere.

  Scope, stated as it is:
  * Method locations WITHOUT a name (`Loc.nameless`: stage method_* / span=method without `method_name`, which the
    service can send) are in the model with the translated test `start <= line >= end` over a `getsourcelines`
    oracle; the property speaks of "a method tracepoint with a method name" only.  `c03_exact`, `c03_only_if`,
    `c03_if`, `c03_count`, `c03_independent` hold for them too (they say "the tracepoints whose location says here"),
    but *where* such a location says "here" is not a function entry: `c03_nameless_witness` (known finding
    `C03/nameless-method-location`).  The theorems about event kinds therefore carry the hypothesis `Loc.named`
    (`c03_kinds_partial`, `c03_not_on_return_exception_partial`).  A nameless location that matched becomes the
    named location of that function: the installed triggers are state (`Trigger.runS`); `run` (fixed triggers) is
    that run exactly when every method location has a name (`c03_run_faithful_partial`).
  * "A source file with that name": the handler compares the tracepoint's path with the file NAME of the executing
    code (`PyX.basename`, a hand-written rendering of `os.path.basename` for POSIX paths — `c03_basename_spec`, and
    compared with the real `location_from_event` on boundary paths by the `loc` stream): a tracepoint path with a
    directory part never acts (`c03_dir_path_never_matches`), same-named files in different directories are one file
    to every line / named method location (`c03_same_name_any_dir`; not to a nameless one, see there); at events of a file with another name NO location (nameless and
    unmatchable ones included) says "here" or raises (`c03_other_file_never`, `c03_other_file_no_action`).
  * Delivered events only: `__trace_call` returns `None` for a `call` event while no tracepoint is installed, so a
    frame entered during that time is never line-traced, also after a configuration arrives; the property (and
    every theorem here) quantifies over the events Python delivers to the trace function.
  * Faults: the trigger phase of an event is never abandoned in the model.  In the code an exception that is not an
    `Exception` (BaseException) raised by a pending callback processed at the same event leaves
    `__process_call_backs`, the catch-all of `trace_call` ends the event, and the tracepoints at that event do not
    act (d5aa530 contains `Exception` per callback only).  Callbacks are assumed not to raise BaseException.
-/
import DeepModel.Proofs.Trigger

namespace C03
open Callbacks Trigger Extracted.Locations

/-- the actions processed at one event under a configuration (the trigger phase of `trace_call`) -/
def fired (cfg : List Trig) (ev : Event) : List Action := firedAt (cfg.length : Int) (actionsFor cfg) ev

/-- the actions of all tracepoints whose location is the event's, with multiplicity -/
def configuredAt (tps : List Tp) (ev : Event) : List Action := selTp (fun l => l.matches ev) tps

/-! ### where a location is -/

/-- **line tracepoint** — at an event iff it is a `line` event, in a file with that *name* (basename of the code
    object's path), on that line. -/
theorem c03_line_iff (p : String) (n : Int) (ev : Event) :
    (Loc.line p n).matches ev = true ↔ ev.kind = "line" ∧ PyX.basename ev.path = p ∧ ev.line = n := by
  rw [matches_line, fileOf_basename]

/-- **method tracepoint with a method name** — at an event iff it is a `call` event (function entry) of a function
    of that name in a file of that name. -/
theorem c03_func_iff (p f : String) (ev : Event) :
    (Loc.func p f).matches ev = true ↔ ev.kind = "call" ∧ PyX.basename ev.path = p ∧ ev.func = f := by
  rw [matches_func, fileOf_basename]

/-- **no other trace event** — a `return`, an `exception` (or anything else that is not `line`/`call`) is at no
    location. -/
theorem c03_kinds_partial (l : Loc) (hn : l.named = true) (ev : Event) (h : l.matches ev = true) :
    ev.kind = "line" ∨ ev.kind = "call" :=
  matches_kind l hn ev h

theorem c03_not_on_return_exception_partial (l : Loc) (hn : l.named = true) (ev : Event)
    (h : ev.kind = "return" ∨ ev.kind = "exception") : l.matches ev = false := by
  cases hm : l.matches ev with
  | false => rfl
  | true =>
    rcases matches_kind l hn ev hm with h' | h' <;> rcases h with h | h <;> rw [h] at h' <;>
      exact absurd h' (by decide)

/-- **the hypothesis `named` is needed** (known finding `C03/nameless-method-location`) — a method tracepoint
    without a method name on a 5-line module (getsourcelines of a module frame: start 0, 5 lines): it is "here" at
    the `line` event AND at the `return` event of the module's last line (the translated test `start <= line >= end`
    looks at neither the event kind nor the tracepoint's own line), its action runs there, and it then is the named
    location of `<module>`. -/
theorem c03_nameless_witness :
    (Loc.nameless "a.py" [("<module>", 0, 5)]).matches ⟨"line", "/x/a.py", 5, "<module>", 0, 0, [], []⟩ = true ∧
    (Loc.nameless "a.py" [("<module>", 0, 5)]).matches ⟨"return", "/x/a.py", 5, "<module>", 0, 0, [], []⟩ = true ∧
    (Loc.nameless "a.py" [("<module>", 0, 5)]).matches ⟨"line", "/x/a.py", 4, "<module>", 0, 0, [], []⟩ = false ∧
    fired (install [⟨.nameless "a.py" [("<module>", 0, 5)], [⟨0, .log⟩]⟩] [])
      ⟨"line", "/x/a.py", 5, "<module>", 0, 0, [], []⟩ = [⟨0, .log⟩] ∧
    (Loc.nameless "a.py" [("<module>", 0, 5)]).settle ⟨"line", "/x/a.py", 5, "<module>", 0, 0, [], []⟩
      = Loc.func "a.py" "<module>" := by decide

/-- with every method location named the installed triggers never change: the run over fixed triggers (`run`,
    which `c03_stream`, `c03_none`, `c03_thread` and all of C15 are about) is the run of the handler -/
theorem c03_run_faithful_partial (cfg : List Trig) (slot : Option (List Ctx)) (evs : List Event)
    (hn : AllNamed cfg) : runS cfg slot evs = (run cfg slot evs, cfg) :=
  runS_named cfg slot evs hn

/-! ### the trigger phase is exactly the configured tracepoints at the location -/

/-- **exactness** — the actions `__actions_for_location` yields for the installed configuration (converted poll
    response ++ code-registered tracepoints) are, as a multiset, the actions of all tracepoints whose location is
    the event's: none lost, none invented, none duplicated, whatever else is configured. -/
theorem c03_exact (resp custom : List Tp) (ev : Event) :
    (actionsFor (install resp custom) ev).Perm (configuredAt (resp ++ custom) ev) := by
  rw [actionsFor_eq]
  exact install_perm _ resp custom

theorem mem_firedOf (a : Action) (ev : Event) (w : List Eff) : Eff.fired a ev ∈ w ↔ (a, ev) ∈ firedOf w := by
  induction w with
  | nil => simp [firedOf]
  | cons e w ih => cases e <;> simp [firedOf, ih]

theorem mem_fired (resp custom : List Tp) (ev : Event) (a : Action) :
    a ∈ fired (install resp custom) ev ↔
      a ∉ ev.denied ∧ ∃ tp ∈ resp ++ custom, tp.loc.matches ev = true ∧ a ∈ tp.actions := by
  unfold fired
  rw [firedAt_cfg, List.mem_filter, (c03_exact resp custom ev).mem_iff, configuredAt, mem_selTp]
  simp [and_comm]

/-- the `fired` effects of one `trace_call` are the trigger phase of its event -/
theorem fired_traceCall (cfg : List Trig) (slot : Option (List Ctx)) (ev : Event) :
    firedOf (traceCall cfg slot ev).2 = (fired cfg ev).map (fun a => (a, ev)) := by
  by_cases hslot : slot = some []
  · -- a slot left set but empty is cleared by the guard of `__process_call_backs`: same effects as unset
    subst hslot
    have hn : (none : Option (List Ctx)) = norm [] := rfl
    simp only [traceCall, stepWith_some_nil_effects, hn, stepWith_norm, firedOf_sstep, fired]
  · rw [norm_getD slot hslot]
    simp only [traceCall, stepWith_norm, firedOf_sstep, fired]

/-- **only if** — an action runs at an event only if it belongs to a configured tracepoint whose location is that
    event's (and the gate allowed it). -/
theorem c03_only_if (resp custom : List Tp) (slot : Option (List Ctx)) (ev ev' : Event)
    (a : Action) (h : Eff.fired a ev' ∈ (traceCall (install resp custom) slot ev).2) :
    ev' = ev ∧ a ∉ ev.denied ∧ ∃ tp ∈ resp ++ custom, tp.loc.matches ev = true ∧ a ∈ tp.actions := by
  rw [mem_firedOf, fired_traceCall _ slot, List.mem_map] at h
  obtain ⟨b, hb, heq⟩ := h
  simp only [Prod.mk.injEq] at heq
  obtain ⟨rfl, rfl⟩ := heq
  exact ⟨rfl, (mem_fired resp custom ev b).mp hb⟩

/-- **if** — every action of every configured tracepoint whose location is the event's is attempted there, and
    runs unless the gate (C04/C10) refuses it — whatever the other tracepoints are. -/
theorem c03_if (resp custom : List Tp) (slot : Option (List Ctx)) (ev : Event)
    (tp : Tp) (a : Action) (htp : tp ∈ resp ++ custom) (hm : tp.loc.matches ev = true) (ha : a ∈ tp.actions)
    (hg : a ∉ ev.denied) :
    a ∈ actionsFor (install resp custom) ev ∧ Eff.fired a ev ∈ (traceCall (install resp custom) slot ev).2 := by
  refine ⟨?_, ?_⟩
  · rw [(c03_exact resp custom ev).mem_iff, configuredAt, mem_selTp]
    exact ⟨tp, htp, hm, ha⟩
  · rw [mem_firedOf, fired_traceCall _ slot, List.mem_map]
    exact ⟨a, (mem_fired resp custom ev a).mpr ⟨hg, tp, htp, hm, ha⟩, rfl⟩

/-- `c03_only_if`/`c03_if` hold for *every* state of the thread's pending-callback slot, also one that is set but
    empty (left behind by an earlier failure): the guard at the top of `__process_call_backs` clears it, a matching
    line tracepoint still acts. -/
theorem c03_empty_slot_harmless :
    (traceCall (install [⟨.line "a.py" 3, [⟨0, .log⟩]⟩] []) (some []) ⟨"line", "/x/a.py", 3, "f", 0, 0, [], []⟩)
      = (none, [Eff.fired ⟨0, .log⟩ ⟨"line", "/x/a.py", 3, "f", 0, 0, [], []⟩]) := by decide

/-- a run that starts with the slot unset never has it "set but empty" -/
theorem c03_slot_never_empty (cfg : List Trig) (evs : List Event) : (run cfg none evs).1 ≠ some [] := by
  have : (none : Option (List Ctx)) = norm [] := rfl
  rw [run, this, runWith_norm]
  generalize (srun (cfg.length : Int) (actionsFor cfg) [] evs).1 = s
  cases s <;> simp [norm]

/-- **how often** — an action runs at an event exactly as many times as it is configured at that location
    (once per tracepoint carrying it), or not at all when the gate refuses it. -/
theorem c03_count (resp custom : List Tp) (ev : Event) (a : Action) :
    (fired (install resp custom) ev).count a =
      if a ∈ ev.denied then 0 else (configuredAt (resp ++ custom) ev).count a := by
  unfold fired
  rw [firedAt_cfg]
  by_cases hd : a ∈ ev.denied
  · simp only [hd, if_true]
    apply List.count_eq_zero.mpr
    intro h
    have := (List.mem_filter.mp h).2
    simp [hd] at this
  · simp only [hd, if_false]
    rw [List.count_filter (by simp [hd])]
    exact (c03_exact resp custom ev).count_eq a

theorem configuredAt_perm {tps tps' : List Tp} (h : tps.Perm tps') (ev : Event) :
    (configuredAt tps ev).Perm (configuredAt tps' ev) :=
  (h.filter _).flatMap_right _

/-- **independence** — removing (or adding) another tracepoint `tp'`, from the response or from the registered
    ones, wherever it is and whatever its location, does not change how often any action not its own runs at any
    event.  (Two tracepoints on one line each act; this is where D8 lived on the data side — the collected data is
    compared by the check.) -/
theorem c03_independent (resp custom resp' custom' : List Tp) (tp' : Tp) (ev : Event) (a : Action)
    (hrm : (resp ++ custom).Perm (tp' :: (resp' ++ custom'))) (ha : a ∉ tp'.actions) :
    (fired (install resp' custom') ev).count a = (fired (install resp custom) ev).count a := by
  rw [c03_count, c03_count, (configuredAt_perm hrm ev).count_eq a]
  have : (configuredAt (tp' :: (resp' ++ custom')) ev).count a = (configuredAt (resp' ++ custom') ev).count a := by
    unfold configuredAt selTp
    by_cases hm : tp'.loc.matches ev = true
    · simp [hm, List.count_append, List.count_eq_zero.mpr ha]
    · simp [hm]
  rw [this]

/-- **a tracepoint that cannot be matched is isolated** — a method tracepoint without a method name on a file whose
    source is not available (`at_location` raises on every event of that file) never acts, is never "here", and
    — wherever it stands in the response or among the registered tracepoints — changes nothing for the others:
    at every event (also the events of its own file, where its check raises) the actions that run are, as a
    multiset, exactly those that run without it. -/
theorem c03_unmatchable_isolated (resp custom resp' custom' : List Tp) (p : String) (acts : List Action)
    (ev : Event) (hrm : (resp ++ custom).Perm (⟨.nosource p, acts⟩ :: (resp' ++ custom'))) :
    (Loc.nosource p).matches ev = false ∧
    ((Loc.nosource p).check ev = none ↔ PyX.basename ev.path = p) ∧
    (fired (install resp custom) ev).Perm (fired (install resp' custom') ev) := by
  refine ⟨matches_nosource p ev, by rw [check_nosource, fileOf_basename], ?_⟩
  unfold fired
  rw [firedAt_cfg, firedAt_cfg]
  apply List.Perm.filter
  refine (c03_exact resp custom ev).trans (((configuredAt_perm hrm ev).trans ?_).trans (c03_exact resp' custom' ev).symm)
  unfold configuredAt selTp
  simp [matches_nosource]

/-! ### streams and threads -/

/-- **stream lift** — over a whole stream (from the unset slot) the actions that ran are, event by event and in
    order, the trigger phase of each event: nothing else in the run (pending callbacks, earlier events) adds or
    removes an action. -/
theorem c03_stream (cfg : List Trig) (evs : List Event) :
    firedOf (run cfg none evs).2 = evs.flatMap (fun ev => (fired cfg ev).map (fun a => (a, ev))) := by
  have : (none : Option (List Ctx)) = norm [] := rfl
  rw [run, this, runWith_norm, firedOf_srun]
  rfl

/-- **no matching location, no action at all** — if no event of the stream is at the location of any configured
    tracepoint (from the service or registered), the run has no effect whatsoever: nothing runs, nothing is opened,
    nothing is left pending. -/
theorem c03_none (resp custom : List Tp) (evs : List Event)
    (h : ∀ ev ∈ evs, ∀ tp ∈ resp ++ custom, tp.loc.matches ev = false) :
    run (install resp custom) none evs = (none, []) := by
  have hact : ∀ ev ∈ evs, actionsFor (install resp custom) ev = [] := by
    intro ev hev
    have hp := c03_exact resp custom ev
    have hnil : configuredAt (resp ++ custom) ev = [] := by
      unfold configuredAt selTp
      rw [List.filter_eq_nil_iff.mpr (by intro tp htp; simp [h ev hev tp htp])]
      rfl
    rw [hnil] at hp
    exact List.Perm.eq_nil hp
  clear h
  generalize install resp custom = cfg at hact
  have hn : (none : Option (List Ctx)) = norm [] := rfl
  rw [run, hn, runWith_norm]
  have : srun (cfg.length : Int) (actionsFor cfg) [] evs = ([], []) := by
    induction evs with
    | nil => rfl
    | cons ev evs ih =>
      have h0 := hact ev (List.mem_cons_self ..)
      have hf : firedAt (cfg.length : Int) (actionsFor cfg) ev = [] := firedAt_nil_of _ _ _ h0
      have hs : sstep (cfg.length : Int) (actionsFor cfg) [] ev = ([], []) := by
        rw [sstep_eq]; simp [cbsAt, hf, pcPhase]
      rw [srun_cons, hs, ih (fun e he => hact e (List.mem_cons_of_mem _ he))]
      rfl
  rw [this]

/-- tripwire: **thread lift** (a projection lemma: the machine of all threads keeps one slot per thread and gives each
    event to its thread's slot; it breaks if the translated handler ever reads another thread's state) — in any interleaving of the events of any number of threads, what thread `t` does (its
    effects, its pending contexts) is what it does alone on its own events; other threads' events matter only
    through the gate answers (`denied`, the shared per-action statistics of C04). -/
theorem c03_thread (cfg : List Trig) (gs : List (Tid × Event)) (t : Tid) :
    projEff t (runG cfg Store.empty gs).2 = (run cfg none (proj t gs)).2 ∧
      (runG cfg Store.empty gs).1 t = (run cfg none (proj t gs)).1 := by
  have := runG_proj cfg gs Store.empty t
  exact ⟨this.2, this.1⟩

/-! ### "a source file with that name": how the file of an event is compared -/

/-- model lemma: **`PyX.basename`** (hand-written rendering of `os.path.basename` for POSIX paths, compared with the real
    `location_from_event` on boundary paths by the `loc` stream) is the text after the last `/`: it contains no `/`
    and the path is a directory part — empty or ending in `/` — followed by it. -/
theorem c03_basename_spec (s : String) :
    '/' ∉ (PyX.basename s).toList ∧
    ∃ d : List Char, s.toList = d ++ (PyX.basename s).toList ∧ (d = [] ∨ d.getLast? = some '/') :=
  ⟨basename_no_slash s, basename_suffix s⟩

/-- **a tracepoint path with a directory part never acts** — the handler compares the tracepoint's path with the
    file NAME of the executing code: a line or method tracepoint whose path contains a `/` (`src/app.py`,
    `/srv/app/app.py`) is at no event of any program, whatever file executes (the check lists "tracepoint paths are
    file names" as an assumption: this is why). -/
theorem c03_dir_path_never_matches (p : String) (hp : '/' ∈ p.toList) (n : Int) (f : String) (ev : Event) :
    (Loc.line p n).matches ev = false ∧ (Loc.func p f).matches ev = false := by
  refine ⟨?_, ?_⟩
  · cases h : (Loc.line p n).matches ev with
    | false => rfl
    | true =>
      have := ((c03_line_iff p n ev).mp h).2.1
      exact absurd (this ▸ hp) (basename_no_slash ev.path)
  · cases h : (Loc.func p f).matches ev with
    | false => rfl
    | true =>
      have := ((c03_func_iff p f ev).mp h).2.1
      exact absurd (this ▸ hp) (basename_no_slash ev.path)

/-- **the directory of the executing file is never looked at** (line tracepoints and method tracepoints WITH a name —
    the tracepoints the property speaks of) — two events that agree on kind, file NAME, line and function get the same
    answer: same-named files in different directories are one file to such a tracepoint ("a source file with that
    name").  NOT claimed for method tracepoints without a name (`Loc.nameless`, `Loc.nosource`): there the answer of the
    code comes from the FRAME's own source (`inspect.getsourcelines(frame)`), which differs between same-named files
    (3 lines / 5 lines / compiled from a string: here / not here / OSError — probe
    notes/probes/p_c03_nameless_same_name_dirs.py); the model's getsourcelines oracle is part of the location and keyed
    by `co_name` only, so it cannot express that difference (instance of `C03/nameless-method-location`). -/
theorem c03_same_name_any_dir (p : String) (n : Int) (f : String) (ev ev' : Event) (hk : ev.kind = ev'.kind)
    (hp : PyX.basename ev.path = PyX.basename ev'.path) (hl : ev.line = ev'.line) (hf : ev.func = ev'.func) :
    (Loc.line p n).matches ev = (Loc.line p n).matches ev' ∧ (Loc.func p f).matches ev = (Loc.func p f).matches ev' := by
  refine ⟨?_, ?_⟩ <;>
    simp only [Loc.matches, Loc.check, locationFromEvent, hk, hp, hl, hf]

example : (Loc.line "src/a.py" 3).matches ⟨"line", "src/a.py", 3, "f", 0, 0, [], []⟩ = false ∧
    (Loc.line "a.py" 3).matches ⟨"line", "src/a.py", 3, "f", 0, 0, [], []⟩ = true ∧
    (Loc.line "a.py" 3).matches ⟨"line", "/other/dir/a.py", 3, "g", 0, 0, [], []⟩ = true ∧
    (Loc.line "a.py" 3).matches ⟨"line", "/other/dir/xa.py", 3, "g", 0, 0, [], []⟩ = false ∧
    (Loc.line "a.py" 3).matches ⟨"line", "a.py/", 3, "g", 0, 0, [], []⟩ = false := by decide

/-- the path a tracepoint was configured with -/
def locPath : Loc → String
  | .line p _ => p
  | .func p _ => p
  | .nosource p => p
  | .nameless p _ => p

/-- **other files** (every kind of location — line, method with or without a name, unmatchable; no `named` hypothesis) —
    at an event of a file with another NAME a location answers "not here": it neither says "here" nor raises. -/
theorem c03_other_file_never (l : Loc) (ev : Event) (h : PyX.basename ev.path ≠ locPath l) :
    l.check ev = some false ∧ l.matches ev = false := by
  have hc : l.check ev = some false := by
    cases l <;>
      simp_all [Loc.check, Loc.atLocation, locationFromEvent, lineAtLocation, funcAtLocation, funcAtLocationNoSource,
        funcAtLocationNameless, locPath]
  exact ⟨hc, by simp [Loc.matches, hc]⟩

/-- **a file no tracepoint names sees no action at all** — at every event (any kind) of a file whose name is the path
    of no configured tracepoint, the trigger phase runs nothing — whatever the tracepoints are (nameless and
    unmatchable method tracepoints included), whatever the gate says. -/
theorem c03_other_file_no_action (resp custom : List Tp) (ev : Event)
    (h : ∀ tp ∈ resp ++ custom, PyX.basename ev.path ≠ locPath tp.loc) :
    fired (install resp custom) ev = [] := by
  rw [List.eq_nil_iff_forall_not_mem]
  intro a ha
  obtain ⟨_, tp, htp, hm, _⟩ := (mem_fired resp custom ev a).mp ha
  rw [(c03_other_file_never tp.loc ev (h tp htp)).2] at hm
  exact absurd hm (by decide)

example : fired (install [⟨.nameless "a.py" [("<module>", 0, 5)], [⟨0, .log⟩]⟩, ⟨.nosource "a.py", [⟨1, .log⟩]⟩]
      [⟨.line "a.py" 5, [⟨2, .log⟩]⟩]) ⟨"line", "/x/b.py", 5, "<module>", 0, 0, [], []⟩ = [] := by decide

/-! ### non-vacuity -/

/-- two tracepoints on one line (merged by `convert_response`), one on a never-reached line, a method tracepoint
    on a same-named function of another file, and a registered one on the same line: at a `line` event of
    `a.py:3` exactly the three tracepoints on that line act; at the `return` event on the same line none does. -/
example :
    fired (install [⟨.line "a.py" 3, [⟨0, .snapshot⟩]⟩, ⟨.line "a.py" 99, [⟨1, .log⟩]⟩, ⟨.line "a.py" 3, [⟨2, .metric⟩]⟩,
        ⟨.func "b.py" "f", [⟨3, .span⟩]⟩] [⟨.line "a.py" 3, [⟨4, .log⟩]⟩])
      ⟨"line", "/x/a.py", 3, "f", 0, 0, [], []⟩ = [⟨0, .snapshot⟩, ⟨2, .metric⟩, ⟨4, .log⟩] ∧
    fired (install [⟨.line "a.py" 3, [⟨0, .snapshot⟩]⟩] []) ⟨"return", "/x/a.py", 3, "f", 0, 0, [], []⟩ = [] ∧
    fired (install [⟨.func "b.py" "f", [⟨3, .span⟩]⟩] []) ⟨"call", "/x/a.py", 1, "f", 0, 0, [], []⟩ = [] ∧
    fired (install [⟨.func "b.py" "f", [⟨3, .span⟩]⟩] []) ⟨"call", "/y/b.py", 1, "f", 0, 0, [], []⟩ = [⟨3, .span⟩] ∧
    -- a tracepoint that cannot be matched, before and after ordinary ones on the same file
    fired (install [⟨.nosource "a.py", [⟨5, .span⟩]⟩, ⟨.line "a.py" 3, [⟨0, .snapshot⟩]⟩] [⟨.nosource "a.py", [⟨6, .log⟩]⟩,
        ⟨.line "a.py" 3, [⟨4, .log⟩]⟩]) ⟨"line", "/x/a.py", 3, "f", 0, 0, [], []⟩ = [⟨0, .snapshot⟩, ⟨4, .log⟩] := by
  decide

end C03
