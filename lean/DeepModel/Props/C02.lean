/-
  C02 — Snapshot fidelity: a snapshot truthfully describes the paused frame.

  The theorems are about `Frames.snapshot` (Model/Frames.lean): the composition, as in
  `SnapshotActionContext._process_action`, of
    * `Extracted.Frames.*` — regenerated from the Python source on every run: `should_collect_vars`, the
      `StackFrame(...)` construction of `_process_frame`, the (guarded) class-name rule, `parse_short_name` /
      `is_app_frame`, `LocationAction.tracepoint`, `build_snapshot_action`, `TracePointConfig` getters, the frame the
      watches are evaluated in, where the `collect` walk starts;
    * `Collector.*` (the work-list model of the collector, whose decisions are `Extracted.Collector.*`).

  What is modelled: a snapshot action on a `line` or `call` event with no `log_msg` configured.  NOT modelled here:
  the log-message variant (its expressions add LOG watch results — C16) and the `return` / `exception` capture
  variants (one more CAPTURE result — C05–C07 model the collection of the captured value).

  `Frames.Spec` is the reference the theorems compare with.  It is NOT independent of the code everywhere:
    * from the statement: frames in stack order with file / function / line / class of `self`; frame_type
      (`collects`); element count for `dict` / `list` / `tuple` / `set` / `frozenset`, text otherwise; children of
      containers (items by key, elements by index) and of objects (attributes by name), exception args; truncation;
      the echo keeps id / path / line / watches / arguments;
    * the code's conventions, adopted as they are and named as such in `Spec`: which type names count as scalars
      (`Spec.isScalar` = the code's NO_CHILD_TYPES, incl. the Python 2 names and `traceback`), the list-iterator
      text, "container" = exactly `dict` or a type *named* list/tuple/set/frozenset (a dict or list subclass is an
      ordinary object: `c02_dict_subclass_rendering`), a container whose `len` fails is rendered by `str`
      (`c02_len_failure_rendering`), no children when an object cannot be inspected, the depth rule
      `depth + 1 < maxDepth` (`Spec.kidsAt`), de-mangling by the prefix `_<type name>` (`Spec.attrKid`), modifiers from
      leading underscores (`Spec.modifiers`, textually the extracted `varModifiers`), "app frame / short path" as
      prefix tests (`Spec.appFrame`), "class of self" = the class the object reports (`__class__`).
  So `c02_entry_faithful` / `c02_children_prefix` / `c02_complete` say: the collector, for every heap, produces what
  this description says — a refinement to a readable description, checked against the real code by the
  correspondence run and against an oracle written from the statement in harness/props/c02.py.

  Runtime facts no theorem here is about (read, not modelled): "in the thread that reached it" and "at the instant the
  line was reached" — the model takes the stack and heap of that instant as its input; that the agent reads them on
  the reaching thread at that instant is exercised by the recorder comparison (incl. the forced two-thread stream).

  Quantifiers: every heap (cyclic, shared, raising objects), every stack, every action config / tracepoint args,
  every app config, every limits — no bounds.  `c02_top_vars_exact` / `c02_complete` additionally assume `NoCut0`
  (the search of the paused frame's locals ran to its end), a decidable predicate on (heap, limits, locals).

  Time budget: the theorems take the per-frame bit `timeUp` as an arbitrary function; `c02_frames_after_budget` instantiates
  it with what the frame collector computes from a scripted clock (`CollectorTime.decisions`, regenerated `__time_exceeded`
  and guard — see Props/C05 `c05_time_*`): every frame stays listed with all its fields, frames reached after the budget
  carry no variables.

  Tripwires (facts about regenerated constants / definitional unfoldings, proved by `decide` / `rfl`; they break when
  the source changes, they carry no ∀ of their own): `c02_walk_starts_at_top`, `c02_variable_sources`,
  `c02_modifiers`, `c02_watch_inputs`, the first two conjuncts of `c02_watches_same_frame`.
-/
import DeepModel.Proofs.Frames
import DeepModel.Proofs.FramesExact
import DeepModel.Proofs.CollectorTime
import DeepModel.Proofs.CollectorExamples

namespace C02
open Heap Collector FrameBase Extracted.Frames Extracted.Collector Frames

/-! ### the stack -/

/-- **frames** — the snapshot's frames are the real call stack, in order, one per frame, each with the real file,
    function, line, class of `self`, and app flag / short path per configuration.  For every stack, every heap,
    every app configuration, and whatever the collector produced as variables. -/
theorem c02_frames (H : Heap) (app : AppCfg) (stack : Stack) (vars : List (List VarId)) :
    (walk H app stack vars).map Spec.viewOf = stack.map (Spec.frameView H app) := by
  rw [walk, visited_eq]; exact walkFrom_views H app stack vars

/-- tripwire: the walk starts at the paused frame itself -/
theorem c02_walk_starts_at_top : walkSkip = 0 := by decide

/-- frame `i` carries exactly what the collector produced for frame `i` (nothing when it produced nothing) -/
theorem c02_frame_vars (H : Heap) (app : AppCfg) (stack : Stack) (vars : List (List VarId)) (i : Nat)
    (hi : i < stack.length) :
    ((walk H app stack vars)[i]?).map (·.variables) = some ((vars[i]?).getD []) := by
  rw [walk, visited_eq]; exact walkFrom_vars H app stack vars i hi

theorem snapshot_ok {H : Heap} {id path : String} {line : Int} {config : Cfg} {app : AppCfg} {timeUp : Nat → Bool}
    {stack : Stack} {ev : EvalOracle} {s : Frames.Snapshot}
    (h : snapshot H id path line config app timeUp stack ev = .ok s) :
    ∃ cs, Collector.collect H (actionIn config timeUp stack ev) = .ok cs ∧
      s = ⟨tracepointOf id path line config, walk H app stack cs.frames, cs.table, cs.watches⟩ := by
  unfold snapshot at h
  split at h
  · simp at h
  · rename_i cs hcs
    exact ⟨cs, hcs, by simpa using h.symm⟩

theorem collect_frames {H : Heap} {a : ActionIn} {cs : Collector.Snapshot} (h : Collector.collect H a = .ok cs) :
    (collectFrames H a.limits a.frames [] []).failed = none ∧
    cs.frames = (collectFrames H a.limits a.frames [] []).frames := by
  unfold Collector.collect collectFrom at h
  simp only at h
  split at h
  · simp at h
  · rename_i hf
    split at h
    · simp at h
    · simp only [Outcome.ok.injEq] at h
      subst h
      exact ⟨hf, rfl⟩

/-! ### frame_type -/

/-- **frame_type** — frame `idx` gets its variables collected iff (time budget aside) the configured type is
    `all_frame`, or it is not `no_frame` and the frame is the paused one.  An unknown or absent value behaves as
    `single_frame`. -/
theorem c02_frame_type (config : Cfg) (timeUp : Nat → Bool) (idx : Nat) (ht : timeUp idx = false) :
    varsCollected config timeUp idx = true ↔ Spec.collects (Spec.frameTypeOf config) idx := by
  simp only [varsCollected, ht, Bool.not_false, Bool.and_true]
  exact shouldCollect_spec config idx

/-- … and a frame that is not selected carries no variables at all, in every snapshot. -/
theorem c02_unselected_frames_empty (H : Heap) (id path : String) (line : Int) (config : Cfg) (app : AppCfg)
    (timeUp : Nat → Bool) (stack : Stack) (ev : EvalOracle) (s : Frames.Snapshot)
    (h : snapshot H id path line config app timeUp stack ev = .ok s) (i : Nat) (hi : i < stack.length)
    (hn : varsCollected config timeUp i = false) :
    (s.frames[i]?).map (·.variables) = some [] := by
  obtain ⟨cs, hcs, rfl⟩ := snapshot_ok h
  obtain ⟨hf, hfr⟩ := collect_frames hcs
  have hshape := (collectFrames_shape H _ _ [] [] hf).2 i (by
    simp only [actionIn, frameIns, visited_eq, frameInsFrom_get, Nat.zero_add]
    have : stack[i]? = some stack[i] := List.getElem?_eq_getElem hi
    simp [this, hn])
  have := c02_frame_vars H app stack cs.frames i hi
  rw [this, hfr, hshape]
  rfl

example : Spec.collects (Spec.frameTypeOf [("frame_type", .text "weird")]) 0 ∧
    ¬ Spec.collects (Spec.frameTypeOf [("frame_type", .text "weird")]) 1 ∧
    Spec.collects (Spec.frameTypeOf [("frame_type", .text "all_frame")]) 7 ∧
    ¬ Spec.collects (Spec.frameTypeOf [("frame_type", .text "no_frame")]) 0 ∧
    Spec.collects (Spec.frameTypeOf []) 0 := by
  simp [Spec.collects, Spec.frameTypeOf, Spec.textOf]

/-! ### the tracepoint that fired -/

theorem condDel_eq (d : Cfg) (k : String) : (if Cfg.has d k then Cfg.del d k else d) = Cfg.del d k := by
  by_cases h : Cfg.has d k = true
  · simp [h]
  · simp only [h, Bool.false_eq_true, if_false]
    simp only [Cfg.has, List.any_eq_true, not_exists, not_and] at h
    simp only [Cfg.del]
    symm
    apply List.filter_eq_self.mpr
    intro e he
    simpa using h e he

theorem mem_del {d : Cfg} {k : String} {e : String × CfgVal} : e ∈ Cfg.del d k ↔ e ∈ d ∧ e.1 ≠ k := by
  simp [Cfg.del]

theorem find_filter {α : Type} (p q : α → Bool) (l : List α) (h : ∀ x, p x = true → q x = true) :
    List.find? p (List.filter q l) = List.find? p l := by
  induction l with
  | nil => rfl
  | cons a l ih =>
    by_cases hq : q a = true
    · simp only [List.filter_cons, hq, if_true, List.find?_cons, ih]
    · have hp : p a = false := by
        cases hpa : p a with
        | false => rfl
        | true => exact absurd (h a hpa) hq
      simp only [List.filter_cons, hq, Bool.false_eq_true, if_false, List.find?_cons, hp, ih]

theorem get_del_other (d : Cfg) (k k' : String) (hk : k' ≠ k) : Cfg.get (Cfg.del d k) k' = Cfg.get d k' := by
  simp only [Cfg.get, Cfg.del]
  rw [find_filter]
  intro x hx
  simp only [beq_iff_eq] at hx
  simp [hx, hk]

theorem has_del_self (d : Cfg) (k : String) : Cfg.has (Cfg.del d k) k = false := by
  simp [Cfg.has, Cfg.del]

/-- what `LocationAction.tracepoint` keeps of the action config -/
def echoedArgs (config : Cfg) : Cfg :=
  if (Cfg.has (Cfg.del config WATCHES) LOG_MSG && (Cfg.get (Cfg.del config WATCHES) LOG_MSG == CfgVal.null))
  then Cfg.del (Cfg.del config WATCHES) LOG_MSG else Cfg.del config WATCHES

theorem tracepoint_args (id path : String) (line : Int) (config : Cfg) :
    (tracepointOf id path line config).get_args = echoedArgs config := by
  simp only [tracepointOf, TracePointConfig.get_args, echoedArgs]
  rw [condDel_eq]

/-- **tracepoint echo** — the snapshot names the tracepoint: id and path as configured, the line (clamped at 0 for
    function tracepoints, which have line -1), the watches, and as args the action's config without the `watches`
    entry and without a null `log_msg`: nothing invented, order kept, nothing else dropped. -/
theorem c02_tracepoint_echo (id path : String) (line : Int) (config : Cfg) :
    (tracepointOf id path line config).get_id = id ∧ (tracepointOf id path line config).get_path = path ∧
    (tracepointOf id path line config).get_line_no = max line 0 ∧
    (tracepointOf id path line config).get_watches = watchesOf config ∧
    (∀ e ∈ (tracepointOf id path line config).get_args, e ∈ config ∧ e.1 ≠ "watches") ∧
    (tracepointOf id path line config).get_args.Sublist config ∧
    (∀ e ∈ config, e.1 ≠ "watches" → e.1 ≠ "log_msg" → e ∈ (tracepointOf id path line config).get_args) ∧
    (Cfg.get config "log_msg" ≠ .null → ∀ e ∈ config, e.1 ≠ "watches" →
      e ∈ (tracepointOf id path line config).get_args) ∧
    (Cfg.has (tracepointOf id path line config).get_args "log_msg" = true →
      Cfg.get (tracepointOf id path line config).get_args "log_msg" ≠ .null) := by
  rw [tracepoint_args]
  refine ⟨rfl, rfl, ?_, rfl, ?_, ?_, ?_, ?_, ?_⟩
  · simp only [tracepointOf, TracePointConfig.get_line_no]
    by_cases h : line < 0
    · simp [h]; omega
    · simp [h]; omega
  · intro e he
    unfold echoedArgs at he
    split at he
    · have h1 := mem_del.mp he; have h2 := mem_del.mp h1.1
      exact ⟨h2.1, h2.2⟩
    · have h1 := mem_del.mp he
      exact ⟨h1.1, h1.2⟩
  · unfold echoedArgs
    split
    · exact List.Sublist.trans List.filter_sublist List.filter_sublist
    · exact List.filter_sublist
  · intro e he h1 h2
    unfold echoedArgs
    split
    · exact mem_del.mpr ⟨mem_del.mpr ⟨he, h1⟩, h2⟩
    · exact mem_del.mpr ⟨he, h1⟩
  · intro hl e he h1
    unfold echoedArgs
    have hget : Cfg.get (Cfg.del config WATCHES) LOG_MSG = Cfg.get config "log_msg" :=
      get_del_other config "watches" "log_msg" (by decide)
    have : (Cfg.get (Cfg.del config WATCHES) LOG_MSG == CfgVal.null) = false := by
      rw [hget]; simpa using hl
    simp only [this, Bool.and_false, Bool.false_eq_true, if_false]
    exact mem_del.mpr ⟨he, h1⟩
  · intro hhas
    unfold echoedArgs at hhas ⊢
    split at hhas
    · have := has_del_self (Cfg.del config WATCHES) LOG_MSG
      rw [show ("log_msg" : String) = LOG_MSG from rfl, this] at hhas; simp at hhas
    · rename_i hc
      simp only [hc]
      simp only [Bool.and_eq_true, beq_iff_eq, not_and] at hc
      exact hc hhas

/-- **configured args are echoed** — for a tracepoint as the service sends it (`build_snapshot_action`): each of
    the snapshot arguments appears with the configured text (or its documented default), `log_msg` only when one
    was configured, never a `watches` argument, and the watches are the configured watches. -/
theorem c02_echo_configured_args (id path : String) (line : Int) (args : Args) (watches : List String) :
    let t := tracepointOf id path line (snapshotConfig args watches)
    t.get_watches = watches ∧
    Cfg.get t.get_args "frame_type" = Args.getD args "frame_type" (.text "single_frame") ∧
    Cfg.get t.get_args "stack_type" = Args.getD args "stack_type" (.text "stack") ∧
    Cfg.get t.get_args "fire_count" = Args.getD args "fire_count" (.text "1") ∧
    Cfg.get t.get_args "fire_period" = Args.getD args "fire_period" (.text "1000") ∧
    (Cfg.has t.get_args "log_msg" = (args.find? (fun e => e.1 == "log_msg")).isSome) ∧
    (∀ e, args.find? (fun e => e.1 == "log_msg") = some e → Cfg.get t.get_args "log_msg" = .text e.2) ∧
    Cfg.has t.get_args "watches" = false := by
  cases h : args.find? (fun e => e.1 == "log_msg") with
  | none =>
    simp [tracepointOf, snapshotConfig, Cfg.has, Cfg.del, Cfg.get, Cfg.getStrs, Cfg.getD, Args.getD, h,
      TracePointConfig.get_watches, TracePointConfig.get_args, WATCHES, LOG_MSG, FRAME_TYPE, STACK_TYPE, FIRE_COUNT,
      FIRE_PERIOD, SINGLE_FRAME_TYPE, STACK]
  | some e =>
    simp [tracepointOf, snapshotConfig, Cfg.has, Cfg.del, Cfg.get, Cfg.getStrs, Cfg.getD, Args.getD, h,
      TracePointConfig.get_watches, TracePointConfig.get_args, WATCHES, LOG_MSG, FRAME_TYPE, STACK_TYPE, FIRE_COUNT,
      FIRE_PERIOD, SINGLE_FRAME_TYPE, STACK]

/-- the arguments the snapshot action keeps -/
def keptArgs : List String := ["frame_type", "stack_type", "fire_count", "fire_period", "log_msg"]

/-- the full statement for the arguments: every argument the tracepoint was configured with is echoed with its
    configured text.  **Not true of the code** (known finding `C02/echo-drops-condition`), see the witness below. -/
def EchoesAllArgs : Prop :=
  ∀ (id path : String) (line : Int) (args : Args) (watches : List String) (k : String) (e : String × String),
    args.find? (fun x => x.1 == k) = some e →
    Cfg.get (tracepointOf id path line (snapshotConfig args watches)).get_args k = .text e.2

/-- **arguments echoed (partial)** — hypothesis `k ∈ keptArgs`: an argument the snapshot action keeps is echoed
    with its configured text, for every tracepoint. -/
theorem c02_echo_all_args_partial (id path : String) (line : Int) (args : Args) (watches : List String)
    (k : String) (e : String × String) (hk : k ∈ keptArgs) (h : args.find? (fun x => x.1 == k) = some e) :
    Cfg.get (tracepointOf id path line (snapshotConfig args watches)).get_args k = .text e.2 := by
  obtain ⟨_, h1, h2, h3, h4, _, h5, _⟩ := c02_echo_configured_args id path line args watches
  simp only [keptArgs, List.mem_cons, List.not_mem_nil, or_false] at hk
  rcases hk with rfl | rfl | rfl | rfl | rfl
  · rw [h1]; simp [Args.getD, h]
  · rw [h2]; simp [Args.getD, h]
  · rw [h3]; simp [Args.getD, h]
  · rw [h4]; simp [Args.getD, h]
  · exact h5 e h

/-- the hypothesis is needed: a `condition` argument is not echoed (the same input is replayed on the
    implementation as known finding `C02/echo-drops-condition`) -/
theorem c02_echo_drops_condition_witness :
    Cfg.has (tracepointOf "tp" "x.py" 12 (snapshotConfig [("condition", "a > 1")] [])).get_args "condition" = false ∧
    ¬ EchoesAllArgs := by
  refine ⟨by decide, fun h => ?_⟩
  have := h "tp" "x.py" 12 [("condition", "a > 1")] [] "condition" ("condition", "a > 1") (by decide)
  revert this
  decide

/-- … and a function-entry tracepoint (location line -1) is echoed with line 0, whatever line it was configured at -/
theorem c02_echo_function_line_witness :
    (tracepointOf "tp" "x.py" (-1) (snapshotConfig [("method_name", "f")] [])).get_line_no = 0 ∧
    Cfg.has (tracepointOf "tp" "x.py" (-1) (snapshotConfig [("method_name", "f")] [])).get_args "method_name" = false := by
  decide

/-- the snapshot of the model carries that echo -/
theorem c02_snapshot_names_tracepoint (H : Heap) (id path : String) (line : Int) (config : Cfg) (app : AppCfg)
    (timeUp : Nat → Bool) (stack : Stack) (ev : EvalOracle) (s : Frames.Snapshot)
    (h : snapshot H id path line config app timeUp stack ev = .ok s) :
    s.tracepoint = tracepointOf id path line config := by
  obtain ⟨cs, _, rfl⟩ := snapshot_ok h; rfl

/-! ### variables -/

/-- **entry faithful** — every entry of every snapshot (frame variables, their children, watch values; budget cut
    or not) describes its object: the real type name, the value rendered per the statement (`Spec.render`: element
    count for containers, fixed text for list iterators, `str` otherwise) cut to the string limit, and
    `truncated` iff the text was longer than the limit. -/
theorem c02_entry_faithful (H : Heap) (id path : String) (line : Int) (config : Cfg) (app : AppCfg)
    (timeUp : Nat → Bool) (stack : Stack) (ev : EvalOracle) (s : Frames.Snapshot)
    (h : snapshot H id path line config app timeUp stack ev = .ok s) :
    ∀ e ∈ s.table,
      e.ty = (H.obj e.obj).tyName ∧
      e.value = String.ofList ((Spec.render (H.obj e.obj)).toList.take (limitsOf config).maxStr) ∧
      (e.truncated = true ↔ (limitsOf config).maxStr < (Spec.render (H.obj e.obj)).length) := by
  obtain ⟨cs, hcs, rfl⟩ := snapshot_ok h
  intro e he
  obtain ⟨text, h1, h2, h3, h4⟩ := collect_ok hcs e he
  have := renderText_spec _ _ h1
  subst this
  refine ⟨h2, ?_, ?_⟩
  · rw [h3]; simp [truncateString, Py.sliceTo, actionIn]
  · rw [h4]; simp [truncateString, Py.len, actionIn]

/-- **children faithful** — in every snapshot every entry lists, in order, a prefix of the children the statement
    gives its object (`Spec.kidsAt`: dict items by key, sequence elements / exception args by index up to the
    collection limit, attributes by name with private names de-mangled; none for scalars or at the depth limit):
    displayed name, original name and referenced object agree; modifiers follow the displayed name. -/
theorem c02_children_prefix (H : Heap) (id path : String) (line : Int) (config : Cfg) (app : AppCfg)
    (timeUp : Nat → Bool) (stack : Stack) (ev : EvalOracle) (s : Frames.Snapshot)
    (h : snapshot H id path line config app timeUp stack ev = .ok s) :
    ∀ e ∈ s.table, e.children.map refKid <+: Spec.kidsAt (limitsOf config) (H.obj e.obj) e.depth := by
  obtain ⟨cs, hcs, rfl⟩ := snapshot_ok h
  intro e he
  obtain ⟨cs', lost, h1, h2, _⟩ := collect_kids hcs e he
  have h1' : childNodes (limitsOf config) e.vid (H.obj e.obj) e.depth = .ok cs' := h1
  rw [← (childNodes_spec _ _ _ _ _ h1').1, ← h2]
  simp [pending]

/-- tripwire: `Spec.modifiers` is the extracted `var_modifiers` (private for `__x`, protected for `_x`); the statement
    does not speak about modifiers, so this only pins the convention -/
theorem c02_modifiers (n : Node) (id : Nat) : (mkRef n id).mods = Spec.modifiers n.name := rfl

/-- tripwire: what goes into a `Variable` / `VariableId` in `process_variable`, and that the getters the snapshot is read
    through return those constructor arguments (checked against the source text on every run) -/
theorem c02_variable_sources :
    variableTypeSource = "type(node.value)" ∧
    variableSources.lookup "var_type" = some "str(variable_type.__name__)" ∧
    variableSources.lookup "value" = some
      "truncate_string(variable_to_string(variable_type, node.value), var_collector.max_string_length)[0]" ∧
    variableSources.lookup "truncated" = some
      "truncate_string(variable_to_string(variable_type, node.value), var_collector.max_string_length)[1]" ∧
    variableIdSources = [("vid", "var_collector.new_var_id(identity_hash_id)"), ("name", "node.name"),
      ("modifiers", "var_modifiers(node.name)"), ("original_name", "node.original_name")] ∧
    variableGetters = [("type", "var_type"), ("value", "value"), ("children", "children"),
      ("truncated", "truncated")] ∧
    variableIdGetters = [("vid", "vid"), ("name", "name"), ("modifiers", "modifiers"),
      ("original_name", "original_name")] ∧
    stackFrameGetters = [("file_name", "file_name"), ("short_path", "short_path"), ("method_name", "method_name"),
      ("line_number", "line_number"), ("variables", "variables"), ("class_name", "class_name"),
      ("app_frame", "app_frame")] := by decide

/-- convention of the code, not of the statement: only an exact `dict` and types *named* list / tuple / set /
    frozenset are rendered as an element count; any other object — a `dict` or `list` subclass included — is
    rendered by `str` -/
theorem c02_dict_subclass_rendering (o : PyObj) (h1 : o.isDictExact = false) (h2 : Spec.isSeq o = false)
    (h3 : Spec.isIterator o = false) : Spec.render o = o.str.getD o.placeholder := by
  simp [Spec.render, Spec.isContainer, h1, h2, h3]

/-- convention of the code: a container whose `len` raises is rendered by `str` -/
theorem c02_len_failure_rendering (o : PyObj) (m : String) (h1 : Spec.isContainer o = true)
    (h3 : Spec.isIterator o = false) (hl : o.len = .raises m) : Spec.render o = o.str.getD o.placeholder := by
  simp [Spec.render, h1, h3, hl]

/-- the statement's case: a container whose element count can be taken shows that count -/
theorem c02_container_rendering (o : PyObj) (n : Nat) (h1 : Spec.isContainer o = true)
    (h3 : Spec.isIterator o = false) (hl : o.len = .ok n) : Spec.render o = "Size: " ++ toString n := by
  simp [Spec.render, h1, h3, hl]

/-! ### the paused frame's locals, when the search runs to its end -/

/-- the model's frame 0 result is the unwrapped entry of the locals dict of the search `search0` -/
theorem frame0_vars (H : Heap) (id path : String) (line : Int) (config : Cfg) (app : AppCfg)
    (timeUp : Nat → Bool) (fr : RawFrame) (rest : Stack) (ev : EvalOracle) (s : Frames.Snapshot)
    (h : snapshot H id path line config app timeUp (fr :: rest) ev = .ok s)
    (hc : varsCollected config timeUp 0 = true) :
    (s.frames.head?).map (·.variables) =
      some (unwrap (search0 H (limitsOf config) fr.locals).table
        (lookupId (search0 H (limitsOf config) fr.locals).cache fr.locals)).1 := by
  obtain ⟨cs, hcs, rfl⟩ := snapshot_ok h
  obtain ⟨hf, hfr⟩ := collect_frames hcs
  simp only [walk, visited_eq, walkFrom, List.head?_cons, Option.map_some, frameRecord, processFrame]
  congr 1
  rw [hfr]
  simp only [actionIn, frameIns, visited_eq, frameInsFrom, hc] at hf ⊢
  unfold collectFrames at hf ⊢
  simp only [Bool.not_true, Bool.false_eq_true, if_false] at hf ⊢
  have hpv : processVariable H (limitsOf config) [] [] localsName fr.locals =
      ⟨(search0 H (limitsOf config) fr.locals).cache, (search0 H (limitsOf config) fr.locals).table,
       lookupId (search0 H (limitsOf config) fr.locals).cache fr.locals,
       (search0 H (limitsOf config) fr.locals).failed⟩ := by
    simp [processVariable, lookupId, search0]
  rw [hpv] at hf ⊢
  dsimp only at hf ⊢
  split
  · rename_i m hm; simp [hm] at hf
  · simp

/-- **top frame variables exact** — if the paused frame is selected and the search of its locals runs to its end,
    the frame's variables are exactly the children the statement gives the locals dict at depth 0 — for a real
    frame (an exact `dict`, depth limit > 1): one variable per local, in `f_locals` order, named by the local's
    name, referring to the local's object — and every one of them resolves to an entry recorded for that very
    object (which by `c02_entry_faithful` describes it). -/
theorem c02_top_vars_exact (H : Heap) (id path : String) (line : Int) (config : Cfg) (app : AppCfg)
    (timeUp : Nat → Bool) (fr : RawFrame) (rest : Stack) (ev : EvalOracle) (s : Frames.Snapshot)
    (h : snapshot H id path line config app timeUp (fr :: rest) ev = .ok s)
    (hc : varsCollected config timeUp 0 = true) (hn : NoCut0 H (limitsOf config) fr.locals) :
    ∃ f0, s.frames.head? = some f0 ∧
      f0.variables.map refKid = Spec.kidsAt (limitsOf config) (H.obj fr.locals) 0 ∧
      (∀ v ∈ f0.variables, ∃ e ∈ (search0 H (limitsOf config) fr.locals).table, e.vid = v.vid ∧ e.obj = v.obj ∧
        EntryOK H (limitsOf config) e) := by
  have h0 := frame0_vars H id path line config app timeUp fr rest ev s h hc
  obtain ⟨v, e1, hl, hfe, he1, hv, ho, hd⟩ := search0_locals hn
  cases hh : s.frames.head? with
  | none => simp [hh] at h0
  | some f0 =>
    simp only [hh, Option.map_some, Option.some.injEq, hl, unwrap, hfe] at h0
    refine ⟨f0, rfl, ?_, ?_⟩
    · rw [h0, search0_exact hn e1 he1, ho, hd]
    · intro c hc'
      rw [h0] at hc'
      obtain ⟨e', he', h1, h2⟩ := search0_closed hn e1 he1 c hc'
      refine ⟨e', he', h1, h2, ?_⟩
      exact run_ok _ _ (by rw [bfsInit_table]; intro e he; simp at he) e' he'

theorem collect_table {H : Heap} {a : ActionIn} {cs : Collector.Snapshot} (h : Collector.collect H a = .ok cs) :
    cs.table = (collectWatches H a.limits a.watches (collectFrames H a.limits a.frames [] []).cache
      (collectFrames H a.limits a.frames [] []).table).table := by
  unfold Collector.collect collectFrom at h
  simp only at h
  split at h
  · simp at h
  · split at h
    · simp at h
    · simp only [Outcome.ok.injEq] at h
      subst h
      rfl

theorem collectFrames_skip (H : Heap) (L : Limits) (fs : List FrameIn) (c : Cache) (t : List Entry)
    (h : ∀ f ∈ fs, f.collect = false) :
    (collectFrames H L fs c t).table = t ∧ (collectFrames H L fs c t).cache = c := by
  induction fs with
  | nil => simp [collectFrames]
  | cons f fs ih =>
    unfold collectFrames
    have hf := h f (List.mem_cons_self ..)
    simp only [hf, Bool.not_false, if_true]
    exact ih (fun g hg => h g (List.mem_cons_of_mem _ hg))

theorem collectWatches_super (H : Heap) (L : Limits) (ws : List WatchIn) (c : Cache) (t : List Entry) :
    ∀ e ∈ t, e ∈ (collectWatches H L ws c t).table := by
  induction ws generalizing c t with
  | nil => intro e he; exact he
  | cons w ws ih =>
    intro e he
    unfold collectWatches
    dsimp only
    split
    · split
      · exact he
      · split
        · exact ih _ _ e he
        · exact ih _ _ e (List.mem_append_left _ he)
    · split
      · exact ih _ _ e he
      · split
        · exact ih _ _ e he
        · exact ih _ _ e (List.mem_append_left _ he)

theorem frameInsFrom_uncollected (config : Cfg) (timeUp : Nat → Bool) (k : Nat) (stack : Stack)
    (h : ∀ i, k ≤ i → varsCollected config timeUp i = false) :
    ∀ f ∈ frameInsFrom config timeUp k stack, f.collect = false := by
  induction stack generalizing k with
  | nil => simp [frameInsFrom]
  | cons fr rest ih =>
    intro f hf
    simp only [frameInsFrom, List.mem_cons] at hf
    rcases hf with rfl | hf
    · exact h k (Nat.le_refl _)
    · exact ih (k + 1) (fun i hi => h i (by omega)) f hf

/-- **top frame variables, delivered** — when only the paused frame is selected (frame_type single_frame, unknown
    or absent) and its search runs to its end, every variable of the top frame (other than a reference to the
    locals dict itself) resolves, in the table of the finished snapshot, to an entry recorded for the local's own
    object — which `c02_entry_faithful` shows to carry that object's type name and rendered value. -/
theorem c02_top_vars_delivered (H : Heap) (id path : String) (line : Int) (config : Cfg) (app : AppCfg)
    (timeUp : Nat → Bool) (fr : RawFrame) (rest : Stack) (ev : EvalOracle) (s : Frames.Snapshot)
    (h : snapshot H id path line config app timeUp (fr :: rest) ev = .ok s)
    (hc : varsCollected config timeUp 0 = true) (hn : NoCut0 H (limitsOf config) fr.locals)
    (hsingle : ∀ i, 1 ≤ i → varsCollected config timeUp i = false) :
    ∃ f0, s.frames.head? = some f0 ∧ ∀ v ∈ f0.variables, v.obj ≠ fr.locals →
      ∃ e ∈ s.table, e.vid = v.vid ∧ e.obj = v.obj := by
  obtain ⟨f0, hf0, _, hres⟩ := c02_top_vars_exact H id path line config app timeUp fr rest ev s h hc hn
  refine ⟨f0, hf0, ?_⟩
  intro v hv hne
  obtain ⟨e, he, h1, h2, _⟩ := hres v hv
  obtain ⟨cs, hcs, rfl⟩ := snapshot_ok h
  obtain ⟨vl, e1, hl, hfe, he1, hv1, ho1, _⟩ := search0_locals hn
  have hfail := (collect_frames hcs).1
  suffices hmem : e ∈ cs.table from ⟨e, hmem, h1, h2⟩
  rw [collect_table hcs]
  apply collectWatches_super
  -- the table after the frames = the unwrapped table of the search of frame 0
  simp only [actionIn, frameIns, visited_eq, frameInsFrom, hc] at hfail ⊢
  unfold collectFrames at hfail ⊢
  simp only [Bool.not_true, Bool.false_eq_true, if_false] at hfail ⊢
  have hpv : processVariable H (limitsOf config) [] [] localsName fr.locals =
      ⟨(search0 H (limitsOf config) fr.locals).cache, (search0 H (limitsOf config) fr.locals).table,
       lookupId (search0 H (limitsOf config) fr.locals).cache fr.locals,
       (search0 H (limitsOf config) fr.locals).failed⟩ := by
    simp [processVariable, lookupId, search0]
  rw [hpv] at hfail ⊢
  dsimp only at hfail ⊢
  simp only [hn.2.2]
  have hskip := collectFrames_skip H (limitsOf config) (frameInsFrom config timeUp (0 + 1) rest)
    (search0 H (limitsOf config) fr.locals).cache
    (unwrap (search0 H (limitsOf config) fr.locals).table
      (lookupId (search0 H (limitsOf config) fr.locals).cache fr.locals)).2
    (frameInsFrom_uncollected config timeUp 1 rest hsingle)
  rw [hskip.1]
  simp only [hl, unwrap, hfe, removeEntry]
  refine List.mem_filter.mpr ⟨he, ?_⟩
  simp only [decide_eq_true_eq]
  intro hvid
  have : e = e1 := search0_inj e he e1 he1 (by rw [hvid, hv1])
  rw [this, ho1] at h2
  exact hne h2.symm

/-- for a real frame the statement's children of the locals dict are its items: names = local names, in order -/
theorem c02_locals_are_items (L : Limits) (o : PyObj) (hd : o.isDictExact = true) (ht : o.tyName = "dict")
    (hdepth : 1 < L.maxDepth) :
    Spec.kidsAt L o 0 = o.dictItems.map (fun kv => ⟨kv.1.text, none, kv.2⟩) := by
  simp [Spec.kidsAt, Spec.kids, hdepth, hd, Spec.isScalar, Spec.isIterator, ht]

/-- a table describes the heap from a root: the root has an entry, every entry is faithful, lists exactly the
    children of its kind and every child reference resolves to the entry of the child object -/
def Describes (H : Heap) (L : Limits) (t : List Entry) (root : ObjId) : Prop :=
  (∃ e ∈ t, e.obj = root ∧ e.depth = 0) ∧
  (∀ a ∈ t, ∀ b ∈ t, a.vid = b.vid → a = b) ∧
  ∀ e ∈ t, EntryOK H L e ∧ e.children.map refKid = Spec.kidsAt L (H.obj e.obj) e.depth ∧
    ∀ c ∈ e.children, ∃ e' ∈ t, e'.vid = c.vid ∧ e'.obj = c.obj

/-- **complete** — when the search of the paused frame's locals runs to its end, its table is a complete and
    exact description of what is reachable from the locals within the limits. -/
theorem c02_complete (H : Heap) (L : Limits) (l0 : ObjId) (hn : NoCut0 H L l0) :
    Describes H L (search0 H L l0).table l0 := by
  obtain ⟨v, e1, _, _, he1, _, ho, hd⟩ := search0_locals hn
  refine ⟨⟨e1, he1, ho, hd⟩, search0_inj, fun e he => ⟨?_, search0_exact hn e he, search0_closed hn e he⟩⟩
  exact run_ok _ _ (by rw [bfsInit_table]; intro e he; simp at he) e he

/-- objects reachable from the root through the statement's child relation, following the recorded depths -/
inductive Reach (H : Heap) (L : Limits) (t : List Entry) (root : ObjId) : ObjId → Prop
  | root : Reach H L t root root
  | kid {p : ObjId} {e : Entry} {k : Spec.Kid} : Reach H L t root p → e ∈ t → e.obj = p →
      k ∈ Spec.kidsAt L (H.obj p) e.depth → Reach H L t root k.obj

/-- … so everything reachable from the locals within the limits has a faithful entry. -/
theorem c02_reachable_described (H : Heap) (L : Limits) (t : List Entry) (root : ObjId)
    (hd : Describes H L t root) (o : ObjId) (hr : Reach H L t root o) : ∃ e ∈ t, e.obj = o ∧ EntryOK H L e := by
  induction hr with
  | root => obtain ⟨e, he, ho, _⟩ := hd.1; exact ⟨e, he, ho, (hd.2.2 e he).1⟩
  | @kid p e k _ he ho hk _ =>
    obtain ⟨_, hex, hcl⟩ := hd.2.2 e he
    rw [← ho, ← hex] at hk
    obtain ⟨c, hc, rfl⟩ := List.mem_map.mp hk
    obtain ⟨e', he', _, h2⟩ := hcl c hc
    exact ⟨e', he', by simpa [refKid] using h2, (hd.2.2 e' he').1⟩

/-! ### watches -/

/-- **watches, same frame** — the content is the first two conjuncts (tripwires on regenerated constants): the
    expression is evaluated with the locals AND the globals of the paused frame itself (`f_back` steps = 0; `some 0`
    = the globals are those of a frame at all).  The third conjunct is congruence — `snapshot` reads the eval
    oracle at `evalLocalsHops` only — stated so that "depends on frame 0 only" is on record for the model the
    correspondence run executes (the harness hands it the values of each expression in frames 0 and 1). -/
theorem c02_watches_same_frame :
    evalLocalsHops = 0 ∧ evalGlobalsHops = some 0 ∧
    ∀ (H : Heap) (id path : String) (line : Int) (config : Cfg) (app : AppCfg) (timeUp : Nat → Bool)
      (stack : Stack) (ev₁ ev₂ : EvalOracle), (∀ w, ev₁ 0 w = ev₂ 0 w) →
      snapshot H id path line config app timeUp stack ev₁ = snapshot H id path line config app timeUp stack ev₂ := by
  refine ⟨by decide, by decide, ?_⟩
  intro H id path line config app timeUp stack ev₁ ev₂ hev
  have : watchIns config ev₁ = watchIns config ev₂ := by
    simp only [watchIns, evalLocalsHops]
    apply List.map_congr_left
    intro w _
    rw [hev w]
  simp only [snapshot, actionIn, this]

/-- tripwire: restates `watchIns` with `evalLocalsHops` unfolded: one watch input per configured expression, in the
    configured order, its value the object the expression evaluates to in frame 0 -/
theorem c02_watch_inputs (config : Cfg) (ev : EvalOracle) :
    watchIns config ev = (watchesOf config).map (fun w => ⟨.watch, w, ev 0 w⟩) := by
  simp [watchIns, evalLocalsHops]

/-! ### non-vacuity: a concrete frame -/

/-- heap: 0 = locals dict {a: 1→, xs: 2→}, 1 = int 5, 2 = list [1→, 3→], 3 = str "hi" -/
def exHeap : Heap := ⟨[
  { tyName := "dict", tyRepr := "<class 'dict'>", isDictExact := true, str := some "{...}", placeholder := "",
    len := .ok 2, dictItems := [(⟨"a", true⟩, 1), (⟨"xs", true⟩, 2)], seq := .raises "", isExc := .ok false,
    excArgs := .raises "", hasDict := .ok false, attrs := .raises "" },
  { tyName := "int", tyRepr := "<class 'int'>", isDictExact := false, str := some "5", placeholder := "",
    len := .raises "", dictItems := [], seq := .raises "", isExc := .ok false, excArgs := .raises "",
    hasDict := .ok false, attrs := .raises "" },
  { tyName := "list", tyRepr := "<class 'list'>", isDictExact := false, str := some "[5, 'hi']", placeholder := "",
    len := .ok 2, dictItems := [], seq := .ok [1, 3], isExc := .ok false, excArgs := .raises "",
    hasDict := .ok false, attrs := .raises "" },
  { tyName := "str", tyRepr := "<class 'str'>", isDictExact := false, str := some "hi", placeholder := "",
    len := .ok 2, dictItems := [], seq := .raises "", isExc := .ok false, excArgs := .raises "",
    hasDict := .ok false, attrs := .raises "" }]⟩

def exLimits : Limits := ⟨10, 1024, 10, 5⟩

set_option maxRecDepth 8000 in
example : NoCut0 exHeap exLimits 0 := by decide

set_option maxRecDepth 8000 in
example : ((search0 exHeap exLimits 0).table.map (fun e => (e.vid, e.ty, e.value))) =
    [(1, "dict", "Size: 2"), (2, "int", "5"), (3, "list", "Size: 2"), (4, "str", "hi")] := by decide

/-- a whole snapshot of that heap: frame `f` at /app/x.py:3 (no `self`), app root /app, watch `a` evaluating to the
    int local: the collection succeeds, the frame is described per the statement, its variables are the two locals,
    the locals pseudo-entry is gone from the table, the watch refers to the entry of the local it names -/
def exConfig : Cfg := [("watches", .strs ["a"]), ("frame_type", .text "single_frame"), ("MAX_VARIABLES", .num 10)]

def exStack : Stack := [⟨"/app/x.py", "f", 3, 0, []⟩, ⟨"/lib/y.py", "run", 9, 9, [("self", some "Runner")]⟩]

def exSnap : Option Frames.Snapshot :=
  match snapshot exHeap "tp" "x.py" 3 exConfig ⟨"/app", [], []⟩ (fun _ => false) exStack (fun _ _ => 1) with
  | .ok s => some s
  | .error _ => none

set_option maxRecDepth 8000 in
example : exSnap.isSome = true := by decide

set_option maxRecDepth 8000 in
example : exSnap.map (fun s => s.frames.map Spec.viewOf) =
    some [⟨"/app/x.py", "/x.py", "f", 3, none, true⟩, ⟨"/lib/y.py", "/lib/y.py", "run", 9, some "Runner", false⟩] := by
  decide

set_option maxRecDepth 8000 in
example : exSnap.map (fun s => s.frames.map (fun f => f.variables.map (·.name))) = some [["a", "xs"], []] := by
  decide

set_option maxRecDepth 8000 in
example : exSnap.map (fun s => s.table.map (·.vid)) = some [2, 3, 4] := by decide

set_option maxRecDepth 8000 in
example : exSnap.map (fun s => s.watches.map (fun w => (w.expr, w.vid, w.error))) = some [("a", some 2, none)] := by
  decide

set_option maxRecDepth 8000 in
example : exSnap.map (fun s => s.tracepoint.get_args.map (·.1)) = some ["frame_type", "MAX_VARIABLES"] := by decide

/-! ### the time budget (the oracle bit `timeUp` of the theorems above, instantiated by a scripted clock) -/

/-- what `should_collect_vars` says for the frames of a stack of depth `n` -/
def selections (config : Cfg) (n : Nat) : List Bool := (List.range n).map (fun (j : Nat) => shouldCollectVars config (j : Int))

/-- `timeUp` as the frame collector computes it from its clock (`CollectorTime.decisions`: the regenerated
    `__time_exceeded` and guard of `_process_frame`) -/
def timeUpOf (ck : CollectorTime.Clock) (config : Cfg) (n : Nat) : Nat → Bool :=
  fun i => !((CollectorTime.decisions ck (selections config n))[i]?.getD false)

/-- corollary (of `c02_frames`, `c02_unselected_frames_empty` and the refinement `CollectorTime.decisionsFrom_spec` behind
    `C05.c05_time_exact`; int budgets within `C05.BudgetInRange` are where the clock model is the code) — **frames reached
    after the time budget**: for every scripted clock, stack, heap and configuration the snapshot still lists EVERY frame of
    the real stack, in order, with file / function / line / class of self / app flag / short path intact (that half holds
    whatever the budget did), and a frame that `CollectorTime.Spec.collects` rejects (not selected by the frame type, or
    reached after a reading more than `maxMs` ms past the trigger's time stamp) carries no variables.  `ck.maxMs` is free
    here (not read from `config`). -/
theorem c02_frames_after_budget (H : Heap) (id path : String) (line : Int) (config : Cfg) (app : AppCfg)
    (ck : CollectorTime.Clock) (stack : Stack) (ev : EvalOracle) (s : Frames.Snapshot)
    (h : snapshot H id path line config app (timeUpOf ck config stack.length) stack ev = .ok s) :
    s.frames.map Spec.viewOf = stack.map (Spec.frameView H app) ∧
    ∀ i, i < stack.length → CollectorTime.Spec.collects ck (selections config stack.length) i = false →
      (s.frames[i]?).map (·.variables) = some [] := by
  constructor
  · obtain ⟨cs, _, rfl⟩ := snapshot_ok h
    exact c02_frames H app stack cs.frames
  · intro i hi hc
    apply c02_unselected_frames_empty H id path line config app _ stack ev s h i hi
    have hlen : i < (selections config stack.length).length := by simpa [selections] using hi
    have hd : (CollectorTime.decisions ck (selections config stack.length))[i]? = some false := by
      have := CollectorTime.decisionsFrom_spec ck (selections config stack.length) 0 i hlen
      unfold CollectorTime.decisions
      rw [CollectorTime.initial_flag, this]
      simpa [CollectorTime.Spec.collects] using hc
    simp only [varsCollected, timeUpOf, hd, Option.getD_some, Bool.not_false, Bool.not_true, Bool.and_false]

/-- non-vacuity: all_frame, three frames, the second reading is 1 ns over a 100 ms budget: frames 1 and 2 are rejected -/
example : let ck : CollectorTime.Clock := ⟨1, 100, fun k => [5, 100000002, 0].getD k 0⟩
    (List.range 3).map (CollectorTime.Spec.collects ck (selections [("frame_type", .text "all_frame")] 3)) =
      [true, false, false] := by decide

set_option maxRecDepth 200000
/-- non-vacuity on a whole `snapshot`: `z = [[1,2,3],[4,5,6],[7,8,9]]; y = 7` paused in `f`, called from a frame with the same
    locals, all_frame, second reading 1 ns over 100 ms: both frames listed, the first with its 2 locals, the second empty -/
example : (match snapshot Collector.Ex.nested "tp" "/app/m.py" 3 [("frame_type", .text "all_frame")] ⟨"/app", [], []⟩
      (timeUpOf ⟨1, 100, fun k => [5, 100000002].getD k 0⟩ [("frame_type", .text "all_frame")] 2)
      [⟨"/app/m.py", "f", 3, 0, []⟩, ⟨"/app/m.py", "g", 9, 0, []⟩] (fun _ _ => 0) with
    | .ok s => s.frames.map (fun f => (f.method_name, f.variables.length))
    | .error _ => []) = [("f", 2), ("g", 0)] := by decide

end C02
