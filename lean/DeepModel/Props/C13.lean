/-
  C13 — Registering a tracepoint in code returns a handle that removes exactly it.

  Every theorem is about `Extracted.ConfigSvc.addCustom / removeCustom / triggerUpdate` — the text of
  `TracepointConfigService.add_custom / remove_custom / __trigger_update` as they are in /repo *now* — composed by
  `ConfigSvc.step` (Model/ConfigSvc.lean).  `regs s` pairs the parallel lists `_custom_ids` / `_custom`.

  Quantifiers: every state with well-formed registration lists (`Wf`: same length, handles issued before
  `nextHandle`, pairwise distinct — proved for every reachable state, `c13_wf_reachable`), every handle, every
  tracepoint, every op sequence (register / unregister / poll responses / apply tasks in any order).  No bound.
  Handles are fresh naturals standing for uuid4 texts (uniqueness of uuid4 is assumed).

  Atomicity (disclosed): register / unregister are atomic steps — the statement quantifies over SEQUENCES of calls.
  Two application threads inside add_custom / remove_custom at once can misalign the two parallel lists (a handle then
  removes another registration): outside the statement, observed on the real code with a forced line gate (the check
  runs those cases under the label 'outside-statement' and does not judge them).  A poll answer concurrent with a
  register / unregister is covered: it touches disjoint fields (`c13_service_disjoint`) and is exercised by the
  line-preemption stream.
-/
import DeepModel.Proofs.ConfigSvc

namespace C13
open ConfigSvc Extracted.ConfigSvc

/-- every state the agent can reach keeps its two registration lists parallel, with distinct handles -/
theorem c13_wf_reachable (ops : List Op) : Wf (run ops).svc := (rel_run ops).wf

/-- **register** — the registration is appended under a handle no live registration has; the service's own
    configuration and hash are untouched (alongside, not instead of), and an update of the handler is queued. -/
theorem c13_register_adds (locked : Bool) (s : St) (t : Trig) (w : Wf s.svc) :
    regs (step locked s (.register t)) = regs s ++ [(registerHandle s (some t), t)] ∧
    (∀ p ∈ regs s, p.1 ≠ registerHandle s (some t)) ∧
    (step locked s (.register t)).svc.polled = s.svc.polled ∧
    (step locked s (.register t)).svc.hash = s.svc.hash ∧
    (step locked s (.register t)).svc.queued = s.svc.queued ++ [⟨s.svc.polled⟩] := by
  refine ⟨zip_addCustom s.svc t w, ?_, rfl, rfl, rfl⟩
  intro p hp
  have h1 : p.1 ∈ s.svc.customIds := (List.of_mem_zip (a := p.1) (b := p.2) (by simpa [regs] using hp)).1
  have := w.fresh _ h1
  exact Nat.ne_of_lt this

/-- a registration `build_trigger` cannot interpret uses up a handle and nothing else: no list changes, nothing is
    queued, and its handle unregisters nothing -/
theorem c13_register_uninterpretable (locked : Bool) (s : St) (w : Wf s.svc) :
    step locked s .registerBad = { s with svc := { s.svc with nextHandle := s.svc.nextHandle + 1 } } ∧
    step locked (step locked s .registerBad) (.unregister (registerHandle s none)) = step locked s .registerBad := by
  refine ⟨rfl, ?_⟩
  show { (step locked s .registerBad) with svc := removeCustom (step locked s .registerBad).svc s.svc.nextHandle } = _
  have hn : s.svc.nextHandle ∉ (step locked s .registerBad).svc.customIds := by
    intro hm
    exact Nat.lt_irrefl _ (w.fresh _ hm)
  rw [removeCustom_none _ _ (findIdx_none_of_not_mem _ _ hn)]

/-- **register, settled** — for every op sequence, once nothing is in flight what the handler acts on is exactly the
    latest service configuration followed by the live registrations, in registration order: every live registration
    is active, next to (not instead of) the service's tracepoints, and nothing else is. -/
theorem c13_register_active (ops : List Op) (hq : quiescent (run ops) = true) :
    (run ops).h.installed = (refRun ops).config ++ (refRun ops).live.map (·.2) := by
  have r := rel_run ops
  simp only [quiescent, Bool.and_eq_true, List.isEmpty_iff] at hq
  have hi : (run ops).h.installed = (run ops).svc.polled ++ (run ops).svc.custom := by
    rcases r.settled.2 with h | h | ⟨l, v, h, _⟩ | ⟨l, h⟩ | h
    · exact absurd hq.1.1 h
    · exact absurd hq.1.2 h
    · rw [hq.2] at h; simp at h
    · rw [hq.2] at h; simp at h
    · exact h.2
  rw [hi, r.polled, ← r.live]
  show _ = _ ++ ((run ops).svc.customIds.zip (run ops).svc.custom).map (·.2)
  rw [map_snd_regs _ r.wf]

/-- **unregister is exact** — the live registrations lose the pair `(h, t)` and nothing else (list refinement to
    `List.erase`), and as a multiset the registered tracepoints lose exactly one copy of `t`. -/
theorem c13_unregister_exact (locked : Bool) (s : St) (w : Wf s.svc) (h : Handle) (t : Trig)
    (hm : (h, t) ∈ regs s) :
    regs (step locked s (.unregister h)) = (regs s).erase (h, t) ∧
    (∀ x, s.svc.custom.count x = (step locked s (.unregister h)).svc.custom.count x + (if t = x then 1 else 0)) := by
  have hz : regs (step locked s (.unregister h)) = (regs s).filter (fun p => p.1 != h) :=
    zip_removeCustom s.svc h w
  have he : regs (step locked s (.unregister h)) = (regs s).erase (h, t) := by
    rw [hz]
    exact filter_eq_erase _ h t (by rw [regs, map_fst_regs _ w]; exact w.nodup) hm
  refine ⟨he, ?_⟩
  intro x
  have w' : Wf (step locked s (.unregister h)).svc := wf_removeCustom s.svc h w
  have p := (List.perm_cons_erase hm).map (·.2)
  rw [← he] at p
  have c := p.count_eq x
  simp only [List.map_cons, List.count_cons] at c
  have e1 : (regs s).map (·.2) = s.svc.custom := map_snd_regs _ w
  have e2 : (regs (step locked s (.unregister h))).map (·.2) = (step locked s (.unregister h)).svc.custom :=
    map_snd_regs _ w'
  rw [e1, e2] at c
  rw [c]
  by_cases hx : t = x <;> simp [hx]

/-- **only that one** — every other registration survives, whatever its tracepoint is: it may share file and
    line with the removed one, or be equal to it in every respect. The survivors keep their order. -/
theorem c13_others_untouched (locked : Bool) (s : St) (w : Wf s.svc) (h h' : Handle) (t' : Trig)
    (hm : (h', t') ∈ regs s) (hne : h' ≠ h) :
    (h', t') ∈ regs (step locked s (.unregister h)) ∧
    (regs (step locked s (.unregister h))).Sublist (regs s) := by
  have hz : regs (step locked s (.unregister h)) = (regs s).filter (fun p => p.1 != h) :=
    zip_removeCustom s.svc h w
  rw [hz]
  exact ⟨List.mem_filter.mpr ⟨hm, by simpa using hne⟩, List.filter_sublist⟩

/-- **twice is harmless** — the second unregister of a handle changes nothing at all (no list, no queued task). -/
theorem c13_idempotent (locked : Bool) (s : St) (w : Wf s.svc) (h : Handle) :
    step locked (step locked s (.unregister h)) (.unregister h) = step locked s (.unregister h) := by
  have hn := not_mem_removeCustom s.svc h w
  show { (step locked s (.unregister h)) with svc := removeCustom (removeCustom s.svc h) h } = _
  rw [removeCustom_none _ h (findIdx_none_of_not_mem _ _ hn)]
  rfl

/-- a handle that was never issued (or already removed) removes nothing -/
theorem c13_unknown_handle (locked : Bool) (s : St) (h : Handle) (hn : h ∉ s.svc.customIds) :
    step locked s (.unregister h) = s := by
  show { s with svc := removeCustom s.svc h } = s
  rw [removeCustom_none _ h (findIdx_none_of_not_mem _ _ hn)]

/-- **service and code registrations are disjoint** — no poll response, failed poll, apply task or timer event
    touches the registrations; register / unregister never touch the hash, the polled
    configuration, what is installed, or the values tasks hold. -/
theorem c13_service_disjoint (locked : Bool) (s : St) (op : Op)
    (hop : (∀ t, op ≠ .register t) ∧ op ≠ .registerBad ∧ (∀ h, op ≠ .unregister h)) :
    regs (step locked s op) = regs s ∧ (step locked s op).svc.nextHandle = s.svc.nextHandle := by
  cases op with
  | register t => exact absurd rfl (hop.1 t)
  | registerBad => exact absurd rfl hop.2.1
  | unregister h => exact absurd rfl (hop.2.2 h)
  | poll rt ts h tps =>
    cases rt with
    | noChange => exact ⟨rfl, rfl⟩
    | other => exact ⟨rfl, rfl⟩
    | update =>
      have e : step locked s (.poll .update ts h tps) =
          match convertResponse tps with
          | none => pollFail s .exc
          | some cfg => { s with svc := updateNewConfig s.svc ts h cfg } := rfl
      rw [e]
      cases convertResponse tps with
      | none => exact ⟨rfl, rfl⟩
      | some cfg => exact ⟨rfl, rfl⟩
  | pollFail e => exact ⟨rfl, rfl⟩
  | taskStart i =>
    simp only [step]
    cases s.svc.queued[i]? with
    | none => exact ⟨rfl, rfl⟩
    | some t => exact ⟨rfl, rfl⟩
  | taskRead k =>
    simp only [step]
    cases s.pre[k]? with
    | none => exact ⟨rfl, rfl⟩
    | some t =>
      dsimp only
      by_cases hc : (locked && !s.holding.isEmpty) = true
      · rw [if_pos hc]; exact ⟨rfl, rfl⟩
      · rw [if_neg hc]; exact ⟨rfl, rfl⟩
  | taskCall k =>
    simp only [step]
    cases s.holding[k]? with
    | none => exact ⟨rfl, rfl⟩
    | some v => dsimp only; split <;> exact ⟨rfl, rfl⟩
  | taskInstall k =>
    simp only [step]
    cases s.holding[k]? with
    | none => exact ⟨rfl, rfl⟩
    | some v => dsimp only; split <;> exact ⟨rfl, rfl⟩
  | applyTask i =>
    simp only [step]
    cases s.svc.queued[i]? with
    | none => exact ⟨rfl, rfl⟩
    | some t =>
      dsimp only
      by_cases hc : (locked && !s.holding.isEmpty) = true
      · rw [if_pos hc]; exact ⟨rfl, rfl⟩
      · rw [if_neg hc]; exact ⟨rfl, rfl⟩
  | timerStart text => exact ⟨rfl, rfl⟩

theorem c13_service_untouched (locked : Bool) (s : St) (op : Op)
    (hop : (∃ t, op = .register t) ∨ op = .registerBad ∨ (∃ h, op = .unregister h)) :
    (step locked s op).svc.hash = s.svc.hash ∧ (step locked s op).svc.polled = s.svc.polled ∧
    (step locked s op).h = s.h ∧ (step locked s op).holding = s.holding ∧ (step locked s op).pre = s.pre ∧
    (step locked s op).timerAlive = s.timerAlive := by
  rcases hop with ⟨t, rfl⟩ | rfl | ⟨h, rfl⟩
  · exact ⟨rfl, rfl, rfl, rfl, rfl, rfl⟩
  · exact ⟨rfl, rfl, rfl, rfl, rfl, rfl⟩
  · refine ⟨?_, ?_, rfl, rfl, rfl, rfl⟩
    · show (removeCustom s.svc h).hash = _
      cases hf : s.svc.customIds.findIdx? (fun x => x == h) with
      | none => rw [removeCustom_none _ _ hf]
      | some i => rw [removeCustom_some _ _ _ hf]
    · show (removeCustom s.svc h).polled = _
      cases hf : s.svc.customIds.findIdx? (fun x => x == h) with
      | none => rw [removeCustom_none _ _ hf]
      | some i => rw [removeCustom_some _ _ _ hf]

/-- the three statements above on the states the agent actually reaches (no hypothesis left): after ANY history,
    unregistering a live handle erases exactly its pair, keeps every other pair, and doing it again is a no-op. -/
theorem c13_exact_on_runs (ops : List Op) (h : Handle) (t : Trig) (hm : (h, t) ∈ regs (run ops)) :
    regs (run (ops ++ [.unregister h])) = (regs (run ops)).erase (h, t) ∧
    (∀ h' t', (h', t') ∈ regs (run ops) → h' ≠ h → (h', t') ∈ regs (run (ops ++ [.unregister h]))) ∧
    run (ops ++ [.unregister h, .unregister h]) = run (ops ++ [.unregister h]) := by
  have w := c13_wf_reachable ops
  have e1 : run (ops ++ [.unregister h]) = step applyLocked (run ops) (.unregister h) := by
    simp [run, runFrom, List.foldl_append]
  have e2 : run (ops ++ [.unregister h, .unregister h]) =
      step applyLocked (step applyLocked (run ops) (.unregister h)) (.unregister h) := by
    simp [run, runFrom, List.foldl_append]
  rw [e1, e2]
  exact ⟨(c13_unregister_exact _ _ w h t hm).1,
    fun h' t' hm' hne => (c13_others_untouched _ _ w h h' t' hm' hne).1,
    c13_idempotent _ _ w h⟩

/-- two registrations on one file and line: removing the second leaves the first (instance of the above) -/
example : regs (run [.register ⟨"a.py", 10, "w1"⟩, .register ⟨"a.py", 10, "w2"⟩, .unregister 1]) =
    [(0, ⟨"a.py", 10, "w1"⟩)] := by decide

/-! ### non-vacuity: two registrations on one line, a service update in between, the second one removed -/

private def a1 : Trig := ⟨"a.py", 10, "w1"⟩
private def a2 : Trig := ⟨"a.py", 10, "w2"⟩
private def b1 : Trig := ⟨"b.py", 3, "t1"⟩

example : (run [.register a1, .register a2, .pollUpdate 5 "h1" [⟨b1, true, true⟩], .applyTask 2, .applyTask 0,
                .applyTask 0, .unregister 1, .applyTask 0]).h.installed = [b1, a1] := by decide

example : regs (run [.register a1, .register a2, .unregister 0]) = [(1, a2)] := by decide

example : quiescent (run [.register a1, .register a2, .unregister 1, .applyTask 0, .applyTask 0, .applyTask 0]) = true
    ∧ (refRun [.register a1, .register a2, .unregister 1, .applyTask 0, .applyTask 0, .applyTask 0]).live = [(0, a1)] := by
  decide

/-! ## register / unregister after the task handler was closed (`TaskHandler.flush()`, i.e. after shutdown)

  `registerClosed` / `unregisterClosed` (Model/ConfigSvc.lean) run the regenerated `addCustomRefused` /
  `removeCustomRefused`: the statements of `add_custom` / `remove_custom` CUT at `self.__trigger_update(…)`, whose
  submission is refused — the exception leaves there, nothing after that statement is executed (a statement moved
  behind the call is lost after close, and `addCustomRefused_eq` / these theorems then fail to build).  `e` is whatever `submit_task` raises (C09: `IllegalStateException`, a `BaseException`). -/

/-- **register after close** — the registration IS stored (both lists, under the fresh handle), nothing is queued —
    so it will never be installed — and the refusal leaves `register_tracepoint` instead of the handle: the caller
    holds no handle for a registration the service keeps. -/
theorem c13_register_after_close (v : Svc) (w : Wf v) (t : Trig) (e : Py.Exn) :
    (registerClosed v (some t) e).1.customIds.zip (registerClosed v (some t) e).1.custom =
      v.customIds.zip v.custom ++ [(v.nextHandle, t)] ∧
    (registerClosed v (some t) e).1.queued = v.queued ∧
    (registerClosed v (some t) e).2 = (none, some e) ∧
    (registerClosed v (some t) e).1.polled = v.polled ∧ (registerClosed v (some t) e).1.hash = v.hash ∧
    Wf (registerClosed v (some t) e).1 := by
  have e1 : (registerClosed v (some t) e).1 = { (addCustom v (some t)).1 with queued := v.queued } := by
    simp [registerClosed, addCustomRefused_eq]
  refine ⟨?_, ?_, ?_, ?_, ?_, ?_⟩
  · rw [e1]; exact zip_addCustom v t w
  · rw [e1]
  · simp [registerClosed, addCustomRefused_eq]
  · rw [e1]; rfl
  · rw [e1]; rfl
  · rw [e1]; exact wf_queued _ _ (wf_addCustom v t w)

/-- a registration that cannot be interpreted never reaches the submission: after close it still returns its handle
    quietly and changes nothing but the handle supply -/
theorem c13_register_bad_after_close (v : Svc) (e : Py.Exn) :
    registerClosed v none e = ({ v with nextHandle := v.nextHandle + 1 }, some v.nextHandle, none) := by
  simp [registerClosed, addCustomRefused_eq, addCustom_none_eq]

/-- **unregister after close removes exactly it** — the handle's registration, and only that one, leaves both lists
    (they stay parallel), nothing is queued — the handler keeps acting on what was installed — and the refusal leaves
    `unregister()`. -/
theorem c13_unregister_after_close_exact (v : Svc) (w : Wf v) (h : Handle) (t : Trig)
    (hm : (h, t) ∈ v.customIds.zip v.custom) (e : Py.Exn) :
    (unregisterClosed v h e).1.customIds.zip (unregisterClosed v h e).1.custom =
      (v.customIds.zip v.custom).erase (h, t) ∧
    (unregisterClosed v h e).1.queued = v.queued ∧
    (unregisterClosed v h e).2 = some e ∧
    Wf (unregisterClosed v h e).1 := by
  have e1 : (unregisterClosed v h e).1 = { removeCustom v h with queued := v.queued } := by
    simp [unregisterClosed, removeCustomRefused_eq]
  have hin : h ∈ v.customIds := (List.of_mem_zip hm).1
  refine ⟨?_, by rw [e1], ?_, by rw [e1]; exact wf_queued _ _ (wf_removeCustom v h w)⟩
  · rw [e1]
    show (removeCustom v h).customIds.zip (removeCustom v h).custom = _
    rw [zip_removeCustom v h w]
    exact filter_eq_erase _ h t (by rw [map_fst_regs _ w]; exact w.nodup) hm
  · simp only [unregisterClosed, removeCustomRefused_eq]
    cases hf : v.customIds.findIdx? (fun x => x == h) with
    | none => exact absurd hin (findIdx_none_not_mem _ _ hf)
    | some i => rfl

/-- **twice is harmless, after close too** — a handle that is not (or no longer) registered finds nothing: no list
    changes, no submission is attempted, nothing is raised. -/
theorem c13_unregister_unknown_after_close (v : Svc) (h : Handle) (hn : h ∉ v.customIds) (e : Py.Exn) :
    unregisterClosed v h e = (v, none) := by
  have hf := findIdx_none_of_not_mem _ _ hn
  simp [unregisterClosed, removeCustomRefused_eq, removeCustom_none v h hf, hf]

/-- for every sequence of register / unregister calls on a closed handler the service's own configuration and hash are
    untouched and the two lists stay parallel with distinct handles (the informative part); nothing is queued — that
    conjunct is true by construction of the refused translation, which has no submission in it -/
theorem c13_closed_never_queues (e : Py.Exn) (ops : List ClosedOp) (v : Svc) (w : Wf v) :
    (ops.foldl (closedStep e) v).queued = v.queued ∧ (ops.foldl (closedStep e) v).polled = v.polled ∧
    (ops.foldl (closedStep e) v).hash = v.hash ∧ Wf (ops.foldl (closedStep e) v) := by
  induction ops generalizing v with
  | nil => exact ⟨rfl, rfl, rfl, w⟩
  | cons op rest ih =>
    simp only [List.foldl_cons]
    have step : (closedStep e v op).queued = v.queued ∧ (closedStep e v op).polled = v.polled ∧
        (closedStep e v op).hash = v.hash ∧ Wf (closedStep e v op) := by
      cases op with
      | register b =>
        have e1 : closedStep e v (.register b) = { (addCustom v b).1 with queued := v.queued } := by
          simp [closedStep, registerClosed, addCustomRefused_eq]
        rw [e1]
        cases b with
        | none => exact ⟨rfl, rfl, rfl, wf_queued _ _ (wf_addCustom_none v w)⟩
        | some t => exact ⟨rfl, rfl, rfl, wf_queued _ _ (wf_addCustom v t w)⟩
      | unregister h =>
        have e1 : closedStep e v (.unregister h) = { removeCustom v h with queued := v.queued } := by
          simp [closedStep, unregisterClosed, removeCustomRefused_eq]
        rw [e1]
        refine ⟨rfl, ?_, ?_, wf_queued _ _ (wf_removeCustom v h w)⟩
        · cases hf : v.customIds.findIdx? (fun x => x == h) with
          | none => rw [removeCustom_none v h hf]
          | some i => rw [removeCustom_some v h i hf]
        · cases hf : v.customIds.findIdx? (fun x => x == h) with
          | none => rw [removeCustom_none v h hf]
          | some i => rw [removeCustom_some v h i hf]
    obtain ⟨q, pl, hh, w'⟩ := step
    obtain ⟨a, b, c, d⟩ := ih _ w'
    exact ⟨a.trans q, b.trans pl, c.trans hh, d⟩

/-- non-vacuity: two registrations on one line, close, unregister the second (raises, removes exactly it), again
    (quiet), register a third (raises, stored) -/
example :
    let s := run [.register ⟨"a.py", 1, "w1"⟩, .register ⟨"a.py", 1, "w2"⟩, .applyTask 0, .applyTask 0]
    let r1 := unregisterClosed s.svc 1 .base
    let r2 := unregisterClosed r1.1 1 .base
    let r3 := registerClosed r2.1 (some ⟨"a.py", 1, "w3"⟩) .base
    r1.2 = some .base ∧ r1.1.custom = [⟨"a.py", 1, "w1"⟩] ∧ r2 = (r1.1, none) ∧ r3.2 = (none, some .base) ∧
    r3.1.customIds = [0, 2] ∧ r3.1.queued = [] ∧ s.h.installed = [⟨"a.py", 1, "w1"⟩, ⟨"a.py", 1, "w2"⟩] := by decide


end C13
