/-
  C09 — Delivery runs off the application thread, exactly once; failures are contained; flush drains and never
  raises; work submitted after closing is refused visibly.

  The theorems are about `Tasks.run f sched`: `f : Int → Outcome` is the failure assignment (any subset of the
  snapshots unconvertible / failing to send with an Exception or a BaseException / dying earlier), `sched` any
  list of steps — pushes by the application thread, `start`/`finish`/`callback` of any task by any worker in any
  order, `flushBegin`/`flushWait`/`flushEnd` anywhere (a step that is not enabled does nothing, so every list is a
  schedule: all interleavings, any number of workers, flush racing with completion and with callbacks, pushes
  before, during and after flush, pushes the executor itself refuses (`pushRejected`: `pool.submit` raises) — a push either as one step or in the regions of `submit_task`: `pushBegin`
  (check, id, `pool.submit`) and `pushStore` (the store into the pending map), with anything in between; a wait of
  flush may also run into its 10 s bound, `flushTimeout`).  The transitions are the regenerated translations of `submit_task`,
  `__check_open`, `_next_id`, the done-callback, and the facts read off the regenerated guard skeleton of `flush`
  and off `push_snapshot` / `_push_task`.  No bound anywhere.

  TRUSTED, stated as the model's semantics (Model/Tasks.lean): the executor — a callable accepted by
  `pool.submit` is started exactly once by some pool thread, `future.result()` returns when the task is done and
  re-raises its error (or raises TimeoutError after the bound), done-callbacks run after completion (at once when
  attached to a finished future); `dict.values()` / `list(view)` do not raise.

  Two known findings are theorems here: flush does NOT drain when it begins while a push is inside `submit_task`
  (`c09_drained_needs_no_overlap`) or when a wait times out (`c09_drained_needs_no_timeout`); `c09_drained_partial`
  names both hypotheses.
-/
import DeepModel.Proofs.Tasks

namespace C09
open Tasks Extracted.Tasks

/-- **flush never raises** — whatever failed, however the workers, the callbacks and flush interleave. -/
theorem c09_flush_returns (f : Int → Outcome) (sched : List Step) : ∀ e, (run f sched).flush ≠ .raised e :=
  (inv_run f sched).noraise

/-- the same on the code's own skeleton: with the two built-in calls of the whitelist taken as not raising,
    every call of `flush` is inside a `try` whose `except` catches both classes — so (generic `guard_sound`)
    no execution of the skeleton ends by raising, for every fault placement and every number of iterations. -/
theorem c09_flush_skeleton_guarded : Guard.AllGuarded (assumePure flushPureCallees flushSkeleton) := by decide

theorem c09_flush_skeleton_never_raises (env : Guard.Env) (tr : Guard.Trace) :
    ∀ e tr', Guard.exec env (assumePure flushPureCallees flushSkeleton) tr ≠ (.raised e, tr') :=
  Guard.guard_sound _ c09_flush_skeleton_guarded env tr

/-- … and it does return: once every task flush still waits for is done, the remaining waits and the final step
    bring it to `returned` (no waiting on anything else, no dependence on success or failure). -/
theorem c09_flush_completes (f : Int → Outcome) (s : St) (todo : List Int) (hfl : s.flush = .waiting todo)
    (hd : ∀ t ∈ s.tasks, t.fut = .done) :
    (runFrom f s (List.replicate todo.length .flushWait ++ [.flushEnd])).flush = .returned := by
  induction todo generalizing s with
  | nil => simp [runFrom, step, hfl]
  | cons id rest ih =>
    have hs : step f s .flushWait = { s with flush := .waiting rest } := by
      simp only [step, hfl]
      cases hf : findTask id s.tasks with
      | none => rfl
      | some t0 =>
        have := hd t0 (findTask_some hf).1
        simp only [this, if_true]
        cases (f id).error with
        | none => rfl
        | some e => simp [fact_catches]
    simp only [List.length_cons, List.replicate_succ, List.cons_append, runFrom, List.foldl_cons]
    rw [hs]
    exact ih _ rfl hd

/-- `NoPushOverlapsFlush`: no `flushBegin` happened while a push was between `pool.submit` and its store into the
    pending map (ghost flag of the model) -/
abbrev NoPushOverlapsFlush (s : St) : Prop := s.overlap = false
/-- `NoWaitTimedOut`: no `future.result(10)` of flush gave up on an unfinished task -/
abbrev NoWaitTimedOut (s : St) : Prop := s.timedOut = false

/-- **flush drains** (partial: two named hypotheses, each needed — see the two witnesses below) — whenever flush has
    returned, every task ever accepted is finished (succeeded or failed), PROVIDED no push was in the middle of
    `submit_task` when a flush began and no wait of flush ran into its 10 s bound; nothing is accepted after flush
    began (`c09_refuse`, `c09_closed_stays`). -/
theorem c09_drained_partial (f : Int → Outcome) (sched : List Step)
    (h1 : NoPushOverlapsFlush (run f sched)) (h2 : NoWaitTimedOut (run f sched))
    (h : (run f sched).flush = .returned) :
    ∀ t ∈ (run f sched).tasks, t.fut = .done :=
  ((inv_run f sched).closedR ⟨h1, h2⟩ h).2

/-- witness that `NoPushOverlapsFlush` is needed (finding `C09/flush-misses-task-being-submitted`): a push has handed
    its task to the pool but not stored it yet; flush begins, finds nothing pending and returns; the task is running. -/
theorem c09_drained_needs_no_overlap :
    let s := run (fun _ => .ok) [.pushBegin, .start 1 0, .flushBegin, .flushEnd, .pushStore 1]
    s.flush = .returned ∧ s.timedOut = false ∧ s.refused = 0 ∧ s.tasks.map (·.fut) = [.running 0] := by decide

/-- witness that `NoWaitTimedOut` is needed (finding `C09/flush-gives-up-after-10s`): flush swallows the TimeoutError
    of `future.result(10)` and returns with the slow task still running. -/
theorem c09_drained_needs_no_timeout :
    let s := run (fun _ => .ok) [.push, .start 1 0, .flushBegin, .flushTimeout, .flushEnd]
    s.flush = .returned ∧ s.overlap = false ∧ s.tasks.map (·.fut) = [.running 0] := by decide

/-- while flush is still waiting (and under the same two hypotheses), every unfinished task is one it waits for -/
theorem c09_waits_for_all (f : Int → Outcome) (sched : List Step) (todo : List Int)
    (h1 : NoPushOverlapsFlush (run f sched)) (h2 : NoWaitTimedOut (run f sched))
    (h : (run f sched).flush = .waiting todo) :
    ∀ t ∈ (run f sched).tasks, t.fut ≠ .done → t.id ∈ todo :=
  ((inv_run f sched).closedW ⟨h1, h2⟩ todo h).2

/-- **exactly once** — at every point of every schedule an accepted snapshot's task has been started at most
    once; when it is finished it ran exactly once and made exactly the send attempts of one run (one for a
    snapshot that converts, none for one that does not); before that it has sent nothing. -/
theorem c09_once (f : Int → Outcome) (sched : List Step) :
    ∀ t ∈ (run f sched).tasks,
      t.ranOn.length ≤ 1 ∧
      (t.fut = .done → t.ranOn.length = 1 ∧ t.sends = (f t.id).sends) ∧
      (t.fut ≠ .done → t.sends = 0) := by
  intro t ht
  have i := inv_run f sched
  cases hq : t.fut with
  | queued =>
    have := i.onceQ t ht hq
    simp [this.1, this.2]
  | running w =>
    have := i.onceR t ht w hq
    simp [this.1, this.2]
  | done =>
    have := i.onceD t ht hq
    simp [this.1, this.2]

/-- **one execution of `_push_task`** (the regenerated translation; every behaviour of `convert_snapshot`, of building
    the stub, of `self.grpc.metadata()` and of `stub.send`): at most one send attempt; exactly one iff the snapshot
    converted AND the stub could be built AND the arguments of `send` could be evaluated — none when it did not convert,
    the conversion raised, `SnapshotServiceStub(channel)` raised or `metadata()` raised; what leaves the task is the
    first of those failures, else the send's, and nothing otherwise. -/
theorem c09_push_task_outcomes (conv : ConvOut) (stub md send : Option Py.Exn) :
    (pushTask conv stub md send).1 ≤ 1 ∧
    ((pushTask conv stub md send).1 = 1 ↔ conv = .converted ∧ stub = none ∧ md = none) ∧
    (pushTask conv stub md send).2 = (match conv with
      | .raises e => some e
      | .isNone => none
      | .converted => (stub.or md).or send) := by
  cases conv <;> cases stub <;> cases md <;> cases send <;> simp [pushTask]

/-- tripwire: one run = one send for a snapshot that converts and is delivered or fails in `send`; none otherwise -/
theorem c09_sends_per_outcome :
    Outcome.ok.sends = 1 ∧ (∀ e, (Outcome.sendFails e).sends = 1) ∧ Outcome.unconvertible.sends = 0 ∧
    (∀ e, (Outcome.dies e).sends = 0) := by
  refine ⟨by decide, fun e => by cases e <;> decide, by decide, fun _ => rfl⟩

/-- job ids are never reused: two accepted tasks are two different snapshots -/
theorem c09_ids_distinct (f : Int → Outcome) (sched : List Step) : ((run f sched).tasks.map (·.id)).Nodup :=
  (inv_run f sched).nodup

/-- tripwire: **never on the caller** — no convert/send work is ever done by the thread that calls `push_snapshot`;
    the body of every task runs on pool workers only (`ranOn` lists workers by construction of `start`). -/
theorem c09_not_on_caller (f : Int → Outcome) (sched : List Step) : (run f sched).callerRuns = 0 :=
  (inv_run f sched).caller

/-- **failures are contained** — two failure assignments drive the machine through the same states except for
    the per-task send counters (which tasks run, finish, are pending, what flush does: identical), and a task whose
    own outcome is the same in both ends up identical in both: no other snapshot's failure changes its fate. -/
theorem c09_contained (f g : Int → Outcome) (sched : List Step) :
    erase (run f sched) = erase (run g sched) ∧
    (∀ id, f id = g id → findTask id (run f sched).tasks = findTask id (run g sched).tasks) := by
  have he : erase (run f sched) = erase (run g sched) := erase_runFrom f g sched _ _ rfl
  refine ⟨he, ?_⟩
  intro id hfg
  have hm : (findTask id (run f sched).tasks).map eraseTask = (findTask id (run g sched).tasks).map eraseTask := by
    rw [← findTask_erase, ← findTask_erase]
    have : (run f sched).tasks.map eraseTask = (run g sched).tasks.map eraseTask := congrArg St.tasks he
    rw [this]
  cases h1 : findTask id (run f sched).tasks with
  | none =>
    rw [h1] at hm
    cases h2 : findTask id (run g sched).tasks with
    | none => rfl
    | some b => rw [h2] at hm; simp at hm
  | some a =>
    rw [h1] at hm
    cases h2 : findTask id (run g sched).tasks with
    | none => rw [h2] at hm; simp at hm
    | some b =>
      rw [h2] at hm
      simp only [Option.map_some, Option.some.injEq] at hm
      obtain ⟨ham, haid⟩ := findTask_some h1
      obtain ⟨hbm, hbid⟩ := findTask_some h2
      have oa := c09_once f sched a ham
      have ob := c09_once g sched b hbm
      have hfut : a.fut = b.fut := by simpa [eraseTask] using congrArg Task.fut hm
      have hs : a.sends = b.sends := by
        by_cases hd : a.fut = .done
        · rw [(oa.2.1 hd).2, (ob.2.1 (hfut ▸ hd)).2, haid, hbid, hfg]
        · rw [oa.2.2 hd, ob.2.2 (hfut ▸ hd)]
      congr 1
      cases a; cases b
      simp only [eraseTask, Task.mk.injEq] at hm
      simp only at hs
      simp [hm.1, hm.2.1, hm.2.2.1, hm.2.2.2.1, hs]

/-- **refused visibly** — on a closed handler `submit_task` raises `IllegalStateException` (a `BaseException`: it
    passes every `except Exception`) before doing anything: no id is taken, nothing reaches the pool or the pending
    map; `push_snapshot` hands that exception to its caller. -/
theorem c09_refuse (f : Int → Outcome) (s : St) (h : s.th.isOpen = false) :
    submitTask s.th = .error .base ∧ step f s .push = { s with refused := s.refused + 1 } ∧
    step f s .pushBegin = { s with refused := s.refused + 1 } := by
  refine ⟨?_, push_closed s h, pushBegin_closed s h⟩
  simp [submitTask, submitAccept, h, fact_refuses, refusalClass]

/-- **the executor refuses BEFORE it queues** (`ThreadPoolExecutor.submit` raising "cannot schedule new futures after
    shutdown / after interpreter shutdown": the check is the first thing `submit` does) — the whole effect of such a
    `push_snapshot`, read off the regenerated `submitRejected` (the statements of `submit_task` before `pool.submit`):
    the caller gets an `Exception` (on a closed handler the `BaseException` of `__check_open`, which comes first), and
    the state changes in exactly two places — one refusal more, and one job id used up iff the handler was open.  No
    task exists for the snapshot, so along every schedule (`.pushRejected` is a step of all of them) it is never sent
    (`c09_rejected_before_queue_never_runs`), ids are still never reused (`c09_ids_distinct`), accepted snapshots are
    still sent exactly once (`c09_once`), flush still returns and drains (`c09_flush_returns`, `c09_drained_partial`).
    NOT covered by this step: a `submit` that raises AFTER it queued the work item — `c09_queued_then_raised`. -/
theorem c09_executor_rejection (f : Int → Outcome) (s : St) :
    (submitRejected s.th).2 = (if s.th.isOpen then .exc else .base) ∧
    step f s .pushRejected =
      { s with th := { s.th with jobId := if s.th.isOpen then s.th.jobId + 1 else s.th.jobId },
               refused := s.refused + 1 } := by
  refine ⟨?_, pushRejected_eq s⟩
  cases ho : s.th.isOpen with
  | false => rw [submitRejected_closed _ ho]; rfl
  | true => rw [submitRejected_open _ ho]; rfl

/-- … and so the job id such a push used up never names a task, whatever the schedule does afterwards: nothing is
    ever started, run or sent under it. -/
theorem c09_rejected_before_queue_never_runs (f : Int → Outcome) (sched rest : List Step)
    (ho : (run f sched).th.isOpen = true) :
    ∀ t ∈ (run f (sched ++ .pushRejected :: rest)).tasks, t.id ≠ (run f sched).th.jobId + 1 ∨
      t ∉ (run f (sched ++ [.pushRejected])).tasks := by
  intro t _
  by_cases hm : t ∈ (run f (sched ++ [.pushRejected])).tasks
  · left
    have e : run f (sched ++ [.pushRejected]) = pushRejected (run f sched) := by
      simp [run, runFrom, List.foldl_append, step]
    rw [e, pushRejected_eq] at hm
    have := ((inv_run f sched).pos t hm).2
    omega
  · exact Or.inr hm

/-- **the executor raises AFTER it queued the work item** (`ThreadPoolExecutor.submit` puts the item on its queue and then
    starts a worker; `Thread.start` failing with "can't start new thread" leaves the item queued): `push_snapshot`
    raises to its caller, yet the task exists and can run — it is `pushBegin` (the regenerated statements of
    `submit_task` up to and including `pool.submit`) plus the refusal, and the store into the pending map and the
    done-callback never happen (the id stays in `storing`).  Exactly-once still holds for it (`c09_once` quantifies over
    this step), flush still never raises; but flush does not wait for it: any flush that begins afterwards sets the
    `overlap` flag, i.e. falls outside the hypothesis `NoPushOverlapsFlush` of `c09_drained_partial` — see the witness
    `c09_refused_but_runs_unwaited`. -/
theorem c09_queued_then_raised (f : Int → Outcome) (s : St) (ho : s.th.isOpen = true) :
    step f s .pushQueuedRaised =
      { s with th := { s.th with jobId := s.th.jobId + 1, accepted := s.th.accepted ++ [s.th.jobId + 1] },
               tasks := s.tasks ++ [⟨s.th.jobId + 1, .queued, false, [], 0⟩],
               storing := s.storing ++ [s.th.jobId + 1],
               refused := s.refused + 1 } ∧
    ((s.flush = .idle ∨ s.flush = .returned) →
      (step f (step f s .pushQueuedRaised) .flushBegin).overlap = true) := by
  have e : step f s .pushQueuedRaised = { pushBegin s with refused := (pushBegin s).refused + 1 } := by
    show pushQueuedRaised s = _
    simp [pushQueuedRaised, ho]
  have hb := pushBegin_open s ho
  refine ⟨by rw [e, hb], ?_⟩
  intro hfl
  rw [e, hb]
  rcases hfl with hfl | hfl <;> simp [step, hfl]

/-- witness (finding candidate `C09/refused-push-still-runs-unwaited`): the executor queues the second snapshot's task
    and raises; the caller was refused, flush begins, finds only task 1 pending, returns — and the refused snapshot is
    then converted and sent (once) by a worker, after flush has returned. -/
theorem c09_refused_but_runs_unwaited :
    let s := run (fun _ => .ok) [.push, .pushQueuedRaised, .start 1 0, .finish 1, .flushBegin, .flushWait, .flushEnd]
    let s' := runFrom (fun _ => .ok) s [.start 2 1, .finish 2]
    s.flush = .returned ∧ s.refused = 1 ∧ s.timedOut = false ∧ s.overlap = true ∧
    s.tasks.map (fun t => (t.id, t.fut)) = [(1, .done), (2, .queued)] ∧ s.th.pending = [1] ∧
    s'.tasks.map (fun t => (t.id, t.sends)) = [(1, 1), (2, 1)] := by decide

/-- tripwire: the in-tree submitters — every `submit_task` call site of src/deep, enumerated from the source at
    extraction time: the configuration service's listener update and the push service.  (A new submitter breaks this
    theorem, so it cannot appear without the after-close stream of the check being extended to it.) -/
theorem c09_submit_sites :
    submitSites.map (fun s => (s.file, s.func)) =
      [("deep/config/tracepoint_config.py", "TracepointConfigService.__trigger_update"),
       ("deep/push/push_service.py", "PushService.push_snapshot")] := by decide

/-- tripwire: **refused visibly, at every submit site and one level up** — `c09_refuse` (a closed handler's
    `submit_task` raises the `BaseException`) plus a decided check of two regenerated tables: at no `submit_task` call
    site, and at no in-tree call of a function containing one (`submitCallers`: update_new_config / add_custom /
    remove_custom -> __trigger_update, the two snapshot callbacks -> push_snapshot), does the call stand in a `try` OF
    THAT DEF that swallows the refusal without logging at WARNING or above — so the outcome at the site is `raised` or
    `logged`, never `silent`.  What the tables do NOT see: callers two or more levels up, aliases, getattr / partial,
    `contextlib.suppress`, `try … finally: return`.  Those are covered only dynamically, by the `submitters` stream of
    the check (real Deep graph, every entry point after the real flush()), which is what caught a swallow placed in a
    caller.  Joins C12's shutdown window (`c12_update_after_flush_kills_timer`). -/
theorem c09_refused_visibly_everywhere (th : TH) (h : th.isOpen = false) :
    (∀ site ∈ submitSites, ∃ r, siteOutcome site (some th) = some r ∧ r ≠ .silent) ∧
    (∀ c ∈ submitCallers, c.swallowsRefusal = false ∨ c.handlerLogs = true) := by
  have e : submitTask th = .error .base := by
    simp [submitTask, submitAccept, h, fact_refuses, refusalClass]
  refine ⟨?_, by decide⟩
  intro site hs
  have hv : ∀ s ∈ submitSites, s.swallowsRefusal = false ∨ s.handlerLogs = true := by decide
  rcases hv site hs with h1 | h1
  · exact ⟨.raised .base, by simp [siteOutcome, e, h1], by simp⟩
  · cases h2 : site.swallowsRefusal with
    | false => exact ⟨.raised .base, by simp [siteOutcome, e, h2], by simp⟩
    | true => exact ⟨.logged, by simp [siteOutcome, e, h1, h2], by simp⟩

/-- model lemma: when `submit_task` of an open handler returns, no site reports a refusal (`siteOutcome` does not
    look at the site on that branch; it restates `fact_accepts`).  An open handler's submit can still fail in the
    executor — `c09_executor_rejection`, `c09_queued_then_raised` — which is not part of `siteOutcome`. -/
theorem c09_accepted_while_open (th : TH) (h : th.isOpen = true) :
    ∀ site ∈ submitSites, siteOutcome site (some th) = none := by
  intro site _
  simp [siteOutcome, submitTask, submitAccept, h, fact_accepts]

/-- witness (observation, not reachable through `Deep`): a `TracepointConfigService` that was never given a task handler
    drops every configuration update without a word — `__trigger_update` is guarded by `if self._task_handler is not
    None:` with no `else` (regenerated: `noneGuard`), so nothing is submitted, nothing raised, nothing logged and the
    listeners are never told; the push service's site has no such guard.  `Deep.__init__` hands the handler over before
    anything can poll or register (checked by extract/configsvc.py `check_api`), so the agent as wired never is in
    this state. -/
theorem c09_no_handler_drops_silently :
    submitSites.map (fun s => (s.func, siteOutcome s none)) =
      [("TracepointConfigService.__trigger_update", some .silent),
       ("PushService.push_snapshot", some (.raised .exc))] := by decide

/-- flush closes the handler before it looks at the pending map, and a closed handler stays closed -/
theorem c09_closed_stays (f : Int → Outcome) (sched : List Step) (s : St) (h : s.th.isOpen = false) :
    (runFrom f s sched).th.isOpen = false := by
  induction sched generalizing s with
  | nil => exact h
  | cons st rest ih =>
    apply ih
    cases st with
    | push => show (push s).th.isOpen = false; rw [push_closed s h]; exact h
    | pushBegin => show (pushBegin s).th.isOpen = false; rw [pushBegin_closed s h]; exact h
    | pushRejected => show (pushRejected s).th.isOpen = false; rw [pushRejected_eq]; exact h
    | pushQueuedRaised =>
      show (pushQueuedRaised s).th.isOpen = false
      simp only [pushQueuedRaised, h, Bool.false_eq_true, if_false]
      rw [pushBegin_closed s h]; exact h
    | pushStore id =>
      simp only [step]
      split
      · cases findTask id s.tasks with
        | none => exact h
        | some t =>
          dsimp only
          split
          · show (callback (submitStore s.th id) id).isOpen = false; rw [callback_isOpen]; exact h
          · exact h
      · exact h
    | flushTimeout =>
      simp only [step]
      split
      · cases findTask _ s.tasks with
        | none => exact h
        | some t =>
          dsimp only
          split
          · exact h
          · split <;> exact h
      · exact h
    | start id w =>
      simp only [step]
      cases findTask id s.tasks with
      | none => exact h
      | some t => dsimp only; split <;> exact h
    | finish id =>
      simp only [step]
      cases findTask id s.tasks with
      | none => exact h
      | some t => dsimp only; split <;> exact h
    | callback id =>
      simp only [step]
      cases findTask id s.tasks with
      | none => exact h
      | some t =>
        dsimp only
        split
        · split
          · split <;> (show (callback s.th id).isOpen = false; rw [callback_isOpen]; exact h)
          · show (callback s.th id).isOpen = false; rw [callback_isOpen]; exact h
        · exact h
    | flushBegin =>
      simp only [step]
      split
      · simp [fact_flushCloses]
      · simp [fact_flushCloses]
      · exact h
    | flushWait =>
      simp only [step]
      split
      · cases findTask _ s.tasks with
        | none => exact h
        | some t =>
          dsimp only
          split
          · split
            · split <;> exact h
            · exact h
          · exact h
      · exact h
    | flushEnd =>
      simp only [step]
      split <;> exact h

theorem c09_flush_closes (f : Int → Outcome) (s : St) (h : s.flush = .idle ∨ s.flush = .returned) :
    (step f s .flushBegin).th.isOpen = false ∧ (step f s .flushBegin).flush = .waiting s.th.pending := by
  rcases h with h | h <;> simp [step, h, fact_flushCloses]

/-! ### non-vacuity: three snapshots, the second fails in `send` with a BaseException, the third does not convert;
    flush starts while two are running, a callback is late, a push arrives after flush began -/

private def f3 : Int → Outcome
  | 2 => .sendFails .base
  | 3 => .unconvertible
  | _ => .ok

private def sched3 : List Step :=
  [.push, .push, .start 1 0, .start 2 1, .push, .flushBegin, .push, .finish 2, .flushWait, .finish 1, .flushWait,
   .callback 1, .start 3 1, .flushWait, .finish 3, .flushWait, .flushEnd, .callback 3, .callback 2]

example : (run f3 sched3).flush = .returned ∧ (run f3 sched3).refused = 1 ∧
    (run f3 sched3).tasks.map (fun t => (t.id, t.ranOn, t.sends)) = [(1, [0], 1), (2, [1], 1), (3, [1], 0)] ∧
    (run f3 sched3).th.pending = [] := by decide

/-- non-vacuity for `c09_executor_rejection`: the executor refuses the second of three pushes — its id (2) is used up,
    the other two snapshots are delivered exactly once, flush returns with everything finished -/
example :
    let s := run (fun _ => .ok) [.push, .pushRejected, .push, .start 1 0, .start 3 1, .flushBegin, .finish 3,
                                 .finish 1, .flushWait, .flushWait, .flushEnd, .callback 1, .callback 3]
    s.flush = .returned ∧ s.refused = 1 ∧ s.tasks.map (fun t => (t.id, t.ranOn.length, t.sends)) = [(1, 1, 1), (3, 1, 1)] ∧
    s.th.pending = [] := by decide

end C09
