/-
  C07 — The snapshot variable table is closed and de-duplicated by object identity.

  Model: the collector of C05 (`Model/Collector.lean`) including the frame "unwrap" (the locals pseudo-entry is
  removed, its children become the frame's variables), the merge of watch / log / capture tables into the snapshot
  (same identity cache), and the guards of `eval_watch`.  References (`VarId`) and entries carry the *ghost* object they
  were made for, so "denotes the same object" can be stated.

  Quantifiers: every heap (finite, arbitrary sharing and cycles), every limits (the budget may or may not be hit),
  every list of frames, every list of watch / log / capture values (incl. values already in the frame).

  Objects whose inspection raises are inside the domain as far as the source GUARDS the probe (C06): those guards make every
  `Heap` benign — a search over a `Heap` can not be left by an exception.  DOMAIN BOUNDARY of every closure theorem here: no
  search of the action ABORTS.  The real collector can abort a search (an unguarded probe raises: `str(v)` raising a
  BaseException, `type(v).__name__` raising through a metaclass — the open finding C06/unguarded-type-name-and-text-methods);
  `Model/CollectorAbort.lean` adds that outcome (`collectA`, oracle `Aborts`).  `collectA` with no abort IS `collect`
  (`collectA_noAbort`), so the theorems below are statements about `collectA` under the named hypothesis `NoAbortedSearch`
  (`c07_dangling_unless_aborted`); without it closure fails in a SECOND way (`c07_aborted_watch_witness`, known finding
  C07/aborted-watch-leaves-ids): an aborted watch / log field is reported as an error and its table dropped, but the ids it
  handed out stay in the identity cache.

  `c07_dangling_only_locals` is what the check's known-finding predicate rests on: on a case that binds a frame's locals dict
  to a name or watch, the only objection the identity oracle may have is a dangling reference made for the locals dict of a
  collected frame (single frame, or another frame of the chain: stream `frame-locals`); anything else is a violation.

  Modelled assumption: distinct live objects have distinct `id()` and a recorded object stays alive while the cache is
  in use — the second half is what `hold()` establishes in the code (`c07_ids_stable`, re-checked on every run).
-/
import DeepModel.Proofs.CollectorSnap
import DeepModel.Proofs.CollectorBenign
import DeepModel.Proofs.CollectorExamples
import DeepModel.Proofs.CollectorDangling
import DeepModel.Proofs.CollectorDeferred
import DeepModel.Proofs.CollectorAbort

namespace C07
open Heap Collector Extracted.Collector

set_option maxRecDepth 20000

/-- all references of a snapshot that carry an id: (object the reference was made for, id) -/
def snapRefs (s : Snapshot) : List (ObjId × Nat) :=
  (s.frames.flatMap (·.map (fun r => (r.obj, r.vid)))) ++
  (s.table.flatMap (fun e => e.children.map (fun r => (r.obj, r.vid)))) ++
  (s.watches.filterMap (fun w => w.vid.map (fun v => (w.obj, v))))

/-- tripwire: `process_variable` keeps every ROOT value alive in the cache provider (`hold`), so the `id()` of a recorded
    root cannot be reused while the cache is in use.  Assumption kept next to it: ONLY roots are held.  Objects reachable
    from a root stay alive through it; objects a traversal creates on the fly — the items of a `__dict__` property, what a
    user `__iter__` / `.args` property hands out, the pairs of a dict view — are NOT held: their ids may be recycled
    within the snapshot (the model gives such temporaries distinct `ObjId`s; the generators keep them out of the kinds the
    collector iterates — see the `views` stream of the check). -/
theorem c07_ids_stable : holdsRoots = true := by decide

/-- **injective** — the identity cache of a finished action never gives two objects one id nor one object two ids,
    and the ids are 1..n. -/
theorem c07_injective (H : Heap) (a : ActionIn) (s : Snapshot) (h : collect H a = .ok s) :
    (collectFrom H a [] []).cache.Pairwise (fun x y => x.1 ≠ y.1 ∧ x.2 ≠ y.2) ∧
    ∀ p ∈ (collectFrom H a [] []).cache, 1 ≤ p.2 ∧ p.2 ≤ (collectFrom H a [] []).cache.length :=
  (collect_facts h).inv.cok

/-- the same at any time of any search -/
theorem c07_injective_search (H : Heap) (L : Limits) (c : Cache) (t : List Entry) (name : String) (o : ObjId) (k : Nat)
    (h : AInv L c t) : (run H L k (bfsInit L c t name o)).cache.Pairwise (fun x y => x.1 ≠ y.1 ∧ x.2 ≠ y.2) :=
  (run_rinv k _ (h.rinv_init name o)).cok.1

theorem filter_length_le_one {α : Type} (l : List α) (p : α → Bool)
    (h : l.Pairwise (fun a b => ¬ (p a = true ∧ p b = true))) : (l.filter p).length ≤ 1 := by
  induction l with
  | nil => simp
  | cons x l ih =>
    rw [List.pairwise_cons] at h
    by_cases hx : p x = true
    · have : l.filter p = [] := by
        rw [List.filter_eq_nil_iff]
        intro b hb hpb
        exact h.1 b hb ⟨hx, hpb⟩
      simp [List.filter, hx, this]
    · have := ih h.2
      simpa [List.filter, hx] using this

/-- **once** — one program object is recorded once: at most one entry per object, at most one entry per id. -/
theorem c07_once (H : Heap) (a : ActionIn) (s : Snapshot) (h : collect H a = .ok s) :
    (∀ o, (s.table.filter (fun e => e.obj = o)).length ≤ 1) ∧
    (∀ v, (s.table.filter (fun e => e.vid = v)).length ≤ 1) := by
  have tp := (collect_facts h).inv.tpair
  constructor
  · intro o
    apply filter_length_le_one
    refine tp.imp ?_
    intro x y hxy hp
    simp only [decide_eq_true_eq] at hp
    exact hxy.1 (hp.1.trans hp.2.symm)
  · intro v
    apply filter_length_le_one
    refine tp.imp ?_
    intro x y hxy hp
    simp only [decide_eq_true_eq] at hp
    exact hxy.2 (hp.1.trans hp.2.symm)

theorem mem_snapRefs {s : Snapshot} {c : Cache} {a : ActionIn} (f : SnapFacts a s c) :
    ∀ r ∈ snapRefs s, r ∈ c := by
  intro r hr
  simp only [snapRefs, List.mem_append, List.mem_flatMap, List.mem_map, List.mem_filterMap] at hr
  rcases hr with (⟨vars, hv, x, hx, rfl⟩ | ⟨e, he, x, hx, rfl⟩) | ⟨w, hw, hwv⟩
  · exact f.frames vars hv x hx
  · exact f.inv.refs e he x hx
  · cases hv : w.vid with
    | none => simp [hv] at hwv
    | some v =>
      simp only [hv, Option.map_some, Option.some.injEq] at hwv
      subst hwv
      exact f.watches w hw v hv

/-- **same object ⇔ same id** — for any two references of a snapshot (two names, two containers, a watch and a local,
    a capture value and a watch …): they carry the same id exactly when they were made for the same object. -/
theorem c07_same_object_same_id (H : Heap) (a : ActionIn) (s : Snapshot) (h : collect H a = .ok s) :
    ∀ r1 ∈ snapRefs s, ∀ r2 ∈ snapRefs s, (r1.1 = r2.1 ↔ r1.2 = r2.2) := by
  have f := collect_facts h
  intro r1 h1 r2 h2
  have m1 := mem_snapRefs f r1 h1
  have m2 := mem_snapRefs f r2 h2
  constructor
  · intro e
    exact f.inv.cok.id_inj (o := r1.1) m1 (by rw [e]; exact m2)
  · intro e
    exact f.inv.cok.obj_inj (v := r1.2) m1 (by rw [e]; exact m2)

/-- **a reference resolves to the entry of its own object** — if the table has an entry under the id of a reference,
    that entry describes the object the reference was made for (not another one). -/
theorem c07_ref_entry (H : Heap) (a : ActionIn) (s : Snapshot) (h : collect H a = .ok s) :
    ∀ r ∈ snapRefs s, ∀ e ∈ s.table, e.vid = r.2 → e.obj = r.1 := by
  have f := collect_facts h
  intro r hr e he hv
  have m1 := mem_snapRefs f r hr
  have m2 := f.inv.tcache e he
  rw [hv] at m2
  exact f.inv.cok.obj_inj m2 m1

/-! ### closure -/

/-- the statement at full strength: every reference with an id has its entry, and every attached result has an id -/
def Closed (s : Snapshot) : Prop :=
  (∀ r ∈ snapRefs s, r.2 ∈ s.table.map (·.vid)) ∧ (∀ w ∈ s.watches, w.hasResult = true → w.vid ≠ none)

/-- **closed (partial)** — hypothesis named: `NoRef H (localsOf a.frames)` and `hW`, i.e. no collected frame's locals
    dict is referenced by an object or is the value of a watch (forced by the unwrap step, which deletes the entry of the
    locals dict: see `c07_locals_self_ref_witness`).  Then every reference on a frame, every child reference and every
    watch / log / capture result that has an id resolves to an entry of the snapshot's table — for every heap (objects whose
    inspection raises included), budget hit or not. -/
theorem c07_closed_partial (H : Heap) (a : ActionIn) (s : Snapshot)
    (hN : NoRef H (localsOf a.frames)) (hW : ∀ w ∈ a.watches, w.value ∉ localsOf a.frames)
    (h : collect H a = .ok s) : ∀ r ∈ snapRefs s, r.2 ∈ s.table.map (·.vid) := by
  obtain ⟨h1, h2, h3⟩ := collect_closed_all hN hW h
  intro r hr
  simp only [snapRefs, List.mem_append, List.mem_flatMap, List.mem_map, List.mem_filterMap] at hr
  rcases hr with (⟨vars, hv, x, hx, rfl⟩ | ⟨e, he, x, hx, rfl⟩) | ⟨w, hw, hwv⟩
  · exact h1 vars hv x hx
  · exact h2 e he x hx
  · cases hv : w.vid with
    | none => simp [hv] at hwv
    | some v =>
      simp only [hv, Option.map_some, Option.some.injEq] at hwv
      subst hwv
      exact h3 w hw v hv

/-- **closed, except for references to a collected frame's namespace** — no hypothesis on the `Heap` (whose searches cannot
    abort: see the file header; the statement with that hypothesis spelled out is `c07_dangling_unless_aborted`): for every
    heap, limits, frames (any number, any frame type / time-budget selection) and watch / log / capture values, every
    reference of a finished snapshot — on any frame, as a child of any entry, as a result — resolves to an entry of the
    snapshot's table, unless it was made for the `f_locals` dict of a COLLECTED frame (the pseudo-entry the unwrap step
    deletes).  That is wider than `l = locals()`: any path to any collected frame's namespace — a callee handed its caller's
    `locals()`, or `g = globals()` in a function called from module level with frame_type all_frame (a module frame's
    `f_locals` IS its globals dict).  Known finding `C07/locals-dict-self-reference` covers all of these.
    `c07_closed_partial` is the special case in which no such reference can arise. -/
theorem c07_dangling_only_locals (H : Heap) (a : ActionIn) (s : Snapshot) (h : collect H a = .ok s) :
    ∀ r ∈ snapRefs s, r.2 ∈ s.table.map (·.vid) ∨ r.1 ∈ localsOf a.frames := by
  have f := collect_facts h
  intro r hr
  exact collect_cov h r (mem_snapRefs f r hr)

/-- corollary: a snapshot none of whose references was made for a collected frame's locals dict is closed — a condition on
    the references of the snapshot (`r.1` is the ghost object of the model's `VarId`: on the real code it is checkable only
    with the recorder's identity map, which is how the harness uses it), weaker than `NoRef` (a condition on the whole heap,
    reachable or not). -/
theorem c07_closed_of_no_locals_ref (H : Heap) (a : ActionIn) (s : Snapshot) (h : collect H a = .ok s)
    (hno : ∀ r ∈ snapRefs s, r.1 ∉ localsOf a.frames) : ∀ r ∈ snapRefs s, r.2 ∈ s.table.map (·.vid) := by
  intro r hr
  rcases c07_dangling_only_locals H a s h r hr with h1 | h1
  · exact h1
  · exact absurd h1 (hno r hr)

/-- non-vacuity of the exception: in the D31 snapshot the one dangling reference `(object 0, id 1)` is the locals dict -/
example : (match collect Ex.localsSelf ⟨⟨40, 1024, 10, 5⟩, Ex.frame0, []⟩ with
    | .ok s => decide (((0 : ObjId), (1 : Nat)) ∈ snapRefs s ∧ (1 : Nat) ∉ s.table.map (·.vid))
    | .failed _ => false) = true ∧ (0 : ObjId) ∈ localsOf Ex.frame0 := by decide

/-! ### searches that abort -/

/-- **the same, with the domain spelled out** — in the model where an unguarded probe may raise on some objects (`ab`):
    under the named hypothesis `NoAbortedSearch ab` every reference resolves unless made for a collected frame's locals dict. -/
theorem c07_dangling_unless_aborted (H : Heap) (ab : Aborts) (a : ActionIn) (s : Snapshot) (hna : NoAbortedSearch ab)
    (h : collectA H ab a = .ok s) : ∀ r ∈ snapRefs s, r.2 ∈ s.table.map (·.vid) ∨ r.1 ∈ localsOf a.frames := by
  rw [collectA_noAbort hna] at h
  exact c07_dangling_only_locals H a s h

/-- `SH = "shared"`, `BAD` = an object on which an unguarded probe raises "stop"; no frame variables; watches
    `[SH, BAD]`, `SH`, `[SH]` -/
def Ex.abortHeap : Heap :=
  ⟨[Ex.dictOf [], Ex.scalar "str" "shared", Ex.scalar "Bad" "?", Ex.listOf [1, 2], Ex.listOf [1]]⟩
def Ex.abortOn : Aborts := fun o => if o = 2 then some "stop" else none
def Ex.abortAction : ActionIn :=
  ⟨⟨40, 1024, 10, 5⟩, [], [⟨.watch, "[SH, BAD]", 3⟩, ⟨.watch, "SH", 1⟩, ⟨.watch, "[SH]", 4⟩]⟩

/-- witness: **the hypothesis is needed** (known finding `C07/aborted-watch-leaves-ids`).  The first watch aborts at `BAD`:
    error result "stop", its table (entries 1 and 2) is dropped, ids 1–3 stay in the cache.  The second watch `SH` is a
    cache hit: a result with id 2 and no entry; the third records `[SH]` under id 4 whose child refers to id 2 as well.  No
    locals dict is involved (no frame is collected). -/
theorem c07_aborted_watch_witness :
    (match collectA Ex.abortHeap Ex.abortOn Ex.abortAction with
      | .ok s => (s.watches.map (fun w => (w.hasResult, w.vid, w.error)), s.table.map (·.vid),
                  decide (((1 : ObjId), (2 : Nat)) ∈ snapRefs s))
      | .failed _ => ([], [], false)) =
      ([(false, none, some "stop"), (true, some 2, none), (true, some 4, none)], [4], true) ∧
    localsOf Ex.abortAction.frames = [] ∧ ¬ NoAbortedSearch Ex.abortOn := by
  refine ⟨by decide, by decide, ?_⟩
  intro h
  have := h 2
  simp [Ex.abortOn] at this

/-- **results have an id** (D10 and its sibling for captured values) — a watch, log-field or capture result that is
    attached (not an error) carries an id: when the budget is exhausted before the value is recorded the result is an
    error result instead. -/
theorem c07_watch_has_id (H : Heap) (L : Limits) (ws : List WatchIn) (c : Cache) (t : List Entry) :
    ∀ w ∈ (collectWatches H L ws c t).outs, w.hasResult = true → w.vid ≠ none := by
  induction ws generalizing c t with
  | nil => simp [collectWatches]
  | cons w ws ih =>
    have tail : ∀ (o : WatchOut) (r : WatchesOut), (o.hasResult = true → o.vid ≠ none) →
        (∀ x ∈ r.outs, x.hasResult = true → x.vid ≠ none) →
        ∀ x ∈ ({ r with outs := o :: r.outs } : WatchesOut).outs, x.hasResult = true → x.vid ≠ none := by
      intro o r ho hr x hx
      simp only [List.mem_cons] at hx
      rcases hx with rfl | hx
      · exact ho
      · exact hr x hx
    simp only [collectWatches]
    split
    · split
      · simp
      · split
        · exact tail _ _ (by simp) (ih _ _)
        · rename_i hnm
          exact tail _ _ (fun _ hv => hnm "variable limit reached" hv rfl) (ih _ _)
    · split
      · exact tail _ _ (by simp) (ih _ _)
      · split
        · exact tail _ _ (by simp) (ih _ _)
        · rename_i hnm
          exact tail _ _ (fun _ hv => hnm "variable limit reached" hv rfl) (ih _ _)

/-- on a finished snapshot -/
theorem c07_results_have_id (H : Heap) (a : ActionIn) (s : Snapshot) (h : collect H a = .ok s) :
    ∀ w ∈ s.watches, w.hasResult = true → w.vid ≠ none := by
  unfold collect collectFrom at h
  simp only at h
  split at h
  · simp at h
  · split at h
    · simp at h
    · simp only [Outcome.ok.injEq] at h
      subst h
      exact c07_watch_has_id _ _ _ _ _

/-- **the locals dict that contains itself** (D31, known finding `C07/locals-dict-self-reference`): `x = 1; l = locals()`.
    The frame lists `l` under id 1 — the id of the locals pseudo-entry, which the unwrap step has deleted. -/
theorem c07_locals_self_ref_witness :
    (match collect Ex.localsSelf ⟨⟨40, 1024, 10, 5⟩, Ex.frame0, []⟩ with
      | .ok s => (s.frames.map (·.map (fun r => (r.vid, r.name))), s.table.map (·.vid))
      | .failed _ => ([], [])) = ([[(2, "x"), (1, "l")]], [2]) ∧
    ¬ NoRef Ex.localsSelf (localsOf Ex.frame0) := by
  refine ⟨by decide, ?_⟩
  intro h
  exact h 0 0 (by decide) (by decide)

/-- the captured return value of a frame that used up the budget becomes an error result (was: a result with no id) -/
theorem c07_capture_guarded :
    captureLimitError = some "variable limit reached" ∧
    (match collect Ex.nested ⟨⟨2, 1024, 10, 5⟩, Ex.frame0, [⟨.capture, "return", 6⟩]⟩ with
      | .ok s => s.watches.map (fun w => (w.hasResult, w.vid, w.error))
      | .failed _ => []) = [(false, none, some "variable limit reached")] := by
  exact ⟨by decide, by decide⟩

/-- the full-strength statement does not hold of the code as it is: the locals self reference refutes it -/
theorem c07_closed_refuted : ¬ (∀ (H : Heap) (a : ActionIn) (s : Snapshot), collect H a = .ok s → Closed s) := by
  intro hall
  have key : (match collect Ex.localsSelf ⟨⟨40, 1024, 10, 5⟩, Ex.frame0, []⟩ with
      | .ok s => decide ((1 : Nat) ∉ s.table.map (·.vid) ∧ ((0 : ObjId), (1 : Nat)) ∈ snapRefs s)
      | .failed _ => false) = true := by decide
  have h1 : ∃ s, collect Ex.localsSelf ⟨⟨40, 1024, 10, 5⟩, Ex.frame0, []⟩ = .ok s ∧ (1 : Nat) ∉ s.table.map (·.vid) ∧
      ((0 : ObjId), (1 : Nat)) ∈ snapRefs s := by
    cases hc : collect Ex.localsSelf ⟨⟨40, 1024, 10, 5⟩, Ex.frame0, []⟩ with
    | failed m => rw [hc] at key; simp at key
    | ok s =>
      rw [hc] at key
      simp only [decide_eq_true_eq] at key
      exact ⟨s, rfl, key.1, key.2⟩
  obtain ⟨s, hs, hn, hm⟩ := h1
  exact hn ((hall _ _ s hs).1 _ hm)

/-- **deferred snapshots keep one identity, two heaps** — a snapshot completed later by its callback (stage line_capture /
    method_capture) with the returned / raised value; `H` = the program state at the tracepoint's line, `H'` = the state at the
    completing event (the host ran in between), every event and value: one entry per object and per id, same object ⇔ same id
    across frame, watches and the captured value, and the only reference that can dangle is one made for a collected frame's
    locals dict.  NOTE what "same object ⇔ same id" means here: a returned object that phase 1 had recorded is a back
    reference to its PHASE-1 entry — the rendering of the object as it was at the line, not as it is returned
    (`C05.c05_stale_capture_witness`). -/
theorem c07_deferred_identity (H H' : Heap) (a : ActionIn) (event : String) (value : ObjId) (s : Snapshot)
    (h : deferredSnapshot2 H H' a event value = .ok s) :
    ((∀ o, (s.table.filter (fun e => e.obj = o)).length ≤ 1) ∧ (∀ v, (s.table.filter (fun e => e.vid = v)).length ≤ 1)) ∧
    (∀ r1 ∈ snapRefs s, ∀ r2 ∈ snapRefs s, (r1.1 = r2.1 ↔ r1.2 = r2.2)) ∧
    (∀ r ∈ snapRefs s, r.2 ∈ s.table.map (·.vid) ∨ r.1 ∈ localsOf a.frames) := by
  obtain ⟨c, f, hcov⟩ := deferred2_facts h
  have tp := f.inv.tpair
  refine ⟨⟨?_, ?_⟩, ?_, ?_⟩
  · intro o
    apply filter_length_le_one
    refine tp.imp ?_
    intro x y hxy hp
    simp only [decide_eq_true_eq] at hp
    exact hxy.1 (hp.1.trans hp.2.symm)
  · intro v
    apply filter_length_le_one
    refine tp.imp ?_
    intro x y hxy hp
    simp only [decide_eq_true_eq] at hp
    exact hxy.2 (hp.1.trans hp.2.symm)
  · intro r1 h1 r2 h2
    have m1 := mem_snapRefs f r1 h1
    have m2 := mem_snapRefs f r2 h2
    exact ⟨fun e => f.inv.cok.id_inj (o := r1.1) m1 (by rw [e]; exact m2),
           fun e => f.inv.cok.obj_inj (v := r1.2) m1 (by rw [e]; exact m2)⟩
  · intro r hr
    exact hcov r (mem_snapRefs f r hr)

/-- non-vacuity: `a = []; a.append(a); b = "hello world"`, the line returns `a`: the captured value reuses id 2 of the local -/
example : (match deferredSnapshot Ex.selfList ⟨⟨40, 1024, 10, 5⟩, Ex.frame0, []⟩ "return" 1 with
    | .ok s => (s.table.map (·.vid), s.watches.map (·.vid)) | .failed _ => ([], [])) = ([2, 3], [some 2]) := by decide

/-! ### cycles -/

/-- **back reference** — when the node at the head of the work list is an object that already has an id (it closes a
    cycle, or is reached a second time), the step attaches a reference with that id to the parent entry and nothing
    else: no new id, no new entry, no children queued. -/
theorem c07_back_reference (H : Heap) (L : Limits) (s : BState) (n : Node) (rest : List Node) (id : Nat)
    (hf : s.final = false) (hq : s.queue = n :: rest) (hb : budgetOk L s.cache = true)
    (hl : lookupId s.cache n.obj = some id) :
    (step H L s).cache = s.cache ∧ (step H L s).table.map (·.vid) = s.table.map (·.vid) ∧
    (step H L s).queue = rest ∧
    (∀ p, n.parent = some p → (step H L s).table = addChild p ⟨id, n.name, varModifiers n.name, n.orig, n.obj⟩ s.table) := by
  have hp : pop s.queue = some (n, rest) := by
    rw [hq]; unfold pop; rw [queueEnd_front]; rfl
  have hs : step H L s = attach n.parent (mkRef n id) { s with queue := rest, popped := s.popped ++ [n] } := by
    unfold step
    simp [hf, hp, hb, hl]
  rw [hs]
  refine ⟨by simp, by simp [attach_vids], by simp, ?_⟩
  intro p hpar
  simp [attach, hpar, mkRef]

/-- **cycles terminate** — (= `C05.c05_terminates`) the search of a cyclic heap ends like any other -/
theorem c07_cycles_terminate (H : Heap) (L : Limits) (s : BState) : ∃ n, (run H L n s).final = true :=
  ⟨fuelBound H L s, runToEnd_final H L s⟩

/-- non-vacuity: `a = []; a.append(a); b = "hello world"` with watches `a` (already in the frame) and `b`: the list is
    recorded once (id 2), its element 0 is a back reference to id 2, both watches reuse the ids of the locals, and the
    snapshot satisfies the hypotheses of `c07_closed_partial`. -/
example : (match collect Ex.selfList ⟨⟨40, 1024, 10, 5⟩, Ex.frame0, [⟨.watch, "a", 1⟩, ⟨.watch, "b", 2⟩]⟩ with
    | .ok s => (s.table.map (fun e => (e.vid, e.children.map (·.vid))), s.watches.map (·.vid), snapRefs s)
    | .failed _ => ([], [], [])) =
    ([(2, [2]), (3, [])], [some 2, some 3], [(1, 2), (2, 3), (1, 2), (1, 2), (2, 3)]) := by decide

example : Benign Ex.selfList := benign_all _
example : NoRef Ex.selfList (localsOf Ex.frame0) := by
  intro (i : Nat) x hx
  have : i = 0 ∨ i = 1 ∨ i = 2 ∨ 3 ≤ i := by omega
  rcases this with rfl | rfl | rfl | h3
  · revert x; decide
  · revert x; decide
  · revert x; decide
  · have : Ex.selfList.obj i = PyObj.inert := by
      unfold Heap.obj
      have hl : Ex.selfList.objs.length = 3 := rfl
      have : Ex.selfList.objs[i]? = none := List.getElem?_eq_none (by rw [hl]; exact h3)
      simp [this]
    rw [this] at hx
    simp [kidObjs, PyObj.inert, probeObjs, probeItems] at hx

end C07
