/-
  C12 — Installed tracepoints converge to the service's latest configuration.

  The theorems are about `ConfigSvc.run`, whose transitions are the regenerated translations of
  `TracepointConfigService.update_no_change / update_new_config / __trigger_update / update_listeners / add_custom /
  remove_custom`, `LongPoll.poll`'s dispatch, `TriggerHandler.new_config`, and the extracted facts
  `applyLocked` (update_listeners works under the update lock), `skipsUninterpretable` (convert_response),
  `timerCatchesException`, `intervalCoerced` (RepeatedTimer) — all as they are in /repo *now*.

  Quantifiers: every op sequence — poll responses (UPDATE / NO_CHANGE / any other type / malformed), failed polls,
  register / unregister, and the four atomic regions of every background apply task (`taskStart` = the statements
  before the update lock, `taskRead` = lock + the statements before the listener loop, `taskCall`, `taskInstall`)
  placed anywhere, in any order, for any number of workers (an index that names no task is a no-op, a read that
  would need the lock while it is taken does not happen).  `refRun` is the reference kept from the statement: the
  latest configuration received and the live registrations.  No bound anywhere.

  Outside the model (disclosed): the shutdown window.  `__trigger_update` always submits; after `TaskHandler.flush()`
  has closed the handler `submit_task` raises IllegalStateException (a BaseException) out of `update_new_config` /
  `add_custom` / `remove_custom` AFTER the hash / configuration / registration was stored, so between `flush()` and
  the end of `Deep.shutdown()` a poll answer or a register call can leave the stored state ahead of what is
  installed (and kills the poll timer, which only survives `Exception`).  The theorems speak about the agent while
  its task handler accepts work.
-/
import DeepModel.Proofs.ConfigSvc

namespace C12
open ConfigSvc Extracted.ConfigSvc

/-- **convergence** — whenever nothing is in flight (no apply task waiting, none standing before the lock, none
    between its read and its install), what the handler acts on is exactly the latest configuration the service sent (its interpretable
    tracepoints) followed by the live registrations — never an older configuration. -/
theorem c12_converges (ops : List Op) (hq : quiescent (run ops) = true) :
    (run ops).h.installed = (refRun ops).expected := by
  have r := rel_run ops
  simp only [quiescent, Bool.and_eq_true, List.isEmpty_iff] at hq
  rcases r.settled.2 with h | h | ⟨l, v, h, _⟩ | ⟨l, h⟩ | h
  · exact absurd hq.1.1 h
  · exact absurd hq.1.2 h
  · rw [hq.2] at h; simp at h
  · rw [hq.2] at h; simp at h
  · rw [h.2, r.polled, Ref.expected, ← r.live]
    show _ = _ ++ ((run ops).svc.customIds.zip (run ops).svc.custom).map (·.2)
    rw [map_snd_regs _ r.wf]

/-- the reference's "latest" really is the last update: after an UPDATE answer and any further ops that are not
    themselves UPDATE answers, the latest configuration is that update's — its tracepoints minus those the agent
    cannot convert or interpret (which `convert_response` skips). -/
theorem c12_latest_is_last_update (ops ops' : List Op) (ts : Int) (h : String) (tps : List RawTp)
    (hno : ∀ op ∈ ops', ∀ ts' h' tps', op ≠ .poll .update ts' h' tps') :
    (refRun (ops ++ .pollUpdate ts h tps :: ops')).latest =
      some (h, (tps.filter (fun t => t.convertible && t.interpretable)).map (·.trig)) := by
  have key : ∀ (ops' : List Op) (r : Ref),
      (∀ op ∈ ops', ∀ ts' h' tps', op ≠ .poll .update ts' h' tps') →
      (ops'.foldl refStep r).latest = r.latest := by
    intro ops'
    induction ops' with
    | nil => intro r _; rfl
    | cons op rest ih =>
      intro r hno
      simp only [List.foldl_cons]
      rw [ih _ (fun o ho => hno o (List.mem_cons_of_mem _ ho))]
      cases op with
      | poll rt ts' h' tps' =>
        cases rt with
        | noChange => rfl
        | other => rfl
        | update => exact absurd rfl (hno _ (List.mem_cons_self ..) ts' h' tps')
      | _ => rfl
  simp only [refRun, List.foldl_append, List.foldl_cons]
  rw [key ops' _ hno]
  simp [refStep]

/-- **hash** — the hash the next poll reports is the hash of the latest configuration received (nothing, before
    the first one), the agent holds that configuration, and either it is what is installed (with the live
    registrations) or a task that will install it is still in flight. -/
theorem c12_hash (ops : List Op) :
    requestHash (run ops).svc = (refRun ops).hash ∧
    (run ops).svc.polled = (refRun ops).config ∧
    ((run ops).h.installed = (refRun ops).expected ∨ quiescent (run ops) = false) := by
  have r := rel_run ops
  refine ⟨r.hash, r.polled, ?_⟩
  cases hq : quiescent (run ops) with
  | true => exact Or.inl (c12_converges ops hq)
  | false => exact Or.inr rfl

/-- the reported hash was really received: some update in the history carried it. -/
theorem c12_hash_received (ops : List Op) (h : String) (hh : (refRun ops).hash = some h) :
    ∃ ts tps, Op.poll .update ts h tps ∈ ops := by
  have key : ∀ (ops : List Op) (r : Ref), (ops.foldl refStep r).hash = some h →
      r.hash = some h ∨ ∃ ts tps, Op.poll .update ts h tps ∈ ops := by
    intro ops
    induction ops with
    | nil => intro r hr; exact Or.inl hr
    | cons op rest ih =>
      intro r hr
      simp only [List.foldl_cons] at hr
      rcases ih _ hr with h1 | ⟨ts, tps, hm⟩
      · cases op with
        | poll rt ts' h' tps' =>
          cases rt with
          | noChange => exact Or.inl h1
          | other => exact Or.inl h1
          | update =>
            simp only [refStep, Ref.hash, Option.map_some, Option.some.injEq] at h1
            subst h1
            exact Or.inr ⟨ts', tps', List.mem_cons_self ..⟩
        | _ => exact Or.inl h1
      · exact Or.inr ⟨ts, tps, List.mem_cons_of_mem _ hm⟩
  rcases key ops Ref.init hh with h0 | h1
  · simp [Ref.init, Ref.hash] at h0
  · exact h1

/-- tripwire: **no change is inert** — a NO_CHANGE answer only records the poll time stamp: hash, polled configuration,
    registrations, queued tasks, values held, installed tracepoints and the timer are the same (in any state). -/
theorem c12_nochange_inert (locked : Bool) (s : St) (r : Ref) (ts : Int) (h : String) (tps : List RawTp) :
    step locked s (.poll .noChange ts h tps) = { s with svc := { s.svc with lastUpdate := ts } } ∧
    refStep r (.poll .noChange ts h tps) = r := ⟨rfl, rfl⟩

/-- **a failed or unintelligible poll keeps the last good configuration** — a `stub.poll` that raises an
    `Exception` (a poll that fails as a whole: connection error, garbage instead of a response), or an answer of a
    type that is neither NO_CHANGE nor UPDATE (whatever else it carries) changes nothing at all (hash,
    configuration, what is installed, tasks, timer), in any state.  (A tracepoint inside an UPDATE that cannot be
    converted is skipped, the rest of that update is applied: `c12_partial_update`.) -/
theorem c12_error_keeps (locked : Bool) (s : St) :
    step locked s .pollError = s ∧
    (∀ ts h tps, step locked s (.poll .other ts h tps) = s) :=
  ⟨pollFail_exc s, fun _ _ _ => rfl⟩

/-- an UPDATE is applied with exactly the tracepoints the agent can convert and interpret; the others are skipped
    and cost nothing else (hash taken, one apply task queued) -/
theorem c12_partial_update (locked : Bool) (s : St) (ts : Int) (h : String) (tps : List RawTp) :
    (step locked s (.poll .update ts h tps)).svc =
        updateNewConfig s.svc ts h ((tps.filter (fun t => t.convertible && t.interpretable)).map (·.trig)) ∧
      (step locked s (.poll .update ts h tps)).h = s.h ∧
      (step locked s (.poll .update ts h tps)).holding = s.holding ∧
      (step locked s (.poll .update ts h tps)).pre = s.pre ∧
      (step locked s (.poll .update ts h tps)).timerAlive = s.timerAlive := by
  have e : step locked s (.poll .update ts h tps) =
      match convertResponse tps with
      | none => pollFail s .exc
      | some cfg => { s with svc := updateNewConfig s.svc ts h cfg } := rfl
  rw [e, convertResponse_eq]
  exact ⟨rfl, rfl, rfl, rfl, rfl⟩

/-- **progress** — from wherever a history leaves the agent, the background tasks alone (no further poll, register
    or unregister) bring it to quiescence, and there it acts on the latest configuration plus the live
    registrations: the configuration whose hash it reports is installed or WILL be. -/
theorem c12_progress (ops : List Op) :
    ∃ ops', (∀ o ∈ ops', o.isTask = true) ∧ quiescent (run (ops ++ ops')) = true ∧
      (run (ops ++ ops')).h.installed = (refRun ops).expected := by
  obtain ⟨ops', ht, hq⟩ := progress (run ops) (rel_run ops).settled.1
  have e : run (ops ++ ops') = runFrom true (run ops) ops' := by
    simp [run, runFrom, List.foldl_append, applyLocked]
  refine ⟨ops', ht, by rw [e]; exact hq, ?_⟩
  rw [← refRun_tasks ops ops' ht]
  exact c12_converges (ops ++ ops') (by rw [e]; exact hq)

/-- **polling continues** — along every history in which no poll dies of a non-`Exception` `BaseException`, the
    timer thread is alive: whether POLL_TIMER was a number or a text, however many polls failed or were malformed. -/
theorem c12_polling_continues (ops : List Op) (hb : Op.pollFail .base ∉ ops) : (run ops).timerAlive = true := by
  have key : ∀ (ops : List Op) (s : St), Op.pollFail .base ∉ ops → s.timerAlive = true →
      (runFrom applyLocked s ops).timerAlive = true := by
    intro ops
    induction ops with
    | nil => intro s _ hs; exact hs
    | cons op rest ih =>
      intro s hb hs
      simp only [runFrom, List.foldl_cons]
      apply ih
      · exact fun hm => hb (List.mem_cons_of_mem _ hm)
      · cases op with
        | pollFail e =>
          cases e with
          | exc => rw [show step applyLocked s (.pollFail .exc) = s from pollFail_exc s]; exact hs
          | base => exact absurd (List.mem_cons_self ..) hb
        | poll rt ts h tps =>
          cases rt with
          | noChange => exact hs
          | other => exact hs
          | update =>
            rw [(c12_partial_update applyLocked s ts h tps).2.2.2.2]; exact hs
        | timerStart text => simp [step, hs, intervalCoerced]
        | register t => exact hs
        | registerBad => exact hs
        | unregister h => exact hs
        | taskStart i =>
          simp only [step]
          cases s.svc.queued[i]? with
          | none => exact hs
          | some t => exact hs
        | taskRead k =>
          simp only [step]
          cases s.pre[k]? with
          | none => exact hs
          | some t => dsimp only; split <;> exact hs
        | taskCall k =>
          simp only [step]
          cases s.holding[k]? with
          | none => exact hs
          | some v => dsimp only; split <;> exact hs
        | taskInstall k =>
          simp only [step]
          cases s.holding[k]? with
          | none => exact hs
          | some v => dsimp only; split <;> exact hs
        | applyTask i =>
          simp only [step]
          cases s.svc.queued[i]? with
          | none => exact hs
          | some t => dsimp only; split <;> exact hs
  exact key ops St.init hb rfl

/-- **the lock is needed** — the same machine without the update lock: two updates, the first apply task reads
    before the second update arrives and installs last: nothing is in flight and the OLD configuration is installed.
    (This is D15's second half; `applyLocked` is extracted from the source, so dropping the `with` breaks
    `c12_converges`.) -/
theorem c12_lock_needed :
    let c1 : RawTp := ⟨⟨"a.py", 1, "old"⟩, true, true⟩
    let c2 : RawTp := ⟨⟨"a.py", 2, "new"⟩, true, true⟩
    let s := runFrom false St.init [.pollUpdate 1 "h1" [c1], .taskStart 0, .taskRead 0, .pollUpdate 2 "h2" [c2],
                                    .taskStart 0, .taskRead 0, .taskCall 1, .taskInstall 1, .taskCall 0,
                                    .taskInstall 0]
    quiescent s = true ∧ s.svc.hash = some "h2" ∧ s.h.installed = [c1.trig] := by decide

/-! ### non-vacuity -/

private def t1 : RawTp := ⟨⟨"a.py", 1, "s1"⟩, true, true⟩
private def t2 : RawTp := ⟨⟨"a.py", 2, "s2"⟩, true, true⟩
private def bad : RawTp := ⟨⟨"a.py", 3, "s3"⟩, false, true⟩
private def broken : RawTp := ⟨⟨"a.py", 4, "s4"⟩, true, false⟩

/-- updates in flight applied out of order, a registration, an uninterpretable and an unconvertible tracepoint (both
    skipped), a failed poll and an answer of unknown type: settled on the last update plus the registration. -/
example :
    let ops := [Op.pollUpdate 1 "h1" [t1], .pollUpdate 2 "h2" [t2, bad], .register ⟨"b.py", 1, "w1"⟩,
                .pollUpdate 3 "h3" [t1, broken], .pollError, .pollNoChange 4, .poll .other 5 "" [],
                .taskStart 1, .taskStart 0, .taskRead 0, .taskRead 0, .taskCall 0, .taskInstall 0, .taskRead 0,
                .taskCall 0, .taskInstall 0, .applyTask 0, .applyTask 0]
    quiescent (run ops) = true ∧ (run ops).h.installed = [t1.trig, ⟨"b.py", 1, "w1"⟩] ∧
    requestHash (run ops).svc = some "h3" ∧ (refRun ops).expected = [t1.trig, ⟨"b.py", 1, "w1"⟩] := by decide

end C12
