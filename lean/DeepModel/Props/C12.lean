/-
  C12 — Installed tracepoints converge to the service's latest configuration.

  The theorems are about `ConfigSvc.run`, whose transitions are the regenerated translations of
  `TracepointConfigService.update_no_change / update_new_config / __trigger_update / update_listeners / add_custom /
  remove_custom`, `LongPoll.poll`'s dispatch, `TriggerHandler.new_config`, and the extracted facts
  `applyLocked` (update_listeners works under the update lock), `skipsUninterpretable` (convert_response),
  `timerCatchesException`, `intervalCoerced` (RepeatedTimer) — all as they are in /repo *now*.

  Quantifiers: every op sequence — poll responses (UPDATE / NO_CHANGE / any other type / malformed), failed polls,
  register / unregister, and the four atomic regions of every background apply task (`taskStart` = the statements
  before the update lock, `taskRead` = lock + the statements before the listener loop, `taskCall`, `taskInstall`)
  placed anywhere, in any order, for any number of workers (an index that names no task is a no-op, a read that
  would need the lock while it is taken does not happen).  `refRun` is the reference kept from the statement: the
  latest configuration received and the live registrations.  No bound anywhere.

  The shutdown window: `__trigger_update` always submits; after `TaskHandler.flush()` has closed the handler
  `submit_task` raises IllegalStateException (a BaseException) out of `update_new_config` / `add_custom` /
  `remove_custom` AFTER the hash / configuration / registration was stored.  The convergence theorems speak about the
  agent while its task handler accepts work; the poll-thread machine at the end of this file (`C12Timer`, built on the
  statement-by-statement translation of `LongPoll.poll` and the guard skeleton of `RepeatedTimer._target`) has the
  window inside it: `c12_tick_survives_iff` names it as one of the two outcomes that end the thread, and
  `c12_update_after_flush_kills_timer` is the witness.
-/
import DeepModel.Proofs.ConfigSvc
import DeepModel.Proofs.C12Timer

namespace C12
open ConfigSvc Extracted.ConfigSvc

/-- **convergence** — whenever nothing is in flight (no apply task waiting, none standing before the lock, none
    between its read and its install), what the handler acts on is exactly the latest configuration the service sent (its interpretable
    tracepoints) followed by the live registrations — never an older configuration. -/
theorem c12_converges (ops : List Op) (hq : quiescent (run ops) = true) :
    (run ops).h.installed = (refRun ops).expected := by
  have r := rel_run ops
  simp only [quiescent, Bool.and_eq_true, List.isEmpty_iff] at hq
  rcases r.settled.2 with h | h | ⟨l, v, h, _⟩ | ⟨l, h⟩ | h
  · exact absurd hq.1.1 h
  · exact absurd hq.1.2 h
  · rw [hq.2] at h; simp at h
  · rw [hq.2] at h; simp at h
  · rw [h.2, r.polled, Ref.expected, ← r.live]
    show _ = _ ++ ((run ops).svc.customIds.zip (run ops).svc.custom).map (·.2)
    rw [map_snd_regs _ r.wf]

/-- the reference's "latest" really is the last update: after an UPDATE answer and any further ops that are not
    themselves UPDATE answers, the latest configuration is that update's — its tracepoints minus those the agent
    cannot convert or interpret (which `convert_response` skips). -/
theorem c12_latest_is_last_update (ops ops' : List Op) (ts : Int) (h : String) (tps : List RawTp)
    (hno : ∀ op ∈ ops', ∀ ts' h' tps', op ≠ .poll .update ts' h' tps') :
    (refRun (ops ++ .pollUpdate ts h tps :: ops')).latest =
      some (h, (tps.filter (fun t => t.convertible && t.interpretable)).map (·.trig)) := by
  have key : ∀ (ops' : List Op) (r : Ref),
      (∀ op ∈ ops', ∀ ts' h' tps', op ≠ .poll .update ts' h' tps') →
      (ops'.foldl refStep r).latest = r.latest := by
    intro ops'
    induction ops' with
    | nil => intro r _; rfl
    | cons op rest ih =>
      intro r hno
      simp only [List.foldl_cons]
      rw [ih _ (fun o ho => hno o (List.mem_cons_of_mem _ ho))]
      cases op with
      | poll rt ts' h' tps' =>
        cases rt with
        | noChange => rfl
        | other => rfl
        | update => exact absurd rfl (hno _ (List.mem_cons_self ..) ts' h' tps')
      | _ => rfl
  simp only [refRun, List.foldl_append, List.foldl_cons]
  rw [key ops' _ hno]
  simp [refStep]

/-- **hash** — the hash the next poll reports is the hash of the latest configuration received (nothing, before
    the first one), the agent holds that configuration, and either it is what is installed (with the live
    registrations) or a task that will install it is still in flight. -/
theorem c12_hash (ops : List Op) :
    requestHash (run ops).svc = (refRun ops).hash ∧
    (run ops).svc.polled = (refRun ops).config ∧
    ((run ops).h.installed = (refRun ops).expected ∨ quiescent (run ops) = false) := by
  have r := rel_run ops
  refine ⟨r.hash, r.polled, ?_⟩
  cases hq : quiescent (run ops) with
  | true => exact Or.inl (c12_converges ops hq)
  | false => exact Or.inr rfl

/-- the reported hash was really received: some update in the history carried it. -/
theorem c12_hash_received (ops : List Op) (h : String) (hh : (refRun ops).hash = some h) :
    ∃ ts tps, Op.poll .update ts h tps ∈ ops := by
  have key : ∀ (ops : List Op) (r : Ref), (ops.foldl refStep r).hash = some h →
      r.hash = some h ∨ ∃ ts tps, Op.poll .update ts h tps ∈ ops := by
    intro ops
    induction ops with
    | nil => intro r hr; exact Or.inl hr
    | cons op rest ih =>
      intro r hr
      simp only [List.foldl_cons] at hr
      rcases ih _ hr with h1 | ⟨ts, tps, hm⟩
      · cases op with
        | poll rt ts' h' tps' =>
          cases rt with
          | noChange => exact Or.inl h1
          | other => exact Or.inl h1
          | update =>
            simp only [refStep, Ref.hash, Option.map_some, Option.some.injEq] at h1
            subst h1
            exact Or.inr ⟨ts', tps', List.mem_cons_self ..⟩
        | _ => exact Or.inl h1
      · exact Or.inr ⟨ts, tps, List.mem_cons_of_mem _ hm⟩
  rcases key ops Ref.init hh with h0 | h1
  · simp [Ref.init, Ref.hash] at h0
  · exact h1

/-- tripwire: **no change is inert** — a NO_CHANGE answer only records the poll time stamp: hash, polled configuration,
    registrations, queued tasks, values held, installed tracepoints and the timer are the same (in any state). -/
theorem c12_nochange_inert (locked : Bool) (s : St) (r : Ref) (ts : Int) (h : String) (tps : List RawTp) :
    step locked s (.poll .noChange ts h tps) = { s with svc := { s.svc with lastUpdate := ts } } ∧
    refStep r (.poll .noChange ts h tps) = r := ⟨rfl, rfl⟩

/-- **a failed or unintelligible poll keeps the last good configuration** — a `stub.poll` that raises an
    `Exception` (a poll that fails as a whole: connection error, garbage instead of a response), or an answer of a
    type that is neither NO_CHANGE nor UPDATE (whatever else it carries) changes nothing at all (hash,
    configuration, what is installed, tasks, timer), in any state.  (A tracepoint inside an UPDATE that cannot be
    converted is skipped, the rest of that update is applied: `c12_partial_update`.) -/
theorem c12_error_keeps (locked : Bool) (s : St) :
    step locked s .pollError = s ∧
    (∀ ts h tps, step locked s (.poll .other ts h tps) = s) :=
  ⟨pollFail_exc s, fun _ _ _ => rfl⟩

/-- an UPDATE is applied with exactly the tracepoints the agent can convert and interpret; the others are skipped
    and cost nothing else (hash taken, one apply task queued) -/
theorem c12_partial_update (locked : Bool) (s : St) (ts : Int) (h : String) (tps : List RawTp) :
    (step locked s (.poll .update ts h tps)).svc =
        updateNewConfig s.svc ts h ((tps.filter (fun t => t.convertible && t.interpretable)).map (·.trig)) ∧
      (step locked s (.poll .update ts h tps)).h = s.h ∧
      (step locked s (.poll .update ts h tps)).holding = s.holding ∧
      (step locked s (.poll .update ts h tps)).pre = s.pre ∧
      (step locked s (.poll .update ts h tps)).timerAlive = s.timerAlive := by
  have e : step locked s (.poll .update ts h tps) =
      match convertResponse tps with
      | none => pollFail s .exc
      | some cfg => { s with svc := updateNewConfig s.svc ts h cfg } := rfl
  rw [e, convertResponse_eq]
  exact ⟨rfl, rfl, rfl, rfl, rfl⟩

/-- **progress** — from wherever a history leaves the agent, the background tasks alone (no further poll, register
    or unregister) bring it to quiescence, and there it acts on the latest configuration plus the live
    registrations: the configuration whose hash it reports is installed or WILL be. -/
theorem c12_progress (ops : List Op) :
    ∃ ops', (∀ o ∈ ops', o.isTask = true) ∧ quiescent (run (ops ++ ops')) = true ∧
      (run (ops ++ ops')).h.installed = (refRun ops).expected := by
  obtain ⟨ops', ht, hq⟩ := progress (run ops) (rel_run ops).settled.1
  have e : run (ops ++ ops') = runFrom true (run ops) ops' := by
    simp [run, runFrom, List.foldl_append, applyLocked]
  refine ⟨ops', ht, by rw [e]; exact hq, ?_⟩
  rw [← refRun_tasks ops ops' ht]
  exact c12_converges (ops ++ ops') (by rw [e]; exact hq)

/-- **polling continues** — along every history in which no poll dies of a non-`Exception` `BaseException`, the
    timer thread is alive: whether POLL_TIMER was a number or a text, however many polls failed or were malformed. -/
theorem c12_polling_continues (ops : List Op) (hb : Op.pollFail .base ∉ ops) : (run ops).timerAlive = true := by
  have key : ∀ (ops : List Op) (s : St), Op.pollFail .base ∉ ops → s.timerAlive = true →
      (runFrom applyLocked s ops).timerAlive = true := by
    intro ops
    induction ops with
    | nil => intro s _ hs; exact hs
    | cons op rest ih =>
      intro s hb hs
      simp only [runFrom, List.foldl_cons]
      apply ih
      · exact fun hm => hb (List.mem_cons_of_mem _ hm)
      · cases op with
        | pollFail e =>
          cases e with
          | exc => rw [show step applyLocked s (.pollFail .exc) = s from pollFail_exc s]; exact hs
          | base => exact absurd (List.mem_cons_self ..) hb
        | poll rt ts h tps =>
          cases rt with
          | noChange => exact hs
          | other => exact hs
          | update =>
            rw [(c12_partial_update applyLocked s ts h tps).2.2.2.2]; exact hs
        | timerStart text => simp [step, hs, intervalCoerced]
        | register t => exact hs
        | registerBad => exact hs
        | unregister h => exact hs
        | taskStart i =>
          simp only [step]
          cases s.svc.queued[i]? with
          | none => exact hs
          | some t => exact hs
        | taskRead k =>
          simp only [step]
          cases s.pre[k]? with
          | none => exact hs
          | some t => dsimp only; split <;> exact hs
        | taskCall k =>
          simp only [step]
          cases s.holding[k]? with
          | none => exact hs
          | some v => dsimp only; split <;> exact hs
        | taskInstall k =>
          simp only [step]
          cases s.holding[k]? with
          | none => exact hs
          | some v => dsimp only; split <;> exact hs
        | applyTask i =>
          simp only [step]
          cases s.svc.queued[i]? with
          | none => exact hs
          | some t => dsimp only; split <;> exact hs
  exact key ops St.init hb rfl

/-- **the lock is needed** — the same machine without the update lock: two updates, the first apply task reads
    before the second update arrives and installs last: nothing is in flight and the OLD configuration is installed.
    (This is D15's second half; `applyLocked` is extracted from the source, so dropping the `with` breaks
    `c12_converges`.) -/
theorem c12_lock_needed :
    let c1 : RawTp := ⟨⟨"a.py", 1, "old"⟩, true, true⟩
    let c2 : RawTp := ⟨⟨"a.py", 2, "new"⟩, true, true⟩
    let s := runFrom false St.init [.pollUpdate 1 "h1" [c1], .taskStart 0, .taskRead 0, .pollUpdate 2 "h2" [c2],
                                    .taskStart 0, .taskRead 0, .taskCall 1, .taskInstall 1, .taskCall 0,
                                    .taskInstall 0]
    quiescent s = true ∧ s.svc.hash = some "h2" ∧ s.h.installed = [c1.trig] := by decide

/-! ## the poll thread: `RepeatedTimer._target` running `LongPoll.poll`

  `C12Timer.runPT evs` (Model/C12Timer.lean): `tick out tps` = one pass of the timer loop (the wait timed out, the
  function — the statement-by-statement translation `pollOnce` of `LongPoll.poll` — runs against a stub that raises
  either class, hands back garbage, or answers with any type and any payload), `stop` = `LongPoll.shutdown()`,
  `flush` = `TaskHandler.flush()` closing the handler the apply tasks go to.  Every list is a history. -/

section PollThread
open C12Timer

/-- **which poll outcome ends the thread** — PREMISE (in the event itself): a `tick` is a pass whose loop test
    `event.wait(self._time)` returned — `_time` / `wait` did not raise; with an unusable interval they do, outside the
    `try`, and the thread ends of an `Exception` (`testFails`, witness `c12_interval_unusable_kills`).  Given that, a live
    poll thread is alive after the pass UNLESS a `BaseException` that is not an `Exception` came out of the stub or out
    of what `poll` evaluates before the send (`grpc.metadata()`, the request), or the answer was an UPDATE while the
    task handler was already closed (`submit_task` refuses with `IllegalStateException`, a `BaseException`); every
    other outcome — answer of any type and payload, an unconvertible payload, garbage, any `Exception` anywhere —
    leaves it polling.  A request carrying the current hash reaches the stub exactly when nothing failed before the
    send (`sendsRequest`): a failure of `grpc.metadata()` makes a pass without a request. -/
theorem c12_tick_survives_iff (s : PT) (ha : s.alive = true) (hs : s.stopped = false) (out : StubOut)
    (tps : List RawTp) :
    ((stepPT s (.tick out tps)).alive = true ↔ ¬ Kills s.th.isOpen out) ∧
    (stepPT s (.tick out tps)).issued = s.issued + (if out.sendsRequest then 1 else 0) ∧
    (stepPT s (.tick out tps)).sent = s.sent ++ (if out.sendsRequest then [requestHash s.svc] else []) := by
  refine ⟨?_, (tick_live s ha hs out tps).1, (tick_live s ha hs out tps).2.1⟩
  rw [tick_alive s ha hs out tps, convertResponse_eq]
  unfold Kills
  cases ho : s.th.isOpen with
  | true =>
    rw [refusal_open _ ho]
    cases out with
    | beforeSend e => cases e <;> simp [pollOnce, fact_catchesExc, fact_catchesBase]
    | raises e => cases e <;> simp [pollOnce, fact_catchesExc, fact_catchesBase]
    | garbage => simp [pollOnce, fact_catchesExc]
    | answer rt ts h =>
      cases rt <;> simp [pollOnce, fact_catchesExc, updateNewConfigE, triggerUpdateE]
  | false =>
    rw [refusal_closed _ ho]
    cases out with
    | beforeSend e => cases e <;> simp [pollOnce, fact_catchesExc, fact_catchesBase]
    | raises e => cases e <;> simp [pollOnce, fact_catchesExc, fact_catchesBase]
    | garbage => simp [pollOnce, fact_catchesExc]
    | answer rt ts h =>
      cases rt <;> simp [pollOnce, fact_catchesExc, fact_catchesBase, updateNewConfigE, triggerUpdateE]

/-- no non-`Exception` `BaseException` comes out of the stub or of what is evaluated before the send -/
def NoBase (ticks : List (StubOut × List RawTp)) : Prop :=
  ∀ t ∈ ticks, t.1 ≠ .raises .base ∧ t.1 ≠ .beforeSend .base

private theorem ticks_key (ticks : List (StubOut × List RawTp)) : ∀ (s : PT), NoBase ticks →
    s.alive = true → s.stopped = false → s.th.isOpen = true →
    (runPTFrom s (ticks.map fun t => .tick t.1 t.2)).alive = true ∧
    (runPTFrom s (ticks.map fun t => .tick t.1 t.2)).issued =
      s.issued + (ticks.filter (·.1.sendsRequest)).length ∧
    (runPTFrom s (ticks.map fun t => .tick t.1 t.2)).sent.length =
      s.sent.length + (ticks.filter (·.1.sendsRequest)).length ∧
    (runPTFrom s (ticks.map fun t => .tick t.1 t.2)).died = s.died ∧
    (runPTFrom s (ticks.map fun t => .tick t.1 t.2)).th = s.th ∧
    (runPTFrom s (ticks.map fun t => .tick t.1 t.2)).stopped = false := by
  induction ticks with
  | nil => intro s _ ha hs _; exact ⟨ha, by simp [runPTFrom], by simp [runPTFrom], rfl, rfl, hs⟩
  | cons t rest ih =>
    intro s hb ha hs ho
    have hl := tick_live s ha hs t.1 t.2
    have hnk : ¬ Kills s.th.isOpen t.1 := by
      rintro (h | h | ⟨h, _⟩)
      · exact (hb t (List.mem_cons_self ..)).1 h
      · exact (hb t (List.mem_cons_self ..)).2 h
      · rw [ho] at h; cases h
    have hal := (c12_tick_survives_iff s ha hs t.1 t.2).1.2 hnk
    have hd : (stepPT s (.tick t.1 t.2)).died = s.died := by
      rw [tick_died s ha hs]
      have hal' := hal
      rw [tick_alive s ha hs] at hal'
      cases hr : (pollOnce s.svc (refusal s.th) t.1 (convertResponse t.2)).2 with
      | none => rfl
      | some e => rw [hr] at hal'; simp only at hal' ⊢; simp [hal']
    have := ih (stepPT s (.tick t.1 t.2)) (fun u hu => hb u (List.mem_cons_of_mem _ hu)) hal hl.2.2.1
      (by rw [hl.2.2.2.1]; exact ho)
    simp only [List.map_cons, runPTFrom, List.foldl_cons]
    simp only [runPTFrom] at this
    refine ⟨this.1, ?_, ?_, ?_, ?_, this.2.2.2.2.2⟩
    · rw [this.2.1, hl.1]; cases hq : t.1.sendsRequest <;> simp [List.filter_cons, hq]; omega
    · rw [this.2.2.1, hl.2.1]; cases hq : t.1.sendsRequest <;> simp [List.filter_cons, hq]; omega
    · rw [this.2.2.2.1, hd]
    · rw [this.2.2.2.2.1, hl.2.2.2.1]

/-- **polling continues, and the next poll is issued** — for every sequence of passes (each a `tick`: the loop test
    returned, so the interval is usable by construction of the event) in which no non-`Exception` `BaseException` is
    thrown into the poll (`NoBase`), while the task handler accepts work: the thread is alive after all of them, nothing
    ended it, and it made exactly one request per pass in which nothing failed before the send.  (The inline first poll
    of `LongPoll.start`, made on the caller's thread before the thread exists, is not part of this machine.) -/
theorem c12_timer_issues_every_poll (ticks : List (StubOut × List RawTp)) (hb : NoBase ticks) :
    (runPT (ticks.map fun t => .tick t.1 t.2)).alive = true ∧
    (runPT (ticks.map fun t => .tick t.1 t.2)).issued = (ticks.filter (·.1.sendsRequest)).length ∧
    (runPT (ticks.map fun t => .tick t.1 t.2)).sent.length = (ticks.filter (·.1.sendsRequest)).length ∧
    (runPT (ticks.map fun t => .tick t.1 t.2)).died = none := by
  have := ticks_key ticks PT.init hb rfl rfl rfl
  exact ⟨this.1, by simpa [runPT, PT.init] using this.2.1, by simpa [runPT, PT.init] using this.2.2.1,
    by simpa [runPT, PT.init] using this.2.2.2.1⟩

/-- one step: the hand-written poll of the configuration machine IS the translated one: while the task handler accepts
    work, a tick of the poll thread changes the configuration service exactly as `ConfigSvc.step` does for the op it
    stands for, and the thread survives exactly when that machine's timer does. -/
theorem c12_poll_thread_refines (locked : Bool) (s : PT) (c : St) (ha : s.alive = true) (hs : s.stopped = false)
    (ho : s.th.isOpen = true) (hsvc : c.svc = s.svc) (hal : c.timerAlive = true) (out : StubOut)
    (tps : List RawTp) :
    (ConfigSvc.step locked c (Ev.toOp out tps)).svc = (stepPT s (.tick out tps)).svc ∧
    (ConfigSvc.step locked c (Ev.toOp out tps)).timerAlive = (stepPT s (.tick out tps)).alive := by
  rw [(tick_live s ha hs out tps).2.2.2.2, tick_alive s ha hs out tps, refusal_open _ ho, ← hsvc]
  cases out with
  | beforeSend e =>
    cases e <;> simp [Ev.toOp, ConfigSvc.step, ConfigSvc.pollFail, pollOnce, hal, timerCatches, fact_catchesExc,
      fact_catchesBase, timerCatchesException, timerCatchesBase]
  | raises e =>
    cases e <;> simp [Ev.toOp, ConfigSvc.step, ConfigSvc.pollFail, pollOnce, hal, timerCatches, fact_catchesExc,
      fact_catchesBase, timerCatchesException, timerCatchesBase]
  | garbage =>
    simp [Ev.toOp, ConfigSvc.step, ConfigSvc.pollFail, pollOnce, hal, timerCatches, fact_catchesExc,
      timerCatchesException]
  | answer rt ts h =>
    cases rt with
    | noChange => simp [Ev.toOp, ConfigSvc.step, pollResp, pollNeedsConfig, pollDispatch, pollOnce, hal]
    | other => simp [Ev.toOp, ConfigSvc.step, pollResp, pollNeedsConfig, pollDispatch, pollOnce, hal]
    | update =>
      simp only [Ev.toOp, ConfigSvc.step, pollResp, pollNeedsConfig]
      cases convertResponse tps with
      | none =>
        simp [ConfigSvc.pollFail, pollOnce, hal, timerCatches, fact_catchesExc, timerCatchesException]
      | some cfg => simp [pollDispatch, pollOnce, hal, updateNewConfigE, triggerUpdateE, updateNewConfig_split]

/-- **iterated: the thread simulates the configuration machine** — for every sequence of passes without a
    non-`Exception` `BaseException`, with the handler open, the poll thread leaves the configuration service in exactly
    the state `ConfigSvc.run` reaches on the ops the passes stand for, and both timers are alive.  Hence the hash its
    NEXT request carries and the configuration it holds are the reference's (`c12_hash` applied to that run): the
    convergence theorems speak about what the thread does — proved, not said.  (Apply tasks placed between the polls
    touch `queued` / the handler only; the fields the polls read and write — hash, polled configuration — are the
    same with and without them: `c12_hash` holds for every op list.) -/
theorem c12_poll_thread_simulates (ticks : List (StubOut × List RawTp)) (hb : NoBase ticks) :
    (runPT (ticks.map fun t => .tick t.1 t.2)).svc = (ConfigSvc.run (ticks.map fun t => Ev.toOp t.1 t.2)).svc ∧
    (ConfigSvc.run (ticks.map fun t => Ev.toOp t.1 t.2)).timerAlive = true ∧
    requestHash (runPT (ticks.map fun t => .tick t.1 t.2)).svc =
      (refRun (ticks.map fun t => Ev.toOp t.1 t.2)).hash ∧
    (runPT (ticks.map fun t => .tick t.1 t.2)).svc.polled = (refRun (ticks.map fun t => Ev.toOp t.1 t.2)).config := by
  have key : ∀ (ticks : List (StubOut × List RawTp)) (s : PT) (c : St), NoBase ticks →
      s.alive = true → s.stopped = false → s.th.isOpen = true → c.svc = s.svc → c.timerAlive = true →
      (runPTFrom s (ticks.map fun t => .tick t.1 t.2)).svc =
        (ConfigSvc.runFrom applyLocked c (ticks.map fun t => Ev.toOp t.1 t.2)).svc ∧
      (ConfigSvc.runFrom applyLocked c (ticks.map fun t => Ev.toOp t.1 t.2)).timerAlive = true := by
    intro ticks
    induction ticks with
    | nil => intro s c _ _ _ _ hsvc hal; exact ⟨hsvc.symm, hal⟩
    | cons t rest ih =>
      intro s c hb ha hs ho hsvc hal
      have r := c12_poll_thread_refines applyLocked s c ha hs ho hsvc hal t.1 t.2
      have hnk : ¬ Kills s.th.isOpen t.1 := by
        rintro (h | h | ⟨h, _⟩)
        · exact (hb t (List.mem_cons_self ..)).1 h
        · exact (hb t (List.mem_cons_self ..)).2 h
        · rw [ho] at h; cases h
      have hal' := (c12_tick_survives_iff s ha hs t.1 t.2).1.2 hnk
      have hl := tick_live s ha hs t.1 t.2
      simp only [List.map_cons, runPTFrom, ConfigSvc.runFrom, List.foldl_cons]
      exact ih _ _ (fun u hu => hb u (List.mem_cons_of_mem _ hu)) hal' hl.2.2.1 (by rw [hl.2.2.2.1]; exact ho)
        r.1 (by rw [r.2]; exact hal')
  have k := key ticks PT.init St.init hb rfl rfl rfl rfl rfl
  have e : runPT (ticks.map fun t => .tick t.1 t.2) = runPTFrom PT.init (ticks.map fun t => .tick t.1 t.2) := rfl
  have e2 : ConfigSvc.run (ticks.map fun t => Ev.toOp t.1 t.2) =
      ConfigSvc.runFrom applyLocked St.init (ticks.map fun t => Ev.toOp t.1 t.2) := rfl
  have hh := c12_hash (ticks.map fun t => Ev.toOp t.1 t.2)
  refine ⟨by rw [e, e2]; exact k.1, by rw [e2]; exact k.2, ?_, ?_⟩
  · rw [e, k.1, ← e2]; exact hh.1
  · rw [e, k.1, ← e2]; exact hh.2.1

/-- **shutdown stops the polling** — after `LongPoll.shutdown()` has RETURNED (`stop()` sets the event and joins: a poll
    in flight finishes during the join — the join has no timeout, a hanging long poll hangs shutdown) no further poll is
    issued and the stored configuration is never touched again, whatever comes.  (The first conjunct is the definition
    of the `stop` event; the content is in the other two.) -/
theorem c12_stop_ends_polling (evs evs' : List Ev) :
    (runPT (evs ++ .stop :: evs')).alive = false ∧ (runPT (evs ++ .stop :: evs')).issued = (runPT evs).issued ∧
    (runPT (evs ++ .stop :: evs')).svc.hash = (runPT evs).svc.hash := by
  have e : runPT (evs ++ .stop :: evs') = runPTFrom (stepPT (runPT evs) .stop) evs' := by
    simp [runPT, runPTFrom, List.foldl_append]
  rw [e]
  have h := alive_false_stays evs' (stepPT (runPT evs) .stop) (by rw [step_stop])
  rw [step_stop] at h
  exact ⟨h.1, h.2.1, h.2.2.2.1⟩

/-- with a usable interval (`IntervalUsable`: the loop test never raises — named hypothesis, needed: see
    `c12_interval_unusable_kills`), the only exception that ever ends the thread is a `BaseException` that is not an
    `Exception`, leaving the timer's function (`LongPoll.poll`). -/
theorem c12_timer_dies_only_of_base (evs : List Ev) (hu : IntervalUsable evs) (e : Py.Exn)
    (h : (runPT evs).died = some e) : e = .base := by
  have key : ∀ (evs : List Ev) (s : PT), Ev.testFails ∉ evs → (∀ e, s.died = some e → e = .base) →
      ∀ e, (runPTFrom s evs).died = some e → e = .base := by
    intro evs
    induction evs with
    | nil => intro s _ hs; exact hs
    | cons ev rest ih =>
      intro s hu hs
      simp only [runPTFrom, List.foldl_cons]
      apply ih _ (fun hm => hu (List.mem_cons_of_mem _ hm))
      cases ev with
      | stop => rw [step_stop]; exact hs
      | flush => exact hs
      | testFails => exact absurd (List.mem_cons_self ..) hu
      | tick out tps =>
        by_cases hrun : s.alive = true ∧ s.stopped = false
        · intro e he
          rw [tick_died s hrun.1 hrun.2] at he
          cases hr : (pollOnce s.svc (refusal s.th) out (convertResponse tps)).2 with
          | none => rw [hr] at he; exact hs e he
          | some e' =>
            rw [hr] at he
            simp only at he
            split at he
            · exact hs e he
            · rename_i hc
              cases Option.some.inj he
              cases e with
              | exc => exact absurd fact_catchesExc hc
              | base => rfl
        · rw [tick_idle s (by
            cases ha : s.alive <;> cases hst : s.stopped <;> simp_all)]
          exact hs
  exact key evs PT.init hu (by simp [PT.init]) e h

/-- witness that `IntervalUsable` is needed (POLL_TIMER = 0: `_time` raises ZeroDivisionError; 'inf': `Event.wait`
    raises OverflowError — both `Exception`s, both in the loop test, outside the `try`): the thread ends of an
    `Exception` before its first pass, no request is ever made, later passes do not exist. -/
theorem c12_interval_unusable_kills :
    let t : RawTp := ⟨⟨"a.py", 1, "s1"⟩, true, true⟩
    let s := runPT [.testFails, .tick (.answer .update 1 "h1") [t]]
    s.alive = false ∧ s.died = some .exc ∧ s.issued = 0 ∧ s.svc.hash = none := by decide

/-- the guard skeleton of `_target` itself (regenerated): with `_time` and `event.wait` taken as not raising (trusted:
    the interval is coerced and not zero), no placement of `Exception`-class faults, in any number of passes, makes
    the thread's target raise. -/
theorem c12_timer_skeleton_contains_exceptions (env : Guard.Env) (hf : Guard.FaultsIn Guard.RaiseSet.onlyExc env)
    (tr : Guard.Trace) :
    ∀ e tr', Guard.exec env (Tasks.assumePure ["prop:self._time", "self.event.wait"] timerSkeleton) tr ≠
      (.raised e, tr') :=
  Guard.guard_sound_for Guard.RaiseSet.onlyExc _ (by decide) env hf tr

/-- witness (the shutdown window, `Deep.shutdown` flushes the task handler BEFORE it stops the poll timer): an UPDATE
    answered between the two is stored — hash and configuration — but its apply task is refused, the exception is a
    `BaseException`, the poll thread dies of it, and nothing will install the stored configuration. -/
theorem c12_update_after_flush_kills_timer :
    let t : RawTp := ⟨⟨"a.py", 1, "s1"⟩, true, true⟩
    let s := runPT [.tick (.answer .update 1 "h1") [t], .flush, .tick (.answer .update 2 "h2") [t],
                           .tick (.answer .noChange 3 "") []]
    s.alive = false ∧ s.died = some .base ∧ s.issued = 2 ∧ s.svc.hash = some "h2" ∧ s.svc.queued = [] := by decide

/-- non-vacuity: failures of every kind, then an update; stop; a tick after stop does nothing -/
example :
    let t : RawTp := ⟨⟨"a.py", 1, "s1"⟩, true, true⟩
    let bad : RawTp := ⟨⟨"a.py", 2, "s2"⟩, true, false⟩
    let s := runPT [.tick (.raises .exc) [], .tick .garbage [], .tick (.answer .other 5 "x") [t],
                           .tick (.answer .update 1 "h1") [t, bad], .tick (.answer .noChange 2 "") [], .stop,
                           .tick (.answer .update 3 "h3") []]
    s.issued = 5 ∧ s.sent = [none, none, none, none, some "h1"] ∧ s.svc.hash = some "h1" ∧ s.died = none ∧
    s.svc.polled = [t.trig] := by decide

end PollThread

/-! ### non-vacuity -/

private def t1 : RawTp := ⟨⟨"a.py", 1, "s1"⟩, true, true⟩
private def t2 : RawTp := ⟨⟨"a.py", 2, "s2"⟩, true, true⟩
private def bad : RawTp := ⟨⟨"a.py", 3, "s3"⟩, false, true⟩
private def broken : RawTp := ⟨⟨"a.py", 4, "s4"⟩, true, false⟩

/-- updates in flight applied out of order, a registration, an uninterpretable and an unconvertible tracepoint (both
    skipped), a failed poll and an answer of unknown type: settled on the last update plus the registration. -/
example :
    let ops := [Op.pollUpdate 1 "h1" [t1], .pollUpdate 2 "h2" [t2, bad], .register ⟨"b.py", 1, "w1"⟩,
                .pollUpdate 3 "h3" [t1, broken], .pollError, .pollNoChange 4, .poll .other 5 "" [],
                .taskStart 1, .taskStart 0, .taskRead 0, .taskRead 0, .taskCall 0, .taskInstall 0, .taskRead 0,
                .taskCall 0, .taskInstall 0, .applyTask 0, .applyTask 0]
    quiescent (run ops) = true ∧ (run ops).h.installed = [t1.trig, ⟨"b.py", 1, "w1"⟩] ∧
    requestHash (run ops).svc = some "h3" ∧ (refRun ops).expected = [t1.trig, ⟨"b.py", 1, "w1"⟩] := by decide

end C12
