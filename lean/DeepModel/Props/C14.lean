/-
  C14 — Lifecycle: hooks installed once, restored exactly; shutdown always completes; quiet afterwards.

  Two layers, both tied to /repo's current source:
  * `Lifecycle.*` (Model/Lifecycle.lean): `start`/`shutdown`/config updates/poll ticks as a state machine whose
    hook handling is `Extracted.TH.thStart / thShutdown / thNewConfig` — the bodies of `TriggerHandler.start /
    shutdown / new_config` *translated* from the source this run — and whose reaction to failures is switched by
    facts computed from the extracted guard skeletons (`Lifecycle.facts`).
  * `Lifecycle.startX / shutdownX` (Model/LifecyclePlan.lean): `Deep.start` / `Deep.shutdown` TRANSLATED statement by
    statement (`Extracted.DeepLC.startPlan / shutdownPlan`, one entry per source statement) and run by a generic
    interpreter.  Tie lemmas: same resulting state as the machine above (`c14_start_translated`,
    `c14_shutdown_translated_partial` — sees only statements that touch the modelled state) and same effect TRACE as the
    specified call order (`c14_start_trace`, `c14_shutdown_trace_partial` — sees every statement and its position: a
    dropped / added / moved statement of either method breaks this obligation).  `_partial` = plugins whose `shutdown`
    attribute can be read (otherwise: witness + known finding).  The driver runs the translated ones.
  * `Guard.exec` on the skeletons of `Deep.start`, `Deep.shutdown`, `TaskHandler.flush`, `RepeatedTimer._target`.
  Quantifiers: every sequence of operations `ops : List Op` (start, shutdown with ANY fault assignment, config
  update, failing/non-failing poll tick), every pair of pre-existing trace functions `h1 h2` (none, a host
  function, …), NO_TRACE on or off, every set of plugins and pending sends; for the skeleton theorems every
  environment (fault placement of either class, loop lengths, branch decisions).  No bounds.
  Modelled, not proved: `sys.settrace` is a plain assignment of the CALLING thread's slot (`World.sysHook` = the slot
  of the thread that calls `start`/`shutdown`; `Lifecycle.MT` has one slot per thread), `threading.settrace` of one
  process-wide slot; the host does not change the trace functions itself between `start` and `shutdown`;
  `Thread.join` returns once `_target` ends.
  Limits, stated here rather than hidden in the model:
  * "restored exactly" holds for the thread that called BOTH `start` and `shutdown` (`c14_restore_partial`, hypothesis
    `SameThread`); with `shutdown` called on another thread it is false of the code — witness theorem
    `c14_other_thread_witness`, known finding `C14/shutdown-on-another-thread` replayed on the real code every run.
  * "drains delivery" is `TaskHandler.flush`: it waits at most 10 s per pending send and then gives up on it (known
    finding `C09/flush-gives-up-after-10s`); in the model a waited-for send is a completed send.
  * an instance that was shut down is not started again (`Deep._shutdown`); a new life needs a new `Deep`.
  * a service call of `Deep.start` that RAISES is outside the statement's quantifier; modelled (`startF`): harmless when
    it happens before `trigger_handler.start()` (`c14_failed_start_unchanged_partial`), otherwise the hooks stay
    installed with `started = False` and a retry + shutdown leaves the agent's function installed
    (`c14_failed_start_witness`, probe notes/probes/c14_failed_start_retry.py) — reported as suspicious behaviour.
  * whitelisted logging: the handler of the steps loop logs the failing step with `%s` (a bound method, i.e. the
    plugin's repr); with logging ENABLED a BaseException raised by that repr is not swallowed by `logging` and leaves
    `Deep.shutdown` (probe notes/probes/c14_shutdown_log_argument_baseexception.py) — outside the model, which treats
    the logging calls as unable to raise.
-/
import DeepModel.Proofs.Lifecycle
import DeepModel.Proofs.LifecyclePlan

namespace C14
open Lifecycle Guard Extracted.Guards

/-- obligations over the source as it is now (all decided on the regenerated skeletons) -/
theorem c14_source_facts : (stepsIsolated = true ∧ flushIsolated = true ∧ timerGuarded = true ∧
    startGuarded = true ∧ shutdownGuarded = true ∧ startedSetLast = true ∧ shutdownClearsStarted = true) ∧
    (restartRefused = true ∧ shutdownMarksShut = true) :=
  ⟨Lifecycle.facts, Lifecycle.facts2⟩

/-- **start once** — a repeated `start` does nothing. -/
theorem c14_start_once (d : Deep) : start (start d) = start d := by
  cases hs : d.started with
  | true => rw [start_started d hs, start_started d hs]
  | false =>
    cases he : d.everShut with
    | true => rw [start_refused d hs he, start_refused d hs he]
    | false => rw [start_not_started d hs he]; exact start_started _ rfl

/-- **NO_TRACE leaves the hooks untouched** — with tracing disabled by configuration, after any history the
    process's trace functions are whatever the application itself installed last (`runH`'s ghost component:
    initially the functions present before the agent existed, then each `hostSet`): the agent never wrote them. -/
theorem c14_notrace_untouched (h1 h2 : Hook) (ps pend : List Nat) (ops : List Op) :
    (run ops (init h1 h2 true ps pend)).hooks = (runH ops (init h1 h2 true ps pend, (h1, h2))).2 := by
  have hi := inv_run true ops _ (h1, h2) (inv_init h1 h2 true ps pend)
  rw [runH_fst] at hi
  exact hi.idle_hooks (hi.notrace_idle rfl)

/-- **restore exact** — after any history (starts, shutdowns with any faults, config updates, poll ticks, and the
    application changing its own trace functions while the agent is not tracing), whenever the agent is not
    started the process's trace functions are exactly the ones the application installed last — i.e. the ones
    present before the most recent start — and whenever it is started (tracing enabled) both are the agent's. -/
theorem c14_restore (h1 h2 : Hook) (nt : Bool) (ps pend : List Nat) (ops : List Op) :
    let d := run ops (init h1 h2 nt ps pend)
    let host := (runH ops (init h1 h2 nt ps pend, (h1, h2))).2
    (d.started = false → d.hooks = host) ∧ (d.started = true → nt = false → d.hooks = (.agent, .agent)) := by
  have hi := inv_run nt ops _ (h1, h2) (inv_init h1 h2 nt ps pend)
  rw [runH_fst] at hi
  exact ⟨fun hs => hi.idle_hooks (hi.stopped_idle hs),
         fun hs hn => (hi.tracing_hooks (hi.started_tracing hs hn)).1⟩

/-- the special case in the statement: start then shutdown puts back what was there. -/
theorem c14_start_shutdown (h1 h2 : Hook) (nt : Bool) (ps pend : List Nat) (f : Faults) :
    (run [.start, .shutdown f] (init h1 h2 nt ps pend)).hooks = (h1, h2) := by
  have := (c14_restore h1 h2 nt ps pend [.start, .shutdown f]).1
  apply this
  simp only [run, List.foldl, step]
  rw [start_not_started _ (by simp [init]) (by simp [init])]
  rw [shutdown_started f _ rfl]

/-- `sys.settrace` is per thread: the operations of a history are each called on some thread -/
def SameThread (t0 : Nat) (ops : List (Nat × Op)) : Prop := ∀ p ∈ ops, p.1 = t0

/-- **restore exact, for the thread that starts and stops the agent** (`_partial`: hypothesis `SameThread`) — with
    one trace slot per thread, for every history whose operations are all called on thread `t0`: whenever the agent
    is not started, thread `t0`'s trace function and the process-wide threading hook are exactly what the
    application installed last; and the slots of all other threads are never written. -/
theorem c14_restore_partial (t0 : Nat) (slots : Nat → Hook) (h2 : Hook) (nt : Bool) (ps pend : List Nat)
    (ops : List (Nat × Op)) (hsame : SameThread t0 ops) :
    let m := runMT ops ⟨init (slots t0) h2 nt ps pend, slots⟩
    let host := (runH (ops.map (·.2)) (init (slots t0) h2 nt ps pend, (slots t0, h2))).2
    (m.d.started = false → (m.slots t0, m.d.w.thrHook) = host) ∧ (∀ u, u ≠ t0 → m.slots u = slots u) := by
  have hm : (⟨init (slots t0) h2 nt ps pend, slots⟩ : MT).slots t0 =
      (⟨init (slots t0) h2 nt ps pend, slots⟩ : MT).d.w.sysHook := by
    simp [init, (thInit_fields (slots t0) h2).1]
  obtain ⟨hd, hs⟩ := runMT_same t0 ops hsame _ hm
  refine ⟨?_, ?_⟩
  · intro hst
    rw [hd] at hst
    have := (c14_restore (slots t0) h2 nt ps pend (ops.map (·.2))).1 hst
    rw [hs, hd]
    exact this
  · -- a thread on which nothing is called keeps its slot
    intro u hu
    have gen : ∀ (ops : List (Nat × Op)) (m : MT), (∀ p ∈ ops, p.1 = t0) → (runMT ops m).slots u = m.slots u := by
      intro ops
      induction ops with
      | nil => intro m _; rfl
      | cons p ops ih =>
        intro m hsm
        obtain ⟨t, op⟩ := p
        have ht : t = t0 := hsm (t, op) (List.mem_cons_self ..)
        simp only [runMT]
        rw [ih _ (fun q hq => hsm q (List.mem_cons_of_mem _ hq))]
        simp only [stepOn]
        rw [if_neg (by rw [ht]; exact hu)]
    exact gen ops _ hsame

/-- **without `SameThread` it is false of the code**: `start` on thread 0, `shutdown` on thread 1 (which had its own
    trace function 7): thread 0 keeps the agent's trace function although the agent reports "not started", and
    thread 1's own function is replaced by what thread 0 had before the start.  (Known finding
    `C14/shutdown-on-another-thread`, replayed on the real code.) -/
theorem c14_other_thread_witness :
    let m := runMT [(0, .start), (1, .shutdown default)]
      ⟨init .none .none false [] [], fun u => if u = 1 then .host 7 else .none⟩
    m.d.started = false ∧ m.slots 0 = .agent ∧ m.slots 1 = .none := by decide

/-- **no second life** — once a started agent has been shut down, no later history starts it again: it stays not
    started and not polling (`Deep.start` refuses, see `c14_source_facts`), so the hooks stay the application's
    (`c14_restore`) and nothing is ever delivered to the closed task handler. -/
theorem c14_no_restart (f : Faults) (d : Deep) (hs : d.started = true) (ops : List Op) :
    (run ops (shutdown f d).1).started = false ∧ (run ops (shutdown f d).1).pollAlive = false := by
  have hd : Dead (shutdown f d).1 := by rw [shutdown_started f d hs]; exact ⟨rfl, rfl, rfl⟩
  have := dead_run ops _ hd
  exact ⟨this.2.1, this.2.2⟩

/-- one cycle of the trigger handler itself puts back what it found, whatever it remembered from earlier cycles:
    `TriggerHandler.shutdown ∘ start` on a handler that is not tracing leaves both trace functions as they were. -/
theorem c14_handler_cycle (w : World) (h : w.tracing = false) :
    (Extracted.TH.thShutdown (Extracted.TH.thStart false w)).sysHook = w.sysHook ∧
    (Extracted.TH.thShutdown (Extracted.TH.thStart false w)).thrHook = w.thrHook := by
  simp [thStart_trace, thShutdown_tracing]

/-- **shutdown completes under any fault subset** — whichever plugins' `shutdown()` raise (either class) and
    whichever pending sends fail, shutting a started agent down does not raise, leaves it not started, the poll
    timer stopped, every pending send waited for, the task handler closed, and has called `shutdown()` of
    *every* plugin, in load order. -/
theorem c14_shutdown_completes (f : Faults) (d : Deep) (hs : d.started = true) :
    (shutdown f d).2 = false ∧ (shutdown f d).1.started = false ∧ (shutdown f d).1.pollAlive = false ∧
    (shutdown f d).1.pending = [] ∧ (shutdown f d).1.tasksOpen = false ∧
    (shutdown f d).1.shutCalls = d.shutCalls ++ d.plugins := by
  rw [shutdown_started f d hs]; simp

/-- **quiet after stop** — once a started agent has been shut down, no later history (config updates from a
    poll still in flight, further start/shutdown calls — which `c14_no_restart` shows do nothing —, poll ticks)
    re-arms it: the trigger list every trace event is matched against stays empty, so `trace_call` takes no action
    in threads that still carry the trace function.  (This is about an agent that is NOT running; it does not say
    that a restarted agent is quiet — there is no restarted agent.) -/
theorem c14_quiet_after (f : Faults) (d : Deep) (hs : d.started = true) (ops : List Op) :
    armed (run ops (shutdown f d).1) = 0 := by
  have hq : Quiet (shutdown f d).1 := by rw [shutdown_started f d hs]; exact thShutdown_quiet d.w
  have := quiet_run ops _ hq
  simp [armed, this.2]

/-- while started, a poll that fails with an `Exception` does not stop polling. -/
theorem c14_poll_survives (d : Deep) : pollTick (some .exc) d = d := by
  simp [pollTick, facts.2.2.1]

/-! ### the same facts on the skeletons, for every environment -/

/-- `Deep.shutdown` never raises into its caller, whatever fails inside it. -/
theorem c14_shutdown_never_raises (env : Env) (tr : Trace) :
    ∀ e tr', exec env deepShutdown tr ≠ (.raised e, tr') :=
  guard_sound deepShutdown (by decide) env tr

/-- … and, when the agent was started, it runs to its end and stores `started = False`. -/
theorem c14_shutdown_clears_started (env : Env) (hst : ∀ tr, env.cond tr "not self.started" = false)
    (tr : Trace) (o : Out) (tr' : Trace) (h : exec env deepShutdown tr = (o, tr')) :
    o = .normal ∧ Ev.set "started" "False" ∈ tr' := by
  have hag : Agrees [("not self.started", false)] env := by
    intro c b hc tr0
    simp only [Fixed.get, List.find?] at hc
    split at hc
    · rename_i heq
      simp only [beq_iff_eq] at heq
      simp only [Option.map_some, Option.some.injEq] at hc
      subst hc
      rw [← heq]; exact hst tr0
    · simp at hc
  have hn : o = .normal := by
    cases o with
    | normal => rfl
    | returned v =>
      have := mayRet_sound _ env hag deepShutdown _ _ _ h
      have he : mayRet [("not self.started", false)] deepShutdown = [] := by decide
      rw [he] at this; simp at this
    | broke => have := mayBreak_sound env deepShutdown _ _ h; revert this; decide
    | continued => have := mayCont_sound env deepShutdown _ _ h; revert this; decide
    | raised e => exact absurd h (c14_shutdown_never_raises env tr e tr')
  subst hn
  exact ⟨rfl, normal_last_assign env "started" "False" deepShutdown (by decide) _ _ h⟩

/-- **every shutdown step is attempted**: in the loop over the steps (handler shutdown, flush, poll shutdown,
    then each plugin's `shutdown`), the step is *called* in every iteration j, for every fault placement of either
    class — a step that fails never skips a later one. -/
theorem c14_steps_isolated :
    ∃ id body site, lastLoop deepShutdown = some (id, body) ∧ firstCall body = some site ∧
      ∀ env, FaultsIn RaiseSet.all env → ∀ tr, ∃ tr', exec env (.loop id body) tr = (.normal, tr') ∧
        (∀ j, j < env.iters tr id → ∃ f, Adjacent (Ev.call site f) (Ev.iter id j) tr') :=
  isoCallLastLoop_spec RaiseSet.all deepShutdown (by decide)

/-- **flush drains**: every pending future is waited for, whatever the earlier ones raised (either class). -/
theorem c14_flush_isolated :
    ∃ id body site, lastLoop taskFlush = some (id, body) ∧ firstCall body = some site ∧
      ∀ env, FaultsIn RaiseSet.all env → ∀ tr, ∃ tr', exec env (.loop id body) tr = (.normal, tr') ∧
        (∀ j, j < env.iters tr id → ∃ f, Adjacent (Ev.call site f) (Ev.iter id j) tr') :=
  isoCallLastLoop_spec RaiseSet.all taskFlush (by decide)

/-- **a start that fails can be retried**: `started = True` is the last thing `Deep.start` does, so when any step
    of it raises (or it returns early) the flag has not been set by this call. -/
theorem c14_start_sets_started_last (env : Env) (tr : Trace) (o : Out) (tr' : Trace)
    (h : exec env deepStart tr = (o, tr')) (ho : o ≠ .normal) :
    Ev.set "started" "True" ∈ tr' → Ev.set "started" "True" ∈ tr :=
  abnormal_before_last_assign env "started" "True" deepStart (by decide) (by decide) tr o tr' h ho

/-- … and a start that runs to its end has set it. -/
theorem c14_start_marks_started (env : Env) (tr tr' : Trace) (h : exec env deepStart tr = (.normal, tr')) :
    Ev.set "started" "True" ∈ tr' :=
  normal_last_assign env "started" "True" deepStart (by decide) tr tr' h


/-! ### the translated `Deep.start` / `Deep.shutdown`

  `startX` / `shutdownX` run the statement lists `Extracted.DeepLC.startPlan / shutdownPlan` — the two method bodies
  translated from the source of this run, one entry per statement.  The theorems above are stated for the
  specification machine (`start` / `shutdown`, Model/Lifecycle.lean).  Two refinements tie the translated methods to it:
  * STATE (`c14_start_translated`, `c14_shutdown_translated_partial`): same resulting state / same "raises".  This sees
    only statements that touch the modelled state (the flags, `trigger_handler.start()`, `poll.start()`, the steps) and
    not their order.
  * TRACE (`c14_start_trace`, `c14_shutdown_trace_partial`): the list of everything the method does, in order (every
    service call incl. those outside the modelled state, every flag assignment, every step attempted) equals the
    specified order.  Dropping, adding or moving ANY statement of either method breaks this obligation.
  `steps += [plugin.shutdown for plugin in self.config.plugins]` is evaluated outside the per-step `try`: a loaded
  plugin whose `shutdown` attribute cannot be read makes the real `Deep.shutdown` raise before any step.  The model has
  this (`Faults.attrUnreadable`, `buildFails`); the shutdown refinements therefore carry the hypothesis `Readable`, and
  `c14_unreadable_shutdown_witness` shows it is needed (known finding `C14/plugin-shutdown-attribute-unreadable`). -/

/-- model lemma (tie): **the translated `Deep.start` ends in the specified state** — in every state (started or not,
    shut down before or not, NO_TRACE or not, any hooks).  Both sides are hand-written machinery over the extracted
    plan; what it buys is that the history theorems hold of the plan. -/
theorem c14_start_translated (d : Deep) : startX d = start d := startX_eq d

/-- model lemma (tie): **the translated `Deep.shutdown` ends in the specified state, with the same "raises"**
    (`_partial`: hypothesis `Readable` — the `shutdown` attribute of every loaded plugin can be read) — in every state
    and for every assignment of raising plugin shutdowns (either class) and failing pending sends. -/
theorem c14_shutdown_translated_partial (f : Faults) (d : Deep) (hr : Readable f d) : shutdownX f d = shutdown f d :=
  shutdownX_eq f d hr

/-- **`Deep.start` does exactly the specified things in the specified order** — in every state: nothing when
    started; only a warning when shut down before; otherwise load plugins, create the resource, ask the providers,
    store the resource, install the hooks, connect, start polling, and only then `started = True`.  Any statement of
    the method dropped, added or moved (also one without effect on the modelled state) falsifies this. -/
theorem c14_start_trace (d : Deep) : startTrace noStartFaults d = startSpecTrace d := startTrace_eq d

/-- **`Deep.shutdown` attempts exactly the specified steps in the specified order** (`_partial`: `Readable`) — for
    every fault assignment: marked shut down FIRST, then hooks restored, deliveries drained, poll timer stopped, every
    plugin's `shutdown()` in load order — each attempted whatever failed before —, and `started = False` LAST. -/
theorem c14_shutdown_trace_partial (f : Faults) (d : Deep) (hr : Readable f d) :
    shutdownTrace f d = shutdownSpecTrace d := shutdownTrace_eq f d hr

/-- **without `Readable` it is false of the code**: one loaded plugin (7) whose `shutdown` attribute cannot be read:
    `Deep.shutdown` of a started agent raises before any step — the hooks stay the agent's, `started` stays true, no
    plugin is shut down, polling goes on — where the specification (`c14_shutdown_completes`) restores the hooks.
    Known finding `C14/plugin-shutdown-attribute-unreadable`, replayed on the real code every run. -/
theorem c14_unreadable_shutdown_witness :
    let f : Faults := { plugin := fun _ => false, task := fun _ => false, pluginBase := false,
                        attrUnreadable := fun p => p == 7 }
    let d := startX (init (.host 1) (.host 2) false [3, 7] [])
    (shutdownX f d).2 = true ∧ (shutdownX f d).1.started = true ∧ (shutdownX f d).1.hooks = (.agent, .agent) ∧
    (shutdownX f d).1.shutCalls = [] ∧ (shutdownX f d).1.pollAlive = true ∧ shutdownTrace f d = [.set .everShut true, .raised] ∧
    (shutdown f d).1.hooks = (.host 1, .host 2) := by decide

/-- model lemma (corollary): of `c14_restore` / `c14_notrace_untouched` through the tie lemmas (no content of its own): the same for
    every history run with the translated `start`/`shutdown` (`runX`), plugins readable. -/
theorem c14_restore_translated_partial (h1 h2 : Hook) (nt : Bool) (ps pend : List Nat) (ops : List Op)
    (hr : OpsReadable ps ops) :
    let d := runX ops (init h1 h2 nt ps pend)
    let host := (runH ops (init h1 h2 nt ps pend, (h1, h2))).2
    (d.started = false → d.hooks = host) ∧ (d.started = true → nt = false → d.hooks = (.agent, .agent)) ∧
    (nt = true → d.hooks = host) := by
  have he : runX ops (init h1 h2 nt ps pend) = run ops (init h1 h2 nt ps pend) := runX_eq ops _ hr
  simp only [he]
  refine ⟨(c14_restore h1 h2 nt ps pend ops).1, (c14_restore h1 h2 nt ps pend ops).2, ?_⟩
  intro hnt; subst hnt
  exact c14_notrace_untouched h1 h2 ps pend ops

/-- model lemma (corollary): of `c14_shutdown_completes` through the tie lemma (adds only the resulting hook pair). -/
theorem c14_shutdown_completes_translated_partial (f : Faults) (d : Deep) (hs : d.started = true) (hr : Readable f d) :
    (shutdownX f d).2 = false ∧ (shutdownX f d).1.started = false ∧ (shutdownX f d).1.pollAlive = false ∧
    (shutdownX f d).1.pending = [] ∧ (shutdownX f d).1.tasksOpen = false ∧
    (shutdownX f d).1.shutCalls = d.shutCalls ++ d.plugins ∧
    (shutdownX f d).1.hooks = (if d.w.tracing then (d.w.oldSys, d.w.oldThr) else d.hooks) := by
  rw [c14_shutdown_translated_partial f d hr, shutdown_started f d hs]
  cases ht : d.w.tracing <;> simp [Deep.hooks, thShutdown_tracing, thShutdown_not_tracing, ht]

/-- **a start that fails before the hooks are touched changes no MODELLED state** (`_partial`: hypothesis "the failing
    service call is not `trigger_handler.start()`, `grpc.start()` or `poll.start()`") — when loading the plugins,
    creating the resource, reading the providers or storing the resource raises, `Deep.start` raises with the flags,
    hooks, handler fields, timer and task state as they were.  NOT covered (outside the nine modelled fields):
    `config.plugins` is already replaced when a later call fails, so a retry constructs every plugin again and the
    first set is never shut down (audit probe: shutdown calls per constructed instance [0, 1]). -/
theorem c14_failed_start_unchanged_partial (sf : StartFaults) (d : Deep)
    (h1 : sf .thStart = false) (h2 : sf .grpcStart = false) (h3 : sf .pollStart = false)
    (hr : (startF sf d).2 = true) : (startF sf d).1 = d := by
  revert hr
  simp only [startF, execPlan, Extracted.DeepLC.startPlan, Fld.get, h1, h2, h3]
  cases d.started <;> cases d.everShut <;> cases sf .loadPlugins <;> cases sf .resourceCreate <;>
    cases sf .providers <;> cases sf .setResource <;> simp [primStep]

/-- **without that hypothesis it is false of the code**: `grpc.start()` (called after `trigger_handler.start()`)
    fails once; the application had trace functions 1 and 2; the retry succeeds; after the shutdown both trace
    functions are the AGENT's — the retry remembered the agent's own function as "previous".  Failing start steps are
    outside C14's quantifier; recorded as suspicious behaviour (probe notes/probes/c14_failed_start_retry.py). -/
theorem c14_failed_start_witness :
    let d0 := init (.host 1) (.host 2) false [] []
    let d1 := (startF (fun p => p == .grpcStart) d0).1
    (startF (fun p => p == .grpcStart) d0).2 = true ∧ d1.started = false ∧ d1.hooks = (.agent, .agent) ∧
    (shutdownX default (startX d1)).1.hooks = (.agent, .agent) := by decide

/-! ### non-vacuity -/

private def allFail : Faults := { plugin := fun _ => true, task := fun _ => true, pluginBase := true }

/-- a concrete history with a pre-existing host trace function, everything failing at shutdown, a late config
    update and a second start/shutdown. -/
example :
    let d := run [.start, .newConfig [7, 8], .pollTick (some .exc), .shutdown allFail, .newConfig [9],
                  .hostSet (.host 5) .none, .start, .shutdown allFail] (init (.host 1) .none false [10, 11] [1, 2, 3])
    d.hooks = (.host 5, .none) ∧ d.started = false ∧ armed d = 0 ∧ d.shutCalls = [10, 11] ∧
    d.pending = [] := by
  decide

/-- after a shutdown the application installs other trace functions B and calls start/shutdown again (refused): the
    hooks are B, not the A remembered from the first start (instance of `c14_restore`). -/
example :
    (run [.start, .shutdown allFail, .hostSet (.host 3) (.host 4), .start, .shutdown allFail]
      (init (.host 1) (.host 2) false [10] [])).hooks = (.host 3, .host 4) ∧
    (runH [.start, .shutdown allFail, .hostSet (.host 3) (.host 4), .start, .shutdown allFail]
      (init (.host 1) (.host 2) false [10] [], (.host 1, .host 2))).2 = (.host 3, .host 4) := by decide

/-- while started with tracing enabled the hooks are the agent's, and triggers are armed -/
example :
    let d := run [.start, .newConfig [7, 8]] (init (.host 1) (.host 2) false [] [])
    d.hooks = (.agent, .agent) ∧ armed d = 2 := by decide

/-- the hypotheses `Readable` / `OpsReadable` are satisfiable: every fault assignment that leaves the default
    `attrUnreadable` -/
example : Readable allFail (init .none .none false [1, 2] []) ∧ OpsReadable [1, 2] [.start, .shutdown allFail] := by
  refine ⟨by simp [Readable, init, allFail], ?_⟩
  intro f hf
  simp only [List.mem_cons, List.not_mem_nil, or_false, reduceCtorEq, false_or] at hf
  cases hf; simp [allFail]

/-- the translated methods on a concrete history: same states as the specification machine, hooks restored, every
    plugin shut down although all fail -/
example :
    let ops := [Op.start, .newConfig [7], .shutdown allFail, .start]
    runX ops (init (.host 1) .none false [10, 11] [1, 2]) = run ops (init (.host 1) .none false [10, 11] [1, 2]) ∧
    (runX ops (init (.host 1) .none false [10, 11] [1, 2])).hooks = (.host 1, .none) ∧
    (runX ops (init (.host 1) .none false [10, 11] [1, 2])).shutCalls = [10, 11] := by decide

/-- `c14_failed_start_unchanged_partial` is not vacuous: `load_plugins` raising -/
example : (startF (fun p => p == .loadPlugins) (init (.host 1) .none false [] [])).2 = true := by decide

end C14
