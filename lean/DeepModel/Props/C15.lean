/-
  C15 — Deferred work (spans, deferred captures) is completed exactly once, inside its own invocation, on its own
  thread.

  The handler is `Trigger.run` / `Trigger.runG`: the statement order of `TriggerHandler.__trace_call` around the
  *translated* `__process_call_backs`, `CallbackContext.at_location` (+ its two helpers), `location_from_event`,
  `__actions_for_location`, `at_location` of line / named-function locations and the guards (regenerated from the
  source on every run).

  Quantifiers: every configuration `cfg` (any number of line and method span / capture tracepoints, several
  callbacks per context), every gate outcome (each `call`/`line` node of a tree carries the list of actions the
  gate refuses there: an arbitrary function of the event position — every fire_count / fire_period / condition
  outcome), every invocation forest (nesting, loops unrolled into `line`s, caught and propagating exceptions,
  generators: a resumption is an invocation with the same `frame`), every interleaving of any number of threads.

  Two hypotheses are needed, both forced by the code as it is, both shown necessary by a `decide`d witness and
  both replayed on the implementation as known findings:
    * `NoClash` — no invocation has a (transitively) nested invocation with the same (file name, function name):
      pending contexts are matched by name, not by frame (D27, `C15/recursion-name-match`);
    * `NoStack` — no invocation reaches its own plain `return` with both its call-opened and a line-opened
      context pending: only the top context is examined per event (`C15/top-only-stacked-contexts`).
      (`NoStackStrict`, used only for *which value* a deferred capture attaches, also excludes that situation at
      own `exception` events.)

  `c15_weak_partial` replaces `NoClash` by the weaker `NoClashW` (Model/CallbacksW): an invocation must not have the
  key of an ENCLOSING invocation that has a context pending while it runs.  Recursion, same-named methods and nested
  lambdas are covered as long as the enclosing same-named invocation has no deferred work open at that moment (no span /
  capture tracepoint on it, or the gate refused it) — in particular every program whose recursive functions carry no
  span / capture tracepoint.  `c15_noclash_implies_weak`: `NoClash` implies it; `c15_weak_witness`: strictly weaker,
  and still violated by the known finding's tree.  The captured-value theorems have weak forms too
  (`c15_capture_first_exit_weak_partial`, `c15_capture_value_weak_partial`).

  Scope, stated as it is:
  * `AllNamed cfg` — every method location has a name (the property's "method tracepoint with a method name").  A
    nameless method location can say "here" at any kind of event and turns into a named one when it does (the
    installed triggers are then state, `Trigger.runS`); all theorems about runs are about `Trigger.run` over fixed
    triggers, which is the handler exactly under `AllNamed` (`C03.c03_run_faithful_partial`);
    `c15_named_needed_witness`.
  * `NoClash` is keyed by (file BASE name, `co_name`) — what the code compares.  It excludes recursion, but also: a
    method calling a same-named method of another class in the same file (`A.__init__` → `B.__init__`, `run`,
    `close` …), same-named functions in two files with the same base name (`pkg_a/utils.py`, `pkg_b/utils.py`)
    calling one another, and nested `<lambda>` / `<genexpr>` / `<listcomp>` frames of one file.
  * The configuration is fixed during a run (except for being emptied: `c15_completion_config_independent`): a
    tracepoint ADDED while an invocation is running is not covered by these theorems.
  * Callbacks may fail with an `Exception` (`c15_failed_callback_isolated_partial`); a BaseException from a callback
    leaves `process` (`c15_base_failure_skips_rest_witness`), ends the event (catch-all of `trace_call`) and is outside
    the theorems.
  * `c15_thread_local` is definitional for the machine of all threads (a tripwire).
  * How deferred work is registered and completed below the level of a context is translated too
    (`Extracted.Deferred`: `TriggerContext.__exit__`, the `ActionResult.process` table, `_is_deferred`,
    `SpanActionCallback.process`, the attach guard of `DeferredSnapshotActionCallback.process`), section "registration
    and completion": `c15_exit_registers_partial`, `c15_spans_closed_once_partial`, `c15_every_span_closed_partial`,
    `c15_capture_attaches`, `c15_has_callback_table` (the model's `Action.hasCallback` against the translated table).
    Modelled: a span action that fires creates at least one span (a span processor is installed and returns a span).
  * The per-thread store itself (`deep.thread_local.ThreadLocal`: `get`, `set`, `clear`, `is_set`, `value`) is
    translated (`Extracted.ThreadLocal`) and has its own theorems (`c15_tl_*`, section "the per-thread store"):
    one-cell specification, no method raises, in-place mutation through `get()` is seen by the next `get()`, every
    schedule of any number of threads projects to the threads' solo runs, a thread object that has not acted finds
    nothing, and `c15_slot_refines_thread_local` shows that the slot expressions of the handler model (`slot.isSome`,
    `slot.getD []`, `some (c :: slot.getD [])`, `none`) are what the translated methods compute.  That the namespace of
    a `threading.local()` is per thread OBJECT (not per reusable ident) is CPython's semantics — trusted, exercised by
    the differential run on real threads with reused idents; `c15_tl_ident_keyed_inherits_witness` shows what an
    ident-keyed store (the class before 0ec78d1) does.
  * `Callbacks.stepWith` keeps a thread's pending contexts in an `Option (List Ctx)`; `HandlerTL.stepTL` / `runGTL` is
    the same handler written against the `ThreadLocal` API (every access a translated method, one store for all
    threads keyed by the thread object), and `c15_handler_over_thread_local_step` / `c15_handler_over_thread_local`
    show they are the same machine — so the theorems about `run` / `runG` are theorems about the handler over the
    translated store (`c15_thread_local_released`).
-/
import DeepModel.Proofs.Trigger
import DeepModel.Proofs.ThreadLocal
import DeepModel.Proofs.HandlerTL
import DeepModel.Proofs.CallbacksW
import DeepModel.Extracted.Deferred

namespace C15
open Callbacks Trigger Extracted.Locations

/-! ### one thread -/

/-- what `c15_partial` etc. conclude about the effects `w` of a thread's run -/
structure Completed (final : Option (List Ctx)) (w : List Eff) : Prop where
  /-- nothing is left pending and the thread-local slot is unset again -/
  nothing_pending : final = none
  /-- the open/close effects are well bracketed from the empty stack to the empty stack: every close closes the
      most recently opened context that is still open (LIFO), nothing is closed that was not opened, and nothing
      stays open -/
  bracketed : chk [] w = some []
  /-- exactly once: every context is closed as often as it was opened -/
  exactly_once : ∀ c, countOpened c w = countClosed c w
  /-- window and frame: a context is closed at an event of the invocation that opened it (hence not after that
      invocation's `return` event, and in the same frame) -/
  window : ∀ c ev, Eff.closed c ev ∈ w → c.opener.inv = ev.inv ∧ c.opener.frame = ev.frame

/-- **exactly once / window / LIFO** (partial: `NoClash`, `NoStack`) — for every configuration, every gate outcome
    and every forest of invocations satisfying the two hypotheses, a thread that starts with nothing pending ends
    with nothing pending, and every span / deferred capture it opened (method or line, any number per context) was
    completed exactly once, in LIFO order, at an event of its own invocation. -/
theorem c15_partial (cfg : List Trig) (hnamed : AllNamed cfg) (forest : List Inv) (k : Nat)
    (hc : forestNoClash forest) (hs : forestNoStack (opens cfg) forest k) :
    Completed (run cfg none (flattenForest forest k)).1 (run cfg none (flattenForest forest k)).2 := by
  have hn : (none : Option (List Ctx)) = norm [] := rfl
  obtain ⟨h1, h2⟩ := forest_frame (cfg.length : Int) (actionsFor cfg) (kindsOK_actionsFor cfg hnamed) forest k hc hs
  have hchk := chk_srun (cfg.length : Int) (actionsFor cfg) [] (flattenForest forest k)
  rw [h1] at hchk
  rw [run, hn, runWith_norm]
  refine ⟨by rw [h1]; rfl, hchk, ?_, h2⟩
  intro c
  have := chk_counts c [] [] _ hchk
  simpa using this

/-- **`AllNamed` is needed** for the theorems as stated over fixed triggers: a nameless method location with a span on a
    3-line module is "here" at the `line` AND at the `return` event of line 3 (the test ignores the event kind); over
    fixed triggers the context pushed at the `return` event is never completed.  (In the handler the location has
    become the named location of `<module>` by then: `Loc.settle`.) -/
theorem c15_named_needed_witness :
    (run (install [⟨.nameless "a.py" [("<module>", 0, 3)], [⟨0, .span⟩]⟩] []) none
      ((Callbacks.Inv.mk "/x/a.py" "<module>" 1 1 [] (.line 1 [] (.line 2 [] (.line 3 [] .nil))) (.ret 3 0)).flatten [0])).1
      ≠ none := by decide

/-- **LIFO holds unconditionally** — for every stream at all (no hypothesis), the open/close effects of a run
    replay against the handler's own stack: contexts are only ever closed in LIFO order.  (What can fail without
    the hypotheses is *where* and *whether* they are closed.) -/
theorem c15_lifo (cfg : List Trig) (s : List Ctx) (evs : List Event) :
    ∃ s', (run cfg (norm s) evs).1 = norm s' ∧ chk s (run cfg (norm s) evs).2 = some s' := by
  refine ⟨(srun (cfg.length : Int) (actionsFor cfg) s evs).1, ?_, ?_⟩
  · rw [run, runWith_norm]
  · rw [run, runWith_norm]; exact chk_srun _ _ s evs

/-- **not before the program has moved past the triggering event** — a context completed at an event was already
    pending when the event arrived (it was pushed by an earlier event), and it was the top of the stack. -/
theorem c15_after_trigger (cfg : List Trig) (s : List Ctx) (ev : Event) (c : Ctx) (e : Event)
    (h : Eff.closed c e ∈ (traceCall cfg (norm s) ev).2) : e = ev ∧ s.head? = some c := by
  rw [traceCall, stepWith_norm, sstep_eq] at h
  have hpc : Eff.closed c e ∈ (pcPhase s ev).2 := by
    by_cases hcb : cbsAt (cfg.length : Int) (actionsFor cfg) ev = []
    · simp only [hcb, if_true, List.mem_append, List.mem_map] at h
      rcases h with h | ⟨_, _, h⟩
      · exact h
      · cases h
    · simp only [hcb, if_false, List.mem_append, List.mem_map, List.mem_singleton] at h
      rcases h with (h | ⟨_, _, h⟩) | h
      · exact h
      · cases h
      · cases h
  unfold pcPhase at hpc
  cases s with
  | nil => simp at hpc
  | cons t r =>
    by_cases hk : (isCbKind ev.kind && atLoc t ev) = true
    · simp only [hk, if_true, List.mem_singleton, Eff.closed.injEq] at hpc
      exact ⟨hpc.2, by simp [hpc.1]⟩
    · simp [hk] at hpc

def closedOf : List Eff → List (Ctx × Event)
  | [] => []
  | .closed c ev :: w => (c, ev) :: closedOf w
  | _ :: w => closedOf w

theorem closedOf_append (a b : List Eff) : closedOf (a ++ b) = closedOf a ++ closedOf b := by
  induction a with
  | nil => rfl
  | cons e w ih => cases e <;> simp [closedOf, ih]

theorem closedOf_fired (l : List Action) (ev : Event) : closedOf (l.map (fun a => Eff.fired a ev)) = [] := by
  induction l with
  | nil => rfl
  | cons a l ih => simp [closedOf, ih]

/-- **completion does not depend on the installed tracepoints** — pending callbacks are processed *before* the
    early return for an empty tracepoint list: which contexts an event completes, and what is left of the stack
    below them, is the same under every configuration, in particular under the empty one (a poll that delivered no
    tracepoints, a shutdown, while the instrumented function was still running).  With the empty list the event
    does exactly the callback phase. -/
theorem c15_completion_config_independent (cfg cfg' : List Trig) (s : List Ctx) (ev : Event) :
    closedOf (traceCall cfg (norm s) ev).2 = closedOf (traceCall cfg' (norm s) ev).2 ∧
    traceCall [] (norm s) ev = (norm (pcPhase s ev).1, (pcPhase s ev).2) ∧
    (∀ c r, s = c :: r → isCbKind ev.kind = true → atLoc c ev = true →
      traceCall [] (norm s) ev = (norm r, [Eff.closed c ev])) := by
  have key : ∀ cfg : List Trig, closedOf (traceCall cfg (norm s) ev).2 = closedOf (pcPhase s ev).2 := by
    intro cfg
    rw [traceCall, stepWith_norm, sstep_eq]
    by_cases h : cbsAt (cfg.length : Int) (actionsFor cfg) ev = [] <;>
      simp [h, closedOf_append, closedOf_fired, closedOf]
  have hempty : traceCall [] (norm s) ev = (norm (pcPhase s ev).1, (pcPhase s ev).2) := by
    rw [traceCall, stepWith_norm, sstep_eq]
    have hf : ∀ n : Int, firedAt n (actionsFor []) ev = [] :=
      fun n => firedAt_nil_of _ _ _ (by simp [actionsFor, actionsForLocation])
    simp [cbsAt, hf]
  refine ⟨by rw [key cfg, key cfg'], hempty, ?_⟩
  intro c r hs hk ha
  subst hs
  rw [hempty]
  simp [pcPhase, hk, ha]

/-- **a failing completion is isolated** (partial: the failures are of class `Exception`) — `CallbackContext.process`,
    translated with its per-callback `try/except Exception`: whichever callbacks of a context fail with an
    `Exception`, `process` is called on every callback of the context, once each, in order, and no exception leaves.
    So `Eff.closed c ev` — "the callbacks `c.cbs` were run at `ev`" — means the same under every such fault
    assignment: a failing span close / push does not change which other deferred items of the event are completed. -/
theorem c15_failed_callback_isolated_partial {β : Type} (fails : β → Option Py.Exn)
    (hexc : ∀ b, fails b ≠ some Py.Exn.base) (cbs : List β) :
    contextProcess fails cbs = (cbs, false) := by
  induction cbs with
  | nil => rfl
  | cons c r ih =>
    cases hc : fails c with
    | none => simp [contextProcess, hc, ih]
    | some e =>
      cases e with
      | exc => simp [contextProcess, hc, ih]
      | base => exact absurd hc (hexc c)

/-- the hypothesis is needed: a failure that is not an `Exception` (BaseException: SystemExit, KeyboardInterrupt,
    GeneratorExit, a library's own BaseException subclass) at the first callback leaves `process`; the remaining
    callbacks of the context are not run (and the context is already off the queue). -/
theorem c15_base_failure_skips_rest_witness :
    contextProcess (fun b => if b = 1 then some Py.Exn.base else none) [1, 2, 3] = ([1], true) ∧
    contextProcess (fun b => if b = 1 then some Py.Exn.exc else none) [1, 2, 3] = ([1, 2, 3], false) := by decide

/-- **the recursion hypothesis is needed** (D27) — `rec(2)` with a method span that fires once (the gate refuses
    the two inner calls): the tree violates `NoClash` only, and the span opened by invocation `[0]` is closed at
    the `return` event of the innermost invocation `[0,0,0]`, in another frame. -/
def recCfg : List Trig := install [⟨.func "m.py" "rec", [⟨0, .span⟩]⟩] []
def recTree : Inv :=
  .mk "/app/m.py" "rec" 1 10 [] (.line 11 [] (.call
    (.mk "/app/m.py" "rec" 2 10 [⟨0, .span⟩] (.line 11 [] (.call
      (.mk "/app/m.py" "rec" 3 10 [⟨0, .span⟩] (.line 12 [] .nil) (.ret 12 0)) (.line 13 [] .nil))) (.ret 13 1))
    (.line 13 [] .nil))) (.ret 13 2)

theorem c15_recursion_witness :
    ¬ recTree.NoClash ∧ recTree.NoStack (opens recCfg) [0] ∧
    (∃ c ev, Eff.closed c ev ∈ (run recCfg none (recTree.flatten [0])).2 ∧
      c.opener.inv = [0] ∧ ev.inv = [0, 0, 0] ∧ c.opener.frame = 1 ∧ ev.frame = 3) := by
  refine ⟨?_, ?_, ?_⟩
  · simp [recTree, Inv.NoClash, Items.NoClash, Items.keys, Inv.keys]
  · simp only [recTree, Inv.NoStack, Items.NoStack]
    decide
  · refine ⟨⟨"call", "m.py", 10, "rec", [⟨0, .span⟩], ⟨"call", "/app/m.py", 10, "rec", 0, 1, [0], []⟩⟩,
      ⟨"return", "/app/m.py", 12, "rec", 0, 3, [0, 0, 0], []⟩, ?_, rfl, rfl, rfl, rfl⟩
    decide

/-- **the stacking hypothesis is needed** — `def f(x): y = x + 1; return y` with a method span on `f` and a line
    span on its last line: no recursion (`NoClash` holds), `NoStack` fails, and the method span is never closed:
    it is still pending when the thread's work is over. -/
def stackCfg : List Trig := install [⟨.func "m.py" "f", [⟨0, .span⟩]⟩, ⟨.line "m.py" 3, [⟨1, .span⟩]⟩] []
def stackTree : Inv := .mk "/app/m.py" "f" 1 1 [] (.line 2 [] (.line 3 [] .nil)) (.ret 3 7)

theorem c15_stacked_witness :
    stackTree.NoClash ∧ ¬ stackTree.NoStack (opens stackCfg) [0] ∧
    (run stackCfg none (stackTree.flatten [0])).1 =
      some [⟨"call", "m.py", 1, "f", [⟨0, .span⟩], ⟨"call", "/app/m.py", 1, "f", 0, 1, [0], []⟩⟩] ∧
    countClosed ⟨"call", "m.py", 1, "f", [⟨0, .span⟩], ⟨"call", "/app/m.py", 1, "f", 0, 1, [0], []⟩⟩
      (run stackCfg none (stackTree.flatten [0])).2 = 0 := by
  refine ⟨?_, ?_, ?_, ?_⟩
  · simp [stackTree, Inv.NoClash, Items.NoClash, Items.keys]
  · simp only [stackTree, Inv.NoStack, Items.NoStack]
    decide
  · decide
  · decide

/-! ### the recursion hypothesis, weakened: only an enclosing same-named invocation WITH PENDING WORK confuses -/

/-- **exactly once / window / LIFO under the weaker recursion hypothesis** (partial: `NoClashW`, `NoStack`) — as
    `c15_partial`, for every forest in which no invocation runs while an enclosing invocation with the same (file name,
    function name) has a context pending (`NoClashW`, which looks at the gate outcomes like `NoStack` does).  Recursive
    functions, same-named methods of two classes, nested lambdas / comprehensions are inside the theorem whenever the
    enclosing same-named invocation has no deferred work open. -/
theorem c15_weak_partial (cfg : List Trig) (hnamed : AllNamed cfg) (forest : List Inv) (k : Nat)
    (hc : forestNoClashW (opens cfg) forest k) (hs : forestNoStack (opens cfg) forest k) :
    Completed (run cfg none (flattenForest forest k)).1 (run cfg none (flattenForest forest k)).2 := by
  have hn : (none : Option (List Ctx)) = norm [] := rfl
  obtain ⟨h1, h2⟩ := forest_frameW (cfg.length : Int) (actionsFor cfg) (kindsOK_actionsFor cfg hnamed) forest k hc hs
  have hchk := chk_srun (cfg.length : Int) (actionsFor cfg) [] (flattenForest forest k)
  rw [h1] at hchk
  rw [run, hn, runWith_norm]
  refine ⟨by rw [h1]; rfl, hchk, ?_, h2⟩
  intro c
  have := chk_counts c [] [] _ hchk
  simpa using this

/-- the new hypothesis is weaker: `NoClash` implies `NoClashW` under every configuration and gate outcome (so
    `c15_partial` is an instance of `c15_weak_partial`). -/
theorem c15_noclash_implies_weak (cfg : List Trig) (forest : List Inv) (k : Nat) (h : forestNoClash forest) :
    forestNoClashW (opens cfg) forest k :=
  forestNoClash_imp_W (opens cfg) forest k h

/-- every schedule, weaker hypothesis -/
theorem c15_interleaved_complete_weak (cfg : List Trig) (hnamed : AllNamed cfg) (gs : List (Tid × Event)) (t : Tid)
    (forest : List Inv) (k : Nat) (hproj : proj t gs = flattenForest forest k)
    (hc : forestNoClashW (opens cfg) forest k) (hs : forestNoStack (opens cfg) forest k) :
    Completed ((runG cfg Store.empty gs).1 t) (projEff t (runG cfg Store.empty gs).2) := by
  obtain ⟨h1, h2⟩ := runG_proj cfg gs Store.empty t
  rw [h1, h2, hproj]
  exact c15_weak_partial cfg hnamed forest k hc hs

/-- `rec(2)` with a method span whose gate refuses the two OUTER calls and allows the innermost: recursion
    (`NoClash` fails), but no enclosing `rec` has anything pending when the inner ones run. -/
def innerRecTree : Inv :=
  .mk "/app/m.py" "rec" 1 10 [⟨0, .span⟩] (.line 11 [] (.call
    (.mk "/app/m.py" "rec" 2 10 [⟨0, .span⟩] (.line 11 [] (.call
      (.mk "/app/m.py" "rec" 3 10 [] (.line 12 [] .nil) (.ret 12 0)) (.line 13 [] .nil))) (.ret 13 1))
    (.line 13 [] .nil))) (.ret 13 2)

/-- **strictly weaker, and still necessary** — `innerRecTree` violates `NoClash` but satisfies `NoClashW` and `NoStack`:
    its span is opened by the innermost invocation `[0,0,0]` and closed at that invocation's own `return`, nothing is
    left pending.  `recTree` (the known finding `C15/recursion-name-match`: the OUTERMOST call opens the span) violates
    `NoClashW` too. -/
theorem c15_weak_witness :
    ¬ innerRecTree.NoClash ∧ innerRecTree.NoClashW (opens recCfg) [0] [] ∧ innerRecTree.NoStack (opens recCfg) [0] ∧
    (run recCfg none (innerRecTree.flatten [0])).1 = none ∧
    (∃ c ev, Eff.closed c ev ∈ (run recCfg none (innerRecTree.flatten [0])).2 ∧
      c.opener.inv = [0, 0, 0] ∧ ev.inv = [0, 0, 0] ∧ ev.kind = "return") ∧
    ¬ recTree.NoClashW (opens recCfg) [0] [] := by
  refine ⟨?_, ?_, ?_, ?_, ?_, ?_⟩
  · simp [innerRecTree, Inv.NoClash, Items.NoClash, Items.keys, Inv.keys]
  · rw [← noClashWB_iff]; decide
  · simp only [innerRecTree, Inv.NoStack, Items.NoStack]
    decide
  · decide
  · refine ⟨⟨"call", "m.py", 10, "rec", [⟨0, .span⟩], ⟨"call", "/app/m.py", 10, "rec", 0, 3, [0, 0, 0], []⟩⟩,
      ⟨"return", "/app/m.py", 12, "rec", 0, 3, [0, 0, 0], []⟩, ?_, rfl, rfl, rfl⟩
    decide
  · rw [← noClashWB_iff]; decide

/-! ### captured values -/

/-- a context opened at a `call` event (method span, method capture) is only ever completed at a `return` or an
    `exception` event — for every stream, no hypothesis.  (The value a deferred capture attaches is the `arg` of
    that event.) -/
theorem c15_capture_kind (cfg : List Trig) (s : List Ctx) (ev : Event) (c : Ctx) (e : Event)
    (h : Eff.closed c e ∈ (traceCall cfg (norm s) ev).2) (hc : c.event = "call") :
    e.kind = "return" ∨ e.kind = "exception" := by
  obtain ⟨rfl, hhead⟩ := c15_after_trigger cfg s ev c e h
  rw [traceCall, stepWith_norm, sstep_eq] at h
  cases s with
  | nil => simp at hhead
  | cons t r =>
    simp only [List.head?_cons, Option.some.injEq] at hhead
    subst hhead
    by_cases hk : (isCbKind e.kind && atLoc t e) = true
    · simp only [Bool.and_eq_true] at hk
      have := hk.2
      unfold atLoc at this
      simp only [decide_eq_true_eq] at this
      rcases this.2.2 with h3 | h3 | h3
      · rw [hc] at h3; exact absurd h3 (by decide)
      · exact Or.inr h3
      · exact Or.inl h3
    · exfalso
      have hpc : (pcPhase (t :: r) e).2 = [] := by simp [pcPhase, hk]
      by_cases hcb : cbsAt (cfg.length : Int) (actionsFor cfg) e = []
      · simp [hcb, hpc] at h
      · simp [hcb, hpc] at h

def noCaught : Items → Prop
  | .nil => True
  | .line _ _ rest => noCaught rest
  | .caught _ _ _ => False
  | .call _ rest => noCaught rest

theorem firstExit_noCaught (body : Items) (fi : FrameInfo) (x : Exit) (h : noCaught body) :
    body.firstExit fi x =
      match x with
      | .ret n v => fi.ev "return" n v []
      | .raise n e => fi.ev "exception" n e [] := by
  match body with
  | .nil => cases x <;> rfl
  | .line n d rest => exact firstExit_noCaught rest fi x h
  | .caught .. => exact absurd h (by simp [noCaught])
  | .call i rest => exact firstExit_noCaught rest fi x h

/-- **where a call-opened context completes** (partial: named locations, `NoClash`, `NoStackStrict`) — an invocation
    whose `call` event opens a context (method span / deferred method capture), run on any stack whose contexts
    belong to other functions (every nested invocation of a `NoClash` tree is in that situation), hands the stack
    back unchanged, and the context is completed at `firstExit`: the *first* own `exception` or `return` event of
    that same invocation — also when that is an exception the function then catches. -/
theorem c15_capture_first_exit_partial (cfg : List Trig) (hnamed : AllNamed cfg) (i : Inv) (p : List Nat)
    (stk : List Ctx) (hc : i.NoClash) (hs : i.NoStackStrict (opens cfg) p)
    (hf : ∀ c ∈ stk, (c.file, c.func) ∉ i.keys) (hopen : opens cfg (i.callEvent p) = true) :
    (run cfg (norm stk) (i.flatten p)).1 = norm stk ∧
    Eff.closed (newCtx (cbsAt (cfg.length : Int) (actionsFor cfg) (i.callEvent p)) (i.callEvent p)) (i.firstExit p)
      ∈ (run cfg (norm stk) (i.flatten p)).2 := by
  obtain ⟨h1, _, h3⟩ :=
    inv_frame_strict (cfg.length : Int) (actionsFor cfg) (kindsOK_actionsFor cfg hnamed) i p stk hc hs hf
  rw [run, runWith_norm, h1]
  exact ⟨rfl, h3 hopen⟩

/-- the event at which an invocation ends: its `return` event carrying the return value, resp. its propagating
    `exception` event carrying the exception -/
def exitEvent (path func : String) (frame : Nat) (p : List Nat) : Exit → Event
  | .ret n v => ⟨"return", path, n, func, v, frame, p, []⟩
  | .raise n e => ⟨"exception", path, n, func, e, frame, p, []⟩

/-- **captured value** (partial: named locations, `NoClash`, `NoStackStrict`, and `noCaught`: the invocation sees no
    exception event of its own before it ends) — the context opened at the invocation's `call` event is completed at
    the invocation's `return` event carrying its return value, resp. at its propagating `exception` event carrying
    the exception: "a captured result is the value returned or the exception raised by that same invocation". -/
theorem c15_capture_value_partial (cfg : List Trig) (hnamed : AllNamed cfg) (path func : String) (frame : Nat)
    (ln : Int) (den : List Action) (body : Items) (x : Exit) (p : List Nat) (stk : List Ctx)
    (hc : (Callbacks.Inv.mk path func frame ln den body x).NoClash)
    (hs : (Callbacks.Inv.mk path func frame ln den body x).NoStackStrict (opens cfg) p)
    (hnc : noCaught body)
    (hf : ∀ c ∈ stk, (c.file, c.func) ∉ (Callbacks.Inv.mk path func frame ln den body x).keys)
    (hopen : opens cfg ((Callbacks.Inv.mk path func frame ln den body x).callEvent p) = true) :
    Eff.closed (newCtx (cbsAt (cfg.length : Int) (actionsFor cfg)
        ((Callbacks.Inv.mk path func frame ln den body x).callEvent p))
        ((Callbacks.Inv.mk path func frame ln den body x).callEvent p))
      (exitEvent path func frame p x)
      ∈ (run cfg (norm stk) ((Callbacks.Inv.mk path func frame ln den body x).flatten p)).2 := by
  have h := (c15_capture_first_exit_partial cfg hnamed _ p stk hc hs hf hopen).2
  have he : (Callbacks.Inv.mk path func frame ln den body x).firstExit p = exitEvent path func frame p x := by
    simp only [Inv.firstExit]
    rw [firstExit_noCaught body _ x hnc]
    cases x <;> rfl
  rw [he] at h
  exact h

/-- **where a call-opened context completes, weaker recursion hypothesis** (partial: named locations, `NoClashW`,
    `NoStackStrict`) — as `c15_capture_first_exit_partial`, for an invocation run on any stack all of whose contexts
    belong to enclosing invocations recorded in `pend` (the keys with work pending), under `NoClashW … pend`: recursion
    below or around it is allowed as long as no same-named enclosing invocation has work pending. -/
theorem c15_capture_first_exit_weak_partial (cfg : List Trig) (hnamed : AllNamed cfg) (i : Inv) (p : List Nat)
    (stk : List Ctx) (pend : List Key) (hc : i.NoClashW (opens cfg) p pend) (hs : i.NoStackStrict (opens cfg) p)
    (hf : ∀ c ∈ stk, (c.file, c.func) ∈ pend) (hopen : opens cfg (i.callEvent p) = true) :
    (run cfg (norm stk) (i.flatten p)).1 = norm stk ∧
    Eff.closed (newCtx (cbsAt (cfg.length : Int) (actionsFor cfg) (i.callEvent p)) (i.callEvent p)) (i.firstExit p)
      ∈ (run cfg (norm stk) (i.flatten p)).2 := by
  obtain ⟨h1, _, h3⟩ :=
    inv_frame_strictW (cfg.length : Int) (actionsFor cfg) (kindsOK_actionsFor cfg hnamed) i p stk pend hc hs hf
  rw [run, runWith_norm, h1]
  exact ⟨rfl, h3 hopen⟩

/-- **captured value, weaker recursion hypothesis** (partial: named locations, `NoClashW`, `NoStackStrict`, `noCaught`)
    — the deferred capture opened at an invocation's `call` event is completed at that invocation's `return` event
    carrying its return value, resp. at its propagating `exception` event carrying the exception — also for a recursive
    function, when no enclosing same-named invocation has work pending (e.g. a capture that fires on the innermost call
    only). -/
theorem c15_capture_value_weak_partial (cfg : List Trig) (hnamed : AllNamed cfg) (path func : String) (frame : Nat)
    (ln : Int) (den : List Action) (body : Items) (x : Exit) (p : List Nat) (stk : List Ctx) (pend : List Key)
    (hc : (Callbacks.Inv.mk path func frame ln den body x).NoClashW (opens cfg) p pend)
    (hs : (Callbacks.Inv.mk path func frame ln den body x).NoStackStrict (opens cfg) p)
    (hnc : noCaught body) (hf : ∀ c ∈ stk, (c.file, c.func) ∈ pend)
    (hopen : opens cfg ((Callbacks.Inv.mk path func frame ln den body x).callEvent p) = true) :
    Eff.closed (newCtx (cbsAt (cfg.length : Int) (actionsFor cfg)
        ((Callbacks.Inv.mk path func frame ln den body x).callEvent p))
        ((Callbacks.Inv.mk path func frame ln den body x).callEvent p))
      (exitEvent path func frame p x)
      ∈ (run cfg (norm stk) ((Callbacks.Inv.mk path func frame ln den body x).flatten p)).2 := by
  have h := (c15_capture_first_exit_weak_partial cfg hnamed _ p stk pend hc hs hf hopen).2
  have he : (Callbacks.Inv.mk path func frame ln den body x).firstExit p = exitEvent path func frame p x := by
    simp only [Inv.firstExit]
    rw [firstExit_noCaught body _ x hnc]
    cases x <;> rfl
  rw [he] at h
  exact h

/-- non-vacuity: in `innerRecTree` with a deferred capture instead of the span, the capture opened by the innermost
    `rec` attaches that invocation's return value 0 -/
example :
    Eff.closed ⟨"call", "m.py", 10, "rec", [⟨0, .capture⟩], ⟨"call", "/app/m.py", 10, "rec", 0, 3, [0, 0, 0], []⟩⟩
      ⟨"return", "/app/m.py", 12, "rec", 0, 3, [0, 0, 0], []⟩ ∈
      (run (install [⟨.func "m.py" "rec", [⟨0, .capture⟩]⟩] []) none
        ((Callbacks.Inv.mk "/app/m.py" "rec" 1 10 [⟨0, .capture⟩] (.line 11 [] (.call
          (.mk "/app/m.py" "rec" 2 10 [⟨0, .capture⟩] (.line 11 [] (.call
            (.mk "/app/m.py" "rec" 3 10 [] (.line 12 [] .nil) (.ret 12 0)) (.line 13 [] .nil))) (.ret 13 1))
          (.line 13 [] .nil))) (.ret 13 2)).flatten [0])).2 := by decide

/-- **`noCaught` is needed** (known finding `C15/caught-exception-completes`) — `f` has a deferred method capture,
    calls `g`, which raises, catches the exception, goes on and returns 9: all other hypotheses hold, the capture
    is completed at the CAUGHT `exception` event (arg 5) — not at `f`'s `return` event, whose value 9 is never
    attached. -/
def caughtCfg : List Trig := install [⟨.func "m.py" "f", [⟨0, .capture⟩]⟩] []
def caughtTree : Inv :=
  .mk "/app/m.py" "f" 1 1 [] (.line 2 [] (.call (.mk "/app/m.py" "g" 2 10 [] (.line 11 [] .nil) (.raise 11 5))
    (.caught 2 5 (.line 3 [] (.line 4 [] .nil))))) (.ret 4 9)

theorem c15_caught_witness :
    caughtTree.NoClash ∧ caughtTree.NoStackStrict (opens caughtCfg) [0] ∧
    Eff.closed ⟨"call", "m.py", 1, "f", [⟨0, .capture⟩], ⟨"call", "/app/m.py", 1, "f", 0, 1, [0], []⟩⟩
        ⟨"exception", "/app/m.py", 2, "f", 5, 1, [0], []⟩ ∈ (run caughtCfg none (caughtTree.flatten [0])).2 ∧
    Eff.closed ⟨"call", "m.py", 1, "f", [⟨0, .capture⟩], ⟨"call", "/app/m.py", 1, "f", 0, 1, [0], []⟩⟩
        ⟨"return", "/app/m.py", 4, "f", 9, 1, [0], []⟩ ∉ (run caughtCfg none (caughtTree.flatten [0])).2 := by
  refine ⟨?_, ?_, ?_, ?_⟩
  · simp [caughtTree, Inv.NoClash, Items.NoClash, Items.keys, Inv.keys, fileOf, locationFromEvent, PyX.basename]
  · simp only [caughtTree, Inv.NoStackStrict, Items.NoStackStrict]
    decide
  · decide
  · decide

/-- the strict hypothesis of `c15_capture_value_partial` is needed: `f` raises (and does not catch) with its method
    capture and a line span on the raising line both pending: the `exception` event completes the line span, the
    method capture is completed by the `return` event that follows (arg `None`) — inside the window
    (`c15_partial` covers this tree), but the attached value is not the exception. -/
def raiseCfg : List Trig := install [⟨.func "m.py" "f", [⟨0, .capture⟩]⟩, ⟨.line "m.py" 2, [⟨1, .span⟩]⟩] []
def raiseTree : Inv := .mk "/app/m.py" "f" 1 1 [] (.line 2 [] .nil) (.raise 2 7)

theorem c15_capture_strict_witness :
    raiseTree.NoClash ∧ raiseTree.NoStack (opens raiseCfg) [0] ∧ ¬ raiseTree.NoStackStrict (opens raiseCfg) [0] ∧
    (run raiseCfg none (raiseTree.flatten [0])).1 = none ∧
    Eff.closed ⟨"call", "m.py", 1, "f", [⟨0, .capture⟩], ⟨"call", "/app/m.py", 1, "f", 0, 1, [0], []⟩⟩
        ⟨"return", "/app/m.py", 2, "f", 0, 1, [0], []⟩ ∈ (run raiseCfg none (raiseTree.flatten [0])).2 ∧
    raiseTree.firstExit [0] = ⟨"exception", "/app/m.py", 2, "f", 7, 1, [0], []⟩ := by
  refine ⟨?_, ?_, ?_, ?_, ?_, rfl⟩
  · simp [raiseTree, Inv.NoClash, Items.NoClash, Items.keys]
  · simp [raiseTree, Inv.NoStack, Items.NoStack]
  · simp only [raiseTree, Inv.NoStackStrict, Items.NoStackStrict]
    decide
  · decide
  · decide

/-! ### threads -/

/-- tripwire: **thread local** (definitional for the machine of all threads: one slot per thread; it breaks if the
    translated handler ever reads another thread's state) — an event of thread `u` changes no other thread's pending stack. -/
theorem c15_thread_local (cfg : List Trig) (S : Store) (u : Tid) (ev : Event) (t : Tid) (h : t ≠ u) :
    (stepG cfg S (u, ev)).1 t = S t := by
  simp [stepG, h]

/-- **interleavings** — for every interleaving `gs` of the threads' streams (any number of threads, any
    schedule), the pending stack and the effects of thread `t` are those of `t` running alone on its own events. -/
theorem c15_interleaved (cfg : List Trig) (streams : Tid → List Event) (gs : List (Tid × Event))
    (hgs : ∀ t, proj t gs = streams t) (t : Tid) :
    (runG cfg Store.empty gs).1 t = (run cfg none (streams t)).1 ∧
      projEff t (runG cfg Store.empty gs).2 = (run cfg none (streams t)).2 := by
  rw [← hgs t]
  exact runG_proj cfg gs Store.empty t

/-- exactly-once, window, LIFO and same-thread lift to every schedule: whatever the other threads do and however
    they are interleaved, a thread whose own stream is a forest satisfying the hypotheses completes all its work
    itself (the effects are *its* effects: `projEff t`), exactly once, in its own invocations. -/
theorem c15_interleaved_complete (cfg : List Trig) (hnamed : AllNamed cfg) (gs : List (Tid × Event)) (t : Tid)
    (forest : List Inv) (k : Nat) (hproj : proj t gs = flattenForest forest k)
    (hc : forestNoClash forest) (hs : forestNoStack (opens cfg) forest k) :
    Completed ((runG cfg Store.empty gs).1 t) (projEff t (runG cfg Store.empty gs).2) := by
  obtain ⟨h1, h2⟩ := runG_proj cfg gs Store.empty t
  rw [h1, h2, hproj]
  exact c15_partial cfg hnamed forest k hc hs

/-- **nothing inherited** — when the threads' work has ended, a thread whose stream satisfied the hypotheses has
    left nothing pending, and a thread that has not run yet (a fresh thread: the store is keyed by the thread
    itself, `threading.local`) starts from the unset slot. -/
theorem c15_nothing_inherited (cfg : List Trig) (hnamed : AllNamed cfg) (gs : List (Tid × Event)) :
    (∀ t forest k, proj t gs = flattenForest forest k → forestNoClash forest →
        forestNoStack (opens cfg) forest k → (runG cfg Store.empty gs).1 t = none) ∧
    (∀ t, proj t gs = [] → (runG cfg Store.empty gs).1 t = none) := by
  refine ⟨?_, ?_⟩
  · intro t forest k hp hc hs
    exact (c15_interleaved_complete cfg hnamed gs t forest k hp hc hs).nothing_pending
  · intro t hp
    have := (runG_proj cfg gs Store.empty t).1
    rw [this, hp]
    rfl

/-! ### registration and completion of deferred work below the level of a context (`Extracted.Deferred`) -/

section DeferredWork
open Extracted.Deferred

/-- **registration** (partial: no `result.process` fails with a BaseException) — `TriggerContext.__exit__`, translated
    with its per-result `try/except Exception`: the callbacks an event registers are exactly those of the results whose
    `process` returns one, in the order the actions ran; a result whose `process` raises an `Exception` (a snapshot
    decorator, a logger plugin) costs only its own callback; no exception leaves. -/
theorem c15_exit_registers_partial {ρ γ : Type} (proc : ρ → Except Py.Exn (Option γ))
    (hexc : ∀ r, proc r ≠ .error Py.Exn.base) (results : List ρ) :
    contextExit proc results =
      (results.filterMap (fun r => match proc r with | .ok (some c) => some c | _ => none), false) := by
  induction results with
  | nil => rfl
  | cons r rest ih =>
    cases h : proc r with
    | ok o => cases o <;> simp [contextExit, h, ih]
    | error e =>
      cases e with
      | exc => simp [contextExit, h, ih]
      | base => exact absurd h (hexc r)

/-- the hypothesis is needed: a BaseException from the second result's `process` leaves `__exit__`; the callback of
    the first result stays registered (it is pushed by `__trace_call` and completed later), the third result is lost. -/
theorem c15_exit_base_failure_witness :
    contextExit (fun r : Nat => if r = 2 then .error Py.Exn.base else .ok (some r)) [1, 2, 3] = ([1], true) ∧
    contextExit (fun r : Nat => if r = 2 then .error Py.Exn.exc else .ok (some r)) [1, 2, 3] = ([1, 3], false) ∧
    contextExit (fun r : Nat => if r = 2 then .ok none else .ok (some r)) [1, 2, 3] = ([1, 3], false) := by decide

/-- **every span of a callback is closed exactly once** (partial: `close()` fails with an `Exception` at most) —
    `SpanActionCallback.process`, translated with its per-span `try/except Exception`: whichever spans fail to close,
    `close()` is called on every span of the callback, once each, in order, and no exception leaves. -/
theorem c15_spans_closed_once_partial {σ : Type} (fails : σ → Option Py.Exn)
    (hexc : ∀ s, fails s ≠ some Py.Exn.base) (spans : List σ) :
    spanCallbackProcess fails spans = (spans, false) := by
  induction spans with
  | nil => rfl
  | cons c r ih =>
    cases hc : fails c with
    | none => simp [spanCallbackProcess, hc, ih]
    | some e =>
      cases e with
      | exc => simp [spanCallbackProcess, hc, ih]
      | base => exact absurd hc (hexc c)

theorem c15_span_base_failure_witness :
    spanCallbackProcess (fun b : Nat => if b = 2 then some Py.Exn.base else none) [1, 2, 3] = ([1, 2], true) ∧
    spanCallbackProcess (fun b : Nat => if b = 2 then some Py.Exn.exc else none) [1, 2, 3] = ([1, 2, 3], false) := by
  decide

/-- model lemma: **down to the span** (glue only: under the hypothesis the callback failure function below is constantly `none`,
    so this is `c15_failed_callback_isolated_partial` + `c15_spans_closed_once_partial` side by side) — IF the callbacks
    of a context are span callbacks given as their span lists `cbs` (the model's `Ctx.cbs` are `Action`s: which spans an
    action created is not in the model, so `Eff.closed c ev` is NOT linked to these lists by a theorem), and `close()`
    fails with an `Exception` at most, then `CallbackContext.process` over them calls every callback and every callback
    closes every one of its spans once. -/
theorem c15_every_span_closed_partial {σ : Type} (fails : σ → Option Py.Exn)
    (hexc : ∀ s, fails s ≠ some Py.Exn.base) (cbs : List (List σ)) :
    contextProcess (fun cb => if (spanCallbackProcess fails cb).2 then some Py.Exn.base else none) cbs = (cbs, false) ∧
    ∀ cb ∈ cbs, spanCallbackProcess fails cb = (cb, false) := by
  refine ⟨?_, fun cb _ => c15_spans_closed_once_partial fails hexc cb⟩
  apply c15_failed_callback_isolated_partial
  intro cb
  rw [c15_spans_closed_once_partial fails hexc cb]
  simp

/-- tripwire: **the attach guard** — (1) the translated guard of `DeferredSnapshotActionCallback.process` attaches the completing
    event's `arg` exactly at `exception` and `return` events; (2) a context opened at a `call` event is only ever
    completed at such an event (`c15_capture_kind`), so a deferred METHOD capture always passes the guard.  (A deferred
    LINE capture completes at the next own `line` event — guard false, nothing attached — or, on a function's last
    line, at the `return` / `exception` event — guard true, the result is attached.)  WHICH value is attached is
    `c15_capture_value_partial` / `c15_capture_value_weak_partial`, not this. -/
theorem c15_capture_attaches (cfg : List Trig) (s : List Ctx) (ev : Event) (c : Ctx) (e : Event)
    (h : Eff.closed c e ∈ (traceCall cfg (norm s) ev).2) (hc : c.event = "call") :
    captureAttaches e.kind = true ∧ ∀ k, captureAttaches k = true ↔ k = "exception" ∨ k = "return" := by
  refine ⟨?_, fun k => by simp [captureAttaches]⟩
  rcases c15_capture_kind cfg s ev c e h hc with hk | hk <;> rw [hk] <;> decide

/-- tripwire: **which actions defer work** — the model's `Action.hasCallback` is the translated table: a span action attaches a
    `SpanResult`, a snapshot action a `DeferredSnapshotActionResult` iff its stage is `line_capture` / `method_capture`
    (the model's kind `capture`) and a `SendSnapshotActionResult` otherwise, a log action a `LogActionResult`, a metric
    action nothing; of these exactly `SpanResult` and `DeferredSnapshotActionResult` hand back a callback. -/
theorem c15_has_callback_table :
    (∀ n, (Action.mk n .span).hasCallback = resultHasCallback attachedBySpan) ∧
    (∀ n, (Action.mk n .capture).hasCallback = resultHasCallback (attachedBySnapshot true)) ∧
    (∀ n, (Action.mk n .snapshot).hasCallback = resultHasCallback (attachedBySnapshot false)) ∧
    (∀ n, (Action.mk n .log).hasCallback = resultHasCallback attachedByLog) ∧
    (∀ n, (Action.mk n .metric).hasCallback = false) ∧ attachedByMetric = none ∧
    (∀ st, isDeferred st = true ↔ st = some "line_capture" ∨ st = some "method_capture") := by
  refine ⟨fun _ => rfl, fun _ => rfl, fun _ => rfl, fun _ => rfl, fun _ => rfl, rfl, ?_⟩
  intro st
  cases st with
  | none => simp [isDeferred]
  | some x => simp [isDeferred, deferredStages]

/-- the result class an action attaches when it runs (a span action: when a span was created) -/
def resultClassOf : Kind → Option String
  | .span => some attachedBySpan
  | .capture => some (attachedBySnapshot true)
  | .snapshot => some (attachedBySnapshot false)
  | .log => some attachedByLog
  | .metric => attachedByMetric

/-- the results attached to the trigger context by the actions that ran, in order -/
def resultsOf (fired : List Action) : List (Action × String) :=
  fired.filterMap (fun a => (resultClassOf a.kind).map (fun c => (a, c)))

/-- `result.process(ctx)` by the translated table (no result fails) -/
def procOf (r : Action × String) : Except Py.Exn (Option Action) :=
  .ok (if resultHasCallback r.2 then some r.1 else none)

/-- model lemma: **`__exit__` composed with the table is the model's filter** — running the translated `TriggerContext.__exit__` over the
    results the fired actions attach (by the translated "which result" constants), each processed by the translated
    "hands back a callback" table, registers exactly `fired.filter Action.hasCallback`, in order — the list
    `Callbacks.stepWith` puts into the new context.  (`resultClassOf` / `procOf` are hand-written glue between the
    translated pieces: one result per action — a snapshot action with `log_msg` also attaches a `LogActionResult`,
    which hands back nothing.) -/
theorem c15_exit_composes (fired : List Action) :
    contextExit procOf (resultsOf fired) = (fired.filter Action.hasCallback, false) := by
  have hcb : ∀ (a : Action) (c : String) (rs : List (Action × String)), resultHasCallback c = true →
      contextExit procOf ((a, c) :: rs) = (a :: (contextExit procOf rs).1, (contextExit procOf rs).2) := by
    intro a c rs h; simp [contextExit, procOf, h]
  have hno : ∀ (a : Action) (c : String) (rs : List (Action × String)), resultHasCallback c = false →
      contextExit procOf ((a, c) :: rs) = contextExit procOf rs := by
    intro a c rs h; simp [contextExit, procOf, h]
  induction fired with
  | nil => rfl
  | cons a rest ih =>
    obtain ⟨tp, kind⟩ := a
    cases kind with
    | span =>
      rw [show resultsOf (⟨tp, .span⟩ :: rest) = (⟨tp, .span⟩, attachedBySpan) :: resultsOf rest from rfl,
        hcb _ _ _ rfl, ih]; rfl
    | capture =>
      rw [show resultsOf (⟨tp, .capture⟩ :: rest) = (⟨tp, .capture⟩, attachedBySnapshot true) :: resultsOf rest from rfl,
        hcb _ _ _ rfl, ih]; rfl
    | snapshot =>
      rw [show resultsOf (⟨tp, .snapshot⟩ :: rest) = (⟨tp, .snapshot⟩, attachedBySnapshot false) :: resultsOf rest
        from rfl, hno _ _ _ rfl, ih]; rfl
    | log =>
      rw [show resultsOf (⟨tp, .log⟩ :: rest) = (⟨tp, .log⟩, attachedByLog) :: resultsOf rest from rfl,
        hno _ _ _ rfl, ih]; rfl
    | metric =>
      rw [show resultsOf (⟨tp, .metric⟩ :: rest) = resultsOf rest from rfl, ih]; rfl

/-- **the callbacks of a pushed context are what `__exit__` registered** — a context pushed by an event carries exactly
    the callbacks the translated `__exit__` registers for the actions that ran at that event (`c15_exit_composes`), and
    its opener is that event: for every configuration, stack and event. -/
theorem c15_registered_callbacks (cfg : List Trig) (s : List Ctx) (ev : Event) (c : Ctx)
    (h : Eff.opened c ∈ (traceCall cfg (norm s) ev).2) :
    c.cbs = (contextExit procOf (resultsOf (firedAt (cfg.length : Int) (actionsFor cfg) ev))).1 ∧ c.opener = ev := by
  rw [c15_exit_composes]
  rw [traceCall, stepWith_norm, sstep_eq] at h
  have hpc : Eff.opened c ∉ (pcPhase s ev).2 := by
    unfold pcPhase
    cases s with
    | nil => simp
    | cons t r => by_cases hk : (isCbKind ev.kind && atLoc t ev) = true <;> simp [hk]
  by_cases hcb : cbsAt (cfg.length : Int) (actionsFor cfg) ev = []
  · simp only [hcb, if_true, List.mem_append, List.mem_map] at h
    rcases h with h | ⟨_, _, h⟩
    · exact absurd h hpc
    · cases h
  · simp only [hcb, if_false, List.mem_append, List.mem_map, List.mem_singleton] at h
    rcases h with (h | ⟨_, _, h⟩) | h
    · exact absurd h hpc
    · cases h
    · simp only [Eff.opened.injEq] at h
      subst h
      exact ⟨rfl, rfl⟩

end DeferredWork

/-! ### the per-thread store: `deep.thread_local.ThreadLocal`, translated method by method -/

section ThreadLocalStore
open TLocal Extracted.ThreadLocal HandlerTL

/-- **one cell per thread** — the translated methods against a one-cell specification, for every provider (stateful:
    `dp k` = what its k-th call does — `some v`: returns `v`, `none`: RAISES), every call counter and every slot
    (`none` = no attribute, `some none` = the attribute holds `None`); a result is (slot, counter, `some r` = returns
    `r` / `none` = an exception leaves the method).  `get` returns a stored non-`None` value without calling the
    provider; otherwise it calls the provider exactly once and either stores what it returned and returns it, or — the
    provider raised — lets that exception out with the slot as it was (still unset: nothing half-stored; `get` does
    not catch it).  `set` stores; `clear` removes (also when nothing is there); `is_set` reads; the `value` property is
    `get` / `set`.  In particular `set`, `clear`, `is_set` never raise (the `del` in `clear` is guarded) and `get` /
    `value` raise only what the provider raises. -/
theorem c15_tl_cell {α : Type} (dp : Nat → Option (Option α)) (c : Nat) (s : Slot α) (v : Option α) :
    tlGet dp c s = (match s with
      | some (some x) => (s, c, some (some x))
      | _ => match dp c with
        | some d => (some d, c + 1, some d)
        | none => (s, c + 1, none)) ∧
    tlSet dp v c s = (some v, c, some ()) ∧
    tlClear dp c s = (none, c, some ()) ∧
    tlIsSet dp c s = (s, c, some s.isSome) ∧
    tlValueGet dp c s = tlGet dp c s ∧
    tlValueSet dp v c s = tlSet dp v c s :=
  ⟨get_spec dp c s, set_spec dp v c s, clear_spec dp c s, isSet_spec dp c s, valueGet_spec dp c s,
    by rw [valueSet_spec, set_spec]⟩

/-- **`get()` hands out the stored object** — whatever the slot was, after `tl.get().<mutate>` (the handler's
    `self._callbacks.get().append(ctx)`) with a provider that does not return `None`, the next `get` returns the
    mutated value and does not call the provider again: nothing pushed is lost, no second default is created. -/
theorem c15_tl_update_visible {α : Type} [DecidableEq α] (dp : Nat → Option (Option α))
    (hd : ∀ k, ∃ d, dp k = some (some d)) (c : Nat) (s : Slot α) (f : α → α) :
    ∃ v, (opStep dp c s .get).2.2 = .val (some v) ∧
      (opStep dp c s (.update f)).2.2 = .unit ∧
      opStep dp (opStep dp c s (.update f)).2.1 (opStep dp c s (.update f)).1 .get =
        (some (some (f v)), (opStep dp c s (.update f)).2.1, .val (some (f v))) := by
  rw [opStep_get, opStep_update]
  obtain ⟨d, hdc⟩ := hd c
  cases s with
  | none => exact ⟨d, by simp [hdc], by simp [hdc], by simp [hdc, opStep_get]⟩
  | some w =>
    cases w with
    | none => exact ⟨d, by simp [hdc], by simp [hdc], by simp [hdc, opStep_get]⟩
    | some x => exact ⟨x, rfl, rfl, by rw [opStep_get]⟩

/-- a stored `None` counts as "set" for `is_set` but as "nothing there" for `get`, which then calls the provider and
    overwrites it (the code as it is; the handler never stores `None`). -/
theorem c15_tl_none_value_witness :
    (opStep (fun k => some (some (10 + k))) 0 (some none) .isSet).2.2 = .flag true ∧
    opStep (fun k => some (some (10 + k))) 0 (some none) .get = (some (some 10), 1, .val (some 10)) ∧
    opStep (fun k => some (some (10 + k))) 1 (some (some 10)) .get = (some (some 10), 1, .val (some 10)) ∧
    (opStep (fun _ => some (none : Option Nat)) 0 none (.update (· + 1))).2.2 = .raised := by decide

/-- a provider that raises at its first call and returns 2 at its second (audit probe P4): the first `get` lets the
    exception out and leaves the slot unset (`is_set` stays `False`), the next `get` calls the provider again and
    stores / returns 2. -/
theorem c15_tl_raising_provider_witness :
    opStep (fun k => if k = 0 then none else some (some (k + 1))) 0 (none : Slot Nat) .get = (none, 1, .raised) ∧
    (opStep (fun k => if k = 0 then none else some (some (k + 1))) 1 (none : Slot Nat) .isSet).2.2 = .flag false ∧
    opStep (fun k => if k = 0 then none else some (some (k + 1))) 1 (none : Slot Nat) .get
      = (some (some 2), 2, .val (some 2)) := by decide

/-- model lemma: **frame** — an operation of thread `u` changes no slot with another key (for `threading.local`, `key = id`:
    no other thread's slot); by construction of the machine of all threads. -/
theorem c15_tl_frame {κ α : Type} [DecidableEq κ] [DecidableEq α] (key : Thr → κ) (dp : Nat → Option (Option α))
    (S : St κ α) (u : Thr) (op : Op α) (k : κ) (h : k ≠ key u) :
    (stepK key dp S (u, op)).1.store k = S.store k :=
  stepK_frame key dp S u op k h

/-- model lemma: **every schedule** (true by construction of the machine `stepK`, which gives each operation to the slot of
    its thread: the per-thread-ness is CPython's `threading.local`, trusted, and checked on real threads by the `tl`
    stream — what the lemma adds is that the translated methods keep no other state) — for every interleaving `gs` of the operations of any number of threads on one `ThreadLocal`
    (store keyed by the thread object, provider returning a fixed value as `lambda: deque()` / `lambda: None` do),
    from every store: the slot of thread `t` afterwards and the results of `t`'s operations (what its `get` / `is_set`
    returned) are those of `t` running alone on its own operations — no thread sees or loses anything through
    another thread's operations. -/
theorem c15_tl_interleaved {α : Type} [DecidableEq α] (d : Option α) (gs : List (Thr × Op α)) (S : St Thr α)
    (t : Thr) :
    ((runT (fun _ => some d) S gs).1.store t, projRes t (runT (fun _ => some d) S gs).2) =
      solo (fun _ => some d) 0 (S.store t) (projOps t gs) :=
  run_proj d gs S t

/-- model lemma: **a fresh thread finds nothing** (by construction of `stepK`, see `c15_tl_interleaved`) — after any schedule from the empty store, a thread whose key no acting thread
    had (for `threading.local`, `key = id`: a thread object that has not acted yet — whatever idents the finished
    threads had) has no value: its `is_set` is `False` and its first `get` is the provider's next value. -/
theorem c15_tl_fresh_thread {κ α : Type} [DecidableEq κ] [DecidableEq α] (key : Thr → κ) (dp : Nat → Option (Option α))
    (gs : List (Thr × Op α)) (t : Thr) (h : ∀ te ∈ gs, key te.1 ≠ key t) :
    (runK key dp St.empty gs).1.store (key t) = none ∧
    (stepK key dp (runK key dp St.empty gs).1 (t, .isSet)).2 = .flag false ∧
    (stepK key dp (runK key dp St.empty gs).1 (t, .get)).2 =
      (match dp (runK key dp St.empty gs).1.calls with | some d => .val d | none => .raised) := by
  have h0 : (runK key dp St.empty gs).1.store (key t) = none := by
    rw [runK_untouched key dp gs St.empty (key t) h]; rfl
  refine ⟨h0, ?_, ?_⟩
  · simp [stepK, opStep, isSet_spec, h0]
  · simp only [stepK, opStep_get, h0]
    cases dp (runK key dp St.empty gs).1.calls <;> rfl

/-- **the key must be the thread, not its ident** — two thread objects with the same ident (the OS reuses the ident
    of a finished thread): in a store keyed by ident the later thread finds the value the earlier one left
    (`is_set` true, `get` returns it: the class before 0ec78d1); in the store keyed by the thread object it finds
    nothing. -/
theorem c15_tl_ident_keyed_inherits_witness :
    (stepK (fun _ => (7 : Nat)) (fun _ => some (none : Option Nat))
      (runK (fun _ => (7 : Nat)) (fun _ => some none) St.empty [(0, .set (some 5))]).1 (1, .isSet)).2 = .flag true ∧
    (stepK (fun _ => (7 : Nat)) (fun _ => some (none : Option Nat))
      (runK (fun _ => (7 : Nat)) (fun _ => some none) St.empty [(0, .set (some 5))]).1 (1, .get)).2 = .val (some 5) ∧
    (stepT (fun _ => some (none : Option Nat))
      (runT (fun _ => some none) St.empty [(0, .set (some 5))]).1 (1, .isSet)).2 = .flag false := by decide

/-- a store keyed by anything injective on the threads (thread objects; idents as long as none is reused) gives every
    thread the same results as the store keyed by the thread object, under every schedule and provider. -/
theorem c15_tl_key_injective {κ α : Type} [DecidableEq κ] [DecidableEq α] (key : Thr → κ)
    (hinj : ∀ a b, key a = key b → a = b) (dp : Nat → Option (Option α)) (gs : List (Thr × Op α)) :
    (runK key dp St.empty gs).2 = (runT dp St.empty gs).2 ∧
    ∀ t, (runK key dp St.empty gs).1.store (key t) = (runT dp St.empty gs).1.store t :=
  runK_injective key hinj dp gs St.empty St.empty (fun _ => rfl) rfl

/-- model lemma: **the handler model's slot expressions are the translated `ThreadLocal` methods** — with the handler's
    provider (`lambda: deque()`), `self._callbacks.is_set` is `slot.isSome`; `self._callbacks.value` is `slot.getD []`
    and leaves the slot set; `self._callbacks.get().append(x)` leaves `some (x :: slot.getD [])` (head of the list =
    right end of the deque); `self._callbacks.clear()` leaves it unset — the expressions `Callbacks.stepWith` and the
    translated `__process_call_backs` use. -/
theorem c15_slot_refines_thread_local (c : Nat) (slot : Option (List Ctx)) (x : Ctx) :
    (opStep dq c (embSlot slot) .isSet).2.2 = .flag slot.isSome ∧
    (opStep dq c (embSlot slot) .isSet).1 = embSlot slot ∧
    (opStep dq c (embSlot slot) .valueGet).2.2 = .val (some (slot.getD [])) ∧
    (opStep dq c (embSlot slot) .valueGet).1 = embSlot (some (slot.getD [])) ∧
    (opStep dq c (embSlot slot) (.update (x :: ·))).1 = embSlot (some (x :: slot.getD [])) ∧
    (opStep dq c (embSlot slot) .clear).1 = embSlot none := by
  cases slot <;>
    simp [opStep, isSet_spec, valueGet_spec, get_spec, clear_spec, embSlot, dq]

/-- model lemma: **the handler over the translated per-thread store, one event** (a refinement between two HAND-WRITTEN
    machines: `stepTL` is `stepWith` re-written by hand in source order over the store API, only the four store methods
    inside it are translated; the code reads `self._callbacks.value` several times per event, `stepTL` once — the same
    because `is_set` implies a non-`None` value for the handler) — `trace_call` written against the `ThreadLocal`
    API in the order of the source text (`HandlerTL.stepTL`: `is_set`, `value` + in-place pop / append, `clear()`,
    `get().append(..)`, each one the translated method) does to the calling thread's `ThreadLocal` slot and produces as
    effects exactly what `Callbacks.stepWith` — the handler every theorem above is about — does with its
    `Option (List Ctx)`: for every configuration size, trigger phase, provider call counter, slot and event. -/
theorem c15_handler_over_thread_local_step (ncfg : Int) (acts : Event → List Action) (calls : Nat)
    (slot : Option (List Ctx)) (ev : Event) :
    (stepTL ncfg acts calls (embSlot slot) ev).1.1 = embSlot (stepWith ncfg acts slot ev).1 ∧
    (stepTL ncfg acts calls (embSlot slot) ev).2 = (stepWith ncfg acts slot ev).2 :=
  stepTL_refines ncfg acts calls slot ev

/-- model lemma: **the handler over the translated per-thread store, all threads** (model-to-model, see the step lemma) — for every configuration and every interleaving
    of the events of any number of threads, the machine in which all threads share ONE `ThreadLocal` (the store keyed by
    the thread object, every access a translated method) has the effects of `Trigger.runG`, and every thread's
    `ThreadLocal` slot is the embedding of its `runG` slot: `c15_interleaved`, `c15_interleaved_complete`,
    `c15_nothing_inherited` are theorems about that machine. -/
theorem c15_handler_over_thread_local (cfg : List Trig) (gs : List (Tid × Event)) :
    (runGTL cfg St.empty gs).2 = (runG cfg Store.empty gs).2 ∧
    ∀ t, (runGTL cfg St.empty gs).1.store t = embSlot ((runG cfg Store.empty gs).1 t) :=
  runGTL_refines cfg gs Store.empty St.empty (fun _ => rfl)

/-- **nothing left in the store** — in that machine, after any schedule, the `ThreadLocal` attribute of a thread whose
    own stream satisfied the hypotheses is gone again (`clear()` ran: `is_set` is `False`), and a thread object that has
    not run finds none — whatever the other threads did and whatever idents they had. -/
theorem c15_thread_local_released (cfg : List Trig) (hnamed : AllNamed cfg) (gs : List (Tid × Event)) (t : Tid) :
    (∀ forest k, proj t gs = flattenForest forest k → forestNoClash forest → forestNoStack (opens cfg) forest k →
      (runGTL cfg St.empty gs).1.store t = none) ∧
    (proj t gs = [] → (runGTL cfg St.empty gs).1.store t = none) := by
  have h := (c15_handler_over_thread_local cfg gs).2 t
  refine ⟨fun forest k hp hc hs => ?_, fun hp => ?_⟩
  · rw [h, (c15_nothing_inherited cfg hnamed gs).1 t forest k hp hc hs]; rfl
  · rw [h, (c15_nothing_inherited cfg hnamed gs).2 t hp]; rfl

/-- `c15_nothing_inherited` / `c15_thread_local_released` under the weaker recursion hypothesis `NoClashW`. -/
theorem c15_nothing_inherited_weak (cfg : List Trig) (hnamed : AllNamed cfg) (gs : List (Tid × Event)) (t : Tid)
    (forest : List Inv) (k : Nat) (hp : proj t gs = flattenForest forest k)
    (hc : forestNoClashW (opens cfg) forest k) (hs : forestNoStack (opens cfg) forest k) :
    (runG cfg Store.empty gs).1 t = none ∧ (runGTL cfg St.empty gs).1.store t = none := by
  have h1 := (c15_interleaved_complete_weak cfg hnamed gs t forest k hp hc hs).nothing_pending
  refine ⟨h1, ?_⟩
  rw [(c15_handler_over_thread_local cfg gs).2 t, h1]; rfl

/-- tripwire: the store of a `ThreadLocal` is created by `threading.local()` in `__init__` (one per instance).  (`rfl` on a constant
    the extractor prints: the real tripwire is the extractor's shape check of `__init__` — it refuses to translate
    otherwise; this line only makes the dependency visible in the audit.) -/
theorem c15_tl_store_factory : storeFactory = "threading.local" := rfl

/-- non-vacuity: three threads (idents irrelevant) interleaved on one instance with the handler's provider -/
example :
    (runT (fun _ => some (some ([] : List Nat))) St.empty
      [(0, .isSet), (0, .update (1 :: ·)), (1, .isSet), (1, .update (2 :: ·)), (0, .update (3 :: ·)), (1, .clear),
       (2, .get), (0, .valueGet), (1, .isSet)]).2 =
      [(0, .flag false), (0, .unit), (1, .flag false), (1, .unit), (0, .unit), (1, .unit), (2, .val (some [])),
       (0, .val (some [3, 1])), (1, .flag false)] := by decide

end ThreadLocalStore

/-! ### non-vacuity: a program with a method span + deferred capture on one function (two callbacks in one
    context), a line span inside a nested function, a caught exception, a generator resumed twice, on two
    interleaved threads -/

def demoCfg : List Trig :=
  install [⟨.func "m.py" "f", [⟨0, .span⟩]⟩, ⟨.func "m.py" "f", [⟨1, .capture⟩]⟩, ⟨.line "m.py" 12, [⟨2, .span⟩]⟩,
           ⟨.func "m.py" "gen", [⟨3, .span⟩]⟩] []

def demoTree : Inv :=
  .mk "/app/m.py" "f" 1 1 [] (.line 2 [] (.call
      (.mk "/app/m.py" "g" 2 10 [] (.line 11 [] (.line 12 [] (.call
          (.mk "/app/m.py" "gen" 3 20 [] (.line 21 [] .nil) (.ret 21 5)) (.caught 12 9 (.line 13 [] .nil))))) (.ret 13 4))
      (.line 3 [] (.call (.mk "/app/m.py" "gen" 3 20 [⟨3, .span⟩] (.line 22 [] .nil) (.raise 22 8)) (.caught 3 8 (.line 4 [] .nil))))))
    (.ret 4 42)

example : demoTree.NoClash ∧ demoTree.NoStack (opens demoCfg) [0] := by
  refine ⟨?_, ?_⟩
  · simp [demoTree, Inv.NoClash, Items.NoClash, Items.keys, Inv.keys, fileOf, locationFromEvent, PyX.basename]
  · simp only [demoTree, Inv.NoStack, Items.NoStack]
    decide

example : (run demoCfg none (demoTree.flatten [0])).1 = none ∧
    ((run demoCfg none (demoTree.flatten [0])).2.filter
      (fun e => match e with | .opened _ => true | _ => false)).length = 3 := by decide

end C15
