/-
  C15 — Deferred work (spans, deferred captures) is completed exactly once, inside its own invocation, on its own
  thread.

  The handler is `Trigger.run` / `Trigger.runG`: the statement order of `TriggerHandler.__trace_call` around the
  *translated* `__process_call_backs`, `CallbackContext.at_location` (+ its two helpers), `location_from_event`,
  `__actions_for_location`, `at_location` of line / named-function locations and the guards (regenerated from the
  source on every run).

  Quantifiers: every configuration `cfg` (any number of line and method span / capture tracepoints, several
  callbacks per context), every gate outcome (each `call`/`line` node of a tree carries the list of actions the
  gate refuses there: an arbitrary function of the event position — every fire_count / fire_period / condition
  outcome), every invocation forest (nesting, loops unrolled into `line`s, caught and propagating exceptions,
  generators: a resumption is an invocation with the same `frame`), every interleaving of any number of threads.

  Two hypotheses are needed, both forced by the code as it is, both shown necessary by a `decide`d witness and
  both replayed on the implementation as known findings:
    * `NoClash` — no invocation has a (transitively) nested invocation with the same (file name, function name):
      pending contexts are matched by name, not by frame (D27, `C15/recursion-name-match`);
    * `NoStack` — no invocation reaches its own plain `return` with both its call-opened and a line-opened
      context pending: only the top context is examined per event (`C15/top-only-stacked-contexts`).
      (`NoStackStrict`, used only for *which value* a deferred capture attaches, also excludes that situation at
      own `exception` events.)

  Scope, stated as it is:
  * `AllNamed cfg` — every method location has a name (the property's "method tracepoint with a method name").  A
    nameless method location can say "here" at any kind of event and turns into a named one when it does (the
    installed triggers are then state, `Trigger.runS`); all theorems about runs are about `Trigger.run` over fixed
    triggers, which is the handler exactly under `AllNamed` (`C03.c03_run_faithful_partial`);
    `c15_named_needed_witness`.
  * `NoClash` is keyed by (file BASE name, `co_name`) — what the code compares.  It excludes recursion, but also: a
    method calling a same-named method of another class in the same file (`A.__init__` → `B.__init__`, `run`,
    `close` …), same-named functions in two files with the same base name (`pkg_a/utils.py`, `pkg_b/utils.py`)
    calling one another, and nested `<lambda>` / `<genexpr>` / `<listcomp>` frames of one file.
  * The configuration is fixed during a run (except for being emptied: `c15_completion_config_independent`): a
    tracepoint ADDED while an invocation is running is not covered by these theorems.
  * Callbacks may fail with an `Exception` (`c15_failed_callback_isolated_partial`); a BaseException from a callback
    leaves `process` (`c15_base_failure_skips_rest_witness`), ends the event (catch-all of `trace_call`) and is outside
    the theorems.
  * `c15_thread_local` is definitional for the machine of all threads (a tripwire).
-/
import DeepModel.Proofs.Trigger

namespace C15
open Callbacks Trigger Extracted.Locations

/-! ### one thread -/

/-- what `c15_partial` etc. conclude about the effects `w` of a thread's run -/
structure Completed (final : Option (List Ctx)) (w : List Eff) : Prop where
  /-- nothing is left pending and the thread-local slot is unset again -/
  nothing_pending : final = none
  /-- the open/close effects are well bracketed from the empty stack to the empty stack: every close closes the
      most recently opened context that is still open (LIFO), nothing is closed that was not opened, and nothing
      stays open -/
  bracketed : chk [] w = some []
  /-- exactly once: every context is closed as often as it was opened -/
  exactly_once : ∀ c, countOpened c w = countClosed c w
  /-- window and frame: a context is closed at an event of the invocation that opened it (hence not after that
      invocation's `return` event, and in the same frame) -/
  window : ∀ c ev, Eff.closed c ev ∈ w → c.opener.inv = ev.inv ∧ c.opener.frame = ev.frame

/-- **exactly once / window / LIFO** (partial: `NoClash`, `NoStack`) — for every configuration, every gate outcome
    and every forest of invocations satisfying the two hypotheses, a thread that starts with nothing pending ends
    with nothing pending, and every span / deferred capture it opened (method or line, any number per context) was
    completed exactly once, in LIFO order, at an event of its own invocation. -/
theorem c15_partial (cfg : List Trig) (hnamed : AllNamed cfg) (forest : List Inv) (k : Nat)
    (hc : forestNoClash forest) (hs : forestNoStack (opens cfg) forest k) :
    Completed (run cfg none (flattenForest forest k)).1 (run cfg none (flattenForest forest k)).2 := by
  have hn : (none : Option (List Ctx)) = norm [] := rfl
  obtain ⟨h1, h2⟩ := forest_frame (cfg.length : Int) (actionsFor cfg) (kindsOK_actionsFor cfg hnamed) forest k hc hs
  have hchk := chk_srun (cfg.length : Int) (actionsFor cfg) [] (flattenForest forest k)
  rw [h1] at hchk
  rw [run, hn, runWith_norm]
  refine ⟨by rw [h1]; rfl, hchk, ?_, h2⟩
  intro c
  have := chk_counts c [] [] _ hchk
  simpa using this

/-- **`AllNamed` is needed** for the theorems as stated over fixed triggers: a nameless method location with a span on a
    3-line module is "here" at the `line` AND at the `return` event of line 3 (the test ignores the event kind); over
    fixed triggers the context pushed at the `return` event is never completed.  (In the handler the location has
    become the named location of `<module>` by then: `Loc.settle`.) -/
theorem c15_named_needed_witness :
    (run (install [⟨.nameless "a.py" [("<module>", 0, 3)], [⟨0, .span⟩]⟩] []) none
      ((Callbacks.Inv.mk "/x/a.py" "<module>" 1 1 [] (.line 1 [] (.line 2 [] (.line 3 [] .nil))) (.ret 3 0)).flatten [0])).1
      ≠ none := by decide

/-- **LIFO holds unconditionally** — for every stream at all (no hypothesis), the open/close effects of a run
    replay against the handler's own stack: contexts are only ever closed in LIFO order.  (What can fail without
    the hypotheses is *where* and *whether* they are closed.) -/
theorem c15_lifo (cfg : List Trig) (s : List Ctx) (evs : List Event) :
    ∃ s', (run cfg (norm s) evs).1 = norm s' ∧ chk s (run cfg (norm s) evs).2 = some s' := by
  refine ⟨(srun (cfg.length : Int) (actionsFor cfg) s evs).1, ?_, ?_⟩
  · rw [run, runWith_norm]
  · rw [run, runWith_norm]; exact chk_srun _ _ s evs

/-- **not before the program has moved past the triggering event** — a context completed at an event was already
    pending when the event arrived (it was pushed by an earlier event), and it was the top of the stack. -/
theorem c15_after_trigger (cfg : List Trig) (s : List Ctx) (ev : Event) (c : Ctx) (e : Event)
    (h : Eff.closed c e ∈ (traceCall cfg (norm s) ev).2) : e = ev ∧ s.head? = some c := by
  rw [traceCall, stepWith_norm, sstep_eq] at h
  have hpc : Eff.closed c e ∈ (pcPhase s ev).2 := by
    by_cases hcb : cbsAt (cfg.length : Int) (actionsFor cfg) ev = []
    · simp only [hcb, if_true, List.mem_append, List.mem_map] at h
      rcases h with h | ⟨_, _, h⟩
      · exact h
      · cases h
    · simp only [hcb, if_false, List.mem_append, List.mem_map, List.mem_singleton] at h
      rcases h with (h | ⟨_, _, h⟩) | h
      · exact h
      · cases h
      · cases h
  unfold pcPhase at hpc
  cases s with
  | nil => simp at hpc
  | cons t r =>
    by_cases hk : (isCbKind ev.kind && atLoc t ev) = true
    · simp only [hk, if_true, List.mem_singleton, Eff.closed.injEq] at hpc
      exact ⟨hpc.2, by simp [hpc.1]⟩
    · simp [hk] at hpc

def closedOf : List Eff → List (Ctx × Event)
  | [] => []
  | .closed c ev :: w => (c, ev) :: closedOf w
  | _ :: w => closedOf w

theorem closedOf_append (a b : List Eff) : closedOf (a ++ b) = closedOf a ++ closedOf b := by
  induction a with
  | nil => rfl
  | cons e w ih => cases e <;> simp [closedOf, ih]

theorem closedOf_fired (l : List Action) (ev : Event) : closedOf (l.map (fun a => Eff.fired a ev)) = [] := by
  induction l with
  | nil => rfl
  | cons a l ih => simp [closedOf, ih]

/-- **completion does not depend on the installed tracepoints** — pending callbacks are processed *before* the
    early return for an empty tracepoint list: which contexts an event completes, and what is left of the stack
    below them, is the same under every configuration, in particular under the empty one (a poll that delivered no
    tracepoints, a shutdown, while the instrumented function was still running).  With the empty list the event
    does exactly the callback phase. -/
theorem c15_completion_config_independent (cfg cfg' : List Trig) (s : List Ctx) (ev : Event) :
    closedOf (traceCall cfg (norm s) ev).2 = closedOf (traceCall cfg' (norm s) ev).2 ∧
    traceCall [] (norm s) ev = (norm (pcPhase s ev).1, (pcPhase s ev).2) ∧
    (∀ c r, s = c :: r → isCbKind ev.kind = true → atLoc c ev = true →
      traceCall [] (norm s) ev = (norm r, [Eff.closed c ev])) := by
  have key : ∀ cfg : List Trig, closedOf (traceCall cfg (norm s) ev).2 = closedOf (pcPhase s ev).2 := by
    intro cfg
    rw [traceCall, stepWith_norm, sstep_eq]
    by_cases h : cbsAt (cfg.length : Int) (actionsFor cfg) ev = [] <;>
      simp [h, closedOf_append, closedOf_fired, closedOf]
  have hempty : traceCall [] (norm s) ev = (norm (pcPhase s ev).1, (pcPhase s ev).2) := by
    rw [traceCall, stepWith_norm, sstep_eq]
    have hf : ∀ n : Int, firedAt n (actionsFor []) ev = [] :=
      fun n => firedAt_nil_of _ _ _ (by simp [actionsFor, actionsForLocation])
    simp [cbsAt, hf]
  refine ⟨by rw [key cfg, key cfg'], hempty, ?_⟩
  intro c r hs hk ha
  subst hs
  rw [hempty]
  simp [pcPhase, hk, ha]

/-- **a failing completion is isolated** (partial: the failures are of class `Exception`) — `CallbackContext.process`,
    translated with its per-callback `try/except Exception`: whichever callbacks of a context fail with an
    `Exception`, `process` is called on every callback of the context, once each, in order, and no exception leaves.
    So `Eff.closed c ev` — "the callbacks `c.cbs` were run at `ev`" — means the same under every such fault
    assignment: a failing span close / push does not change which other deferred items of the event are completed. -/
theorem c15_failed_callback_isolated_partial {β : Type} (fails : β → Option Py.Exn)
    (hexc : ∀ b, fails b ≠ some Py.Exn.base) (cbs : List β) :
    contextProcess fails cbs = (cbs, false) := by
  induction cbs with
  | nil => rfl
  | cons c r ih =>
    cases hc : fails c with
    | none => simp [contextProcess, hc, ih]
    | some e =>
      cases e with
      | exc => simp [contextProcess, hc, ih]
      | base => exact absurd hc (hexc c)

/-- the hypothesis is needed: a failure that is not an `Exception` (BaseException: SystemExit, KeyboardInterrupt,
    GeneratorExit, a library's own BaseException subclass) at the first callback leaves `process`; the remaining
    callbacks of the context are not run (and the context is already off the queue). -/
theorem c15_base_failure_skips_rest_witness :
    contextProcess (fun b => if b = 1 then some Py.Exn.base else none) [1, 2, 3] = ([1], true) ∧
    contextProcess (fun b => if b = 1 then some Py.Exn.exc else none) [1, 2, 3] = ([1, 2, 3], false) := by decide

/-- **the recursion hypothesis is needed** (D27) — `rec(2)` with a method span that fires once (the gate refuses
    the two inner calls): the tree violates `NoClash` only, and the span opened by invocation `[0]` is closed at
    the `return` event of the innermost invocation `[0,0,0]`, in another frame. -/
def recCfg : List Trig := install [⟨.func "m.py" "rec", [⟨0, .span⟩]⟩] []
def recTree : Inv :=
  .mk "/app/m.py" "rec" 1 10 [] (.line 11 [] (.call
    (.mk "/app/m.py" "rec" 2 10 [⟨0, .span⟩] (.line 11 [] (.call
      (.mk "/app/m.py" "rec" 3 10 [⟨0, .span⟩] (.line 12 [] .nil) (.ret 12 0)) (.line 13 [] .nil))) (.ret 13 1))
    (.line 13 [] .nil))) (.ret 13 2)

theorem c15_recursion_witness :
    ¬ recTree.NoClash ∧ recTree.NoStack (opens recCfg) [0] ∧
    (∃ c ev, Eff.closed c ev ∈ (run recCfg none (recTree.flatten [0])).2 ∧
      c.opener.inv = [0] ∧ ev.inv = [0, 0, 0] ∧ c.opener.frame = 1 ∧ ev.frame = 3) := by
  refine ⟨?_, ?_, ?_⟩
  · simp [recTree, Inv.NoClash, Items.NoClash, Items.keys, Inv.keys]
  · simp only [recTree, Inv.NoStack, Items.NoStack]
    decide
  · refine ⟨⟨"call", "m.py", 10, "rec", [⟨0, .span⟩], ⟨"call", "/app/m.py", 10, "rec", 0, 1, [0], []⟩⟩,
      ⟨"return", "/app/m.py", 12, "rec", 0, 3, [0, 0, 0], []⟩, ?_, rfl, rfl, rfl, rfl⟩
    decide

/-- **the stacking hypothesis is needed** — `def f(x): y = x + 1; return y` with a method span on `f` and a line
    span on its last line: no recursion (`NoClash` holds), `NoStack` fails, and the method span is never closed:
    it is still pending when the thread's work is over. -/
def stackCfg : List Trig := install [⟨.func "m.py" "f", [⟨0, .span⟩]⟩, ⟨.line "m.py" 3, [⟨1, .span⟩]⟩] []
def stackTree : Inv := .mk "/app/m.py" "f" 1 1 [] (.line 2 [] (.line 3 [] .nil)) (.ret 3 7)

theorem c15_stacked_witness :
    stackTree.NoClash ∧ ¬ stackTree.NoStack (opens stackCfg) [0] ∧
    (run stackCfg none (stackTree.flatten [0])).1 =
      some [⟨"call", "m.py", 1, "f", [⟨0, .span⟩], ⟨"call", "/app/m.py", 1, "f", 0, 1, [0], []⟩⟩] ∧
    countClosed ⟨"call", "m.py", 1, "f", [⟨0, .span⟩], ⟨"call", "/app/m.py", 1, "f", 0, 1, [0], []⟩⟩
      (run stackCfg none (stackTree.flatten [0])).2 = 0 := by
  refine ⟨?_, ?_, ?_, ?_⟩
  · simp [stackTree, Inv.NoClash, Items.NoClash, Items.keys]
  · simp only [stackTree, Inv.NoStack, Items.NoStack]
    decide
  · decide
  · decide

/-! ### captured values -/

/-- a context opened at a `call` event (method span, method capture) is only ever completed at a `return` or an
    `exception` event — for every stream, no hypothesis.  (The value a deferred capture attaches is the `arg` of
    that event.) -/
theorem c15_capture_kind (cfg : List Trig) (s : List Ctx) (ev : Event) (c : Ctx) (e : Event)
    (h : Eff.closed c e ∈ (traceCall cfg (norm s) ev).2) (hc : c.event = "call") :
    e.kind = "return" ∨ e.kind = "exception" := by
  obtain ⟨rfl, hhead⟩ := c15_after_trigger cfg s ev c e h
  rw [traceCall, stepWith_norm, sstep_eq] at h
  cases s with
  | nil => simp at hhead
  | cons t r =>
    simp only [List.head?_cons, Option.some.injEq] at hhead
    subst hhead
    by_cases hk : (isCbKind e.kind && atLoc t e) = true
    · simp only [Bool.and_eq_true] at hk
      have := hk.2
      unfold atLoc at this
      simp only [decide_eq_true_eq] at this
      rcases this.2.2 with h3 | h3 | h3
      · rw [hc] at h3; exact absurd h3 (by decide)
      · exact Or.inr h3
      · exact Or.inl h3
    · exfalso
      have hpc : (pcPhase (t :: r) e).2 = [] := by simp [pcPhase, hk]
      by_cases hcb : cbsAt (cfg.length : Int) (actionsFor cfg) e = []
      · simp [hcb, hpc] at h
      · simp [hcb, hpc] at h

def noCaught : Items → Prop
  | .nil => True
  | .line _ _ rest => noCaught rest
  | .caught _ _ _ => False
  | .call _ rest => noCaught rest

theorem firstExit_noCaught (body : Items) (fi : FrameInfo) (x : Exit) (h : noCaught body) :
    body.firstExit fi x =
      match x with
      | .ret n v => fi.ev "return" n v []
      | .raise n e => fi.ev "exception" n e [] := by
  match body with
  | .nil => cases x <;> rfl
  | .line n d rest => exact firstExit_noCaught rest fi x h
  | .caught .. => exact absurd h (by simp [noCaught])
  | .call i rest => exact firstExit_noCaught rest fi x h

/-- **where a call-opened context completes** (partial: named locations, `NoClash`, `NoStackStrict`) — an invocation
    whose `call` event opens a context (method span / deferred method capture), run on any stack whose contexts
    belong to other functions (every nested invocation of a `NoClash` tree is in that situation), hands the stack
    back unchanged, and the context is completed at `firstExit`: the *first* own `exception` or `return` event of
    that same invocation — also when that is an exception the function then catches. -/
theorem c15_capture_first_exit_partial (cfg : List Trig) (hnamed : AllNamed cfg) (i : Inv) (p : List Nat)
    (stk : List Ctx) (hc : i.NoClash) (hs : i.NoStackStrict (opens cfg) p)
    (hf : ∀ c ∈ stk, (c.file, c.func) ∉ i.keys) (hopen : opens cfg (i.callEvent p) = true) :
    (run cfg (norm stk) (i.flatten p)).1 = norm stk ∧
    Eff.closed (newCtx (cbsAt (cfg.length : Int) (actionsFor cfg) (i.callEvent p)) (i.callEvent p)) (i.firstExit p)
      ∈ (run cfg (norm stk) (i.flatten p)).2 := by
  obtain ⟨h1, _, h3⟩ :=
    inv_frame_strict (cfg.length : Int) (actionsFor cfg) (kindsOK_actionsFor cfg hnamed) i p stk hc hs hf
  rw [run, runWith_norm, h1]
  exact ⟨rfl, h3 hopen⟩

/-- the event at which an invocation ends: its `return` event carrying the return value, resp. its propagating
    `exception` event carrying the exception -/
def exitEvent (path func : String) (frame : Nat) (p : List Nat) : Exit → Event
  | .ret n v => ⟨"return", path, n, func, v, frame, p, []⟩
  | .raise n e => ⟨"exception", path, n, func, e, frame, p, []⟩

/-- **captured value** (partial: named locations, `NoClash`, `NoStackStrict`, and `noCaught`: the invocation sees no
    exception event of its own before it ends) — the context opened at the invocation's `call` event is completed at
    the invocation's `return` event carrying its return value, resp. at its propagating `exception` event carrying
    the exception: "a captured result is the value returned or the exception raised by that same invocation". -/
theorem c15_capture_value_partial (cfg : List Trig) (hnamed : AllNamed cfg) (path func : String) (frame : Nat)
    (ln : Int) (den : List Action) (body : Items) (x : Exit) (p : List Nat) (stk : List Ctx)
    (hc : (Callbacks.Inv.mk path func frame ln den body x).NoClash)
    (hs : (Callbacks.Inv.mk path func frame ln den body x).NoStackStrict (opens cfg) p)
    (hnc : noCaught body)
    (hf : ∀ c ∈ stk, (c.file, c.func) ∉ (Callbacks.Inv.mk path func frame ln den body x).keys)
    (hopen : opens cfg ((Callbacks.Inv.mk path func frame ln den body x).callEvent p) = true) :
    Eff.closed (newCtx (cbsAt (cfg.length : Int) (actionsFor cfg)
        ((Callbacks.Inv.mk path func frame ln den body x).callEvent p))
        ((Callbacks.Inv.mk path func frame ln den body x).callEvent p))
      (exitEvent path func frame p x)
      ∈ (run cfg (norm stk) ((Callbacks.Inv.mk path func frame ln den body x).flatten p)).2 := by
  have h := (c15_capture_first_exit_partial cfg hnamed _ p stk hc hs hf hopen).2
  have he : (Callbacks.Inv.mk path func frame ln den body x).firstExit p = exitEvent path func frame p x := by
    simp only [Inv.firstExit]
    rw [firstExit_noCaught body _ x hnc]
    cases x <;> rfl
  rw [he] at h
  exact h

/-- **`noCaught` is needed** (known finding `C15/caught-exception-completes`) — `f` has a deferred method capture,
    calls `g`, which raises, catches the exception, goes on and returns 9: all other hypotheses hold, the capture
    is completed at the CAUGHT `exception` event (arg 5) — not at `f`'s `return` event, whose value 9 is never
    attached. -/
def caughtCfg : List Trig := install [⟨.func "m.py" "f", [⟨0, .capture⟩]⟩] []
def caughtTree : Inv :=
  .mk "/app/m.py" "f" 1 1 [] (.line 2 [] (.call (.mk "/app/m.py" "g" 2 10 [] (.line 11 [] .nil) (.raise 11 5))
    (.caught 2 5 (.line 3 [] (.line 4 [] .nil))))) (.ret 4 9)

theorem c15_caught_witness :
    caughtTree.NoClash ∧ caughtTree.NoStackStrict (opens caughtCfg) [0] ∧
    Eff.closed ⟨"call", "m.py", 1, "f", [⟨0, .capture⟩], ⟨"call", "/app/m.py", 1, "f", 0, 1, [0], []⟩⟩
        ⟨"exception", "/app/m.py", 2, "f", 5, 1, [0], []⟩ ∈ (run caughtCfg none (caughtTree.flatten [0])).2 ∧
    Eff.closed ⟨"call", "m.py", 1, "f", [⟨0, .capture⟩], ⟨"call", "/app/m.py", 1, "f", 0, 1, [0], []⟩⟩
        ⟨"return", "/app/m.py", 4, "f", 9, 1, [0], []⟩ ∉ (run caughtCfg none (caughtTree.flatten [0])).2 := by
  refine ⟨?_, ?_, ?_, ?_⟩
  · simp [caughtTree, Inv.NoClash, Items.NoClash, Items.keys, Inv.keys, fileOf, locationFromEvent, PyX.basename]
  · simp only [caughtTree, Inv.NoStackStrict, Items.NoStackStrict]
    decide
  · decide
  · decide

/-- the strict hypothesis of `c15_capture_value_partial` is needed: `f` raises (and does not catch) with its method
    capture and a line span on the raising line both pending: the `exception` event completes the line span, the
    method capture is completed by the `return` event that follows (arg `None`) — inside the window
    (`c15_partial` covers this tree), but the attached value is not the exception. -/
def raiseCfg : List Trig := install [⟨.func "m.py" "f", [⟨0, .capture⟩]⟩, ⟨.line "m.py" 2, [⟨1, .span⟩]⟩] []
def raiseTree : Inv := .mk "/app/m.py" "f" 1 1 [] (.line 2 [] .nil) (.raise 2 7)

theorem c15_capture_strict_witness :
    raiseTree.NoClash ∧ raiseTree.NoStack (opens raiseCfg) [0] ∧ ¬ raiseTree.NoStackStrict (opens raiseCfg) [0] ∧
    (run raiseCfg none (raiseTree.flatten [0])).1 = none ∧
    Eff.closed ⟨"call", "m.py", 1, "f", [⟨0, .capture⟩], ⟨"call", "/app/m.py", 1, "f", 0, 1, [0], []⟩⟩
        ⟨"return", "/app/m.py", 2, "f", 0, 1, [0], []⟩ ∈ (run raiseCfg none (raiseTree.flatten [0])).2 ∧
    raiseTree.firstExit [0] = ⟨"exception", "/app/m.py", 2, "f", 7, 1, [0], []⟩ := by
  refine ⟨?_, ?_, ?_, ?_, ?_, rfl⟩
  · simp [raiseTree, Inv.NoClash, Items.NoClash, Items.keys]
  · simp [raiseTree, Inv.NoStack, Items.NoStack]
  · simp only [raiseTree, Inv.NoStackStrict, Items.NoStackStrict]
    decide
  · decide
  · decide

/-! ### threads -/

/-- tripwire: **thread local** (definitional for the machine of all threads: one slot per thread; it breaks if the
    translated handler ever reads another thread's state) — an event of thread `u` changes no other thread's pending stack. -/
theorem c15_thread_local (cfg : List Trig) (S : Store) (u : Tid) (ev : Event) (t : Tid) (h : t ≠ u) :
    (stepG cfg S (u, ev)).1 t = S t := by
  simp [stepG, h]

/-- **interleavings** — for every interleaving `gs` of the threads' streams (any number of threads, any
    schedule), the pending stack and the effects of thread `t` are those of `t` running alone on its own events. -/
theorem c15_interleaved (cfg : List Trig) (streams : Tid → List Event) (gs : List (Tid × Event))
    (hgs : ∀ t, proj t gs = streams t) (t : Tid) :
    (runG cfg Store.empty gs).1 t = (run cfg none (streams t)).1 ∧
      projEff t (runG cfg Store.empty gs).2 = (run cfg none (streams t)).2 := by
  rw [← hgs t]
  exact runG_proj cfg gs Store.empty t

/-- exactly-once, window, LIFO and same-thread lift to every schedule: whatever the other threads do and however
    they are interleaved, a thread whose own stream is a forest satisfying the hypotheses completes all its work
    itself (the effects are *its* effects: `projEff t`), exactly once, in its own invocations. -/
theorem c15_interleaved_complete (cfg : List Trig) (hnamed : AllNamed cfg) (gs : List (Tid × Event)) (t : Tid)
    (forest : List Inv) (k : Nat) (hproj : proj t gs = flattenForest forest k)
    (hc : forestNoClash forest) (hs : forestNoStack (opens cfg) forest k) :
    Completed ((runG cfg Store.empty gs).1 t) (projEff t (runG cfg Store.empty gs).2) := by
  obtain ⟨h1, h2⟩ := runG_proj cfg gs Store.empty t
  rw [h1, h2, hproj]
  exact c15_partial cfg hnamed forest k hc hs

/-- **nothing inherited** — when the threads' work has ended, a thread whose stream satisfied the hypotheses has
    left nothing pending, and a thread that has not run yet (a fresh thread: the store is keyed by the thread
    itself, `threading.local`) starts from the unset slot. -/
theorem c15_nothing_inherited (cfg : List Trig) (hnamed : AllNamed cfg) (gs : List (Tid × Event)) :
    (∀ t forest k, proj t gs = flattenForest forest k → forestNoClash forest →
        forestNoStack (opens cfg) forest k → (runG cfg Store.empty gs).1 t = none) ∧
    (∀ t, proj t gs = [] → (runG cfg Store.empty gs).1 t = none) := by
  refine ⟨?_, ?_⟩
  · intro t forest k hp hc hs
    exact (c15_interleaved_complete cfg hnamed gs t forest k hp hc hs).nothing_pending
  · intro t hp
    have := (runG_proj cfg gs Store.empty t).1
    rw [this, hp]
    rfl

/-! ### non-vacuity: a program with a method span + deferred capture on one function (two callbacks in one
    context), a line span inside a nested function, a caught exception, a generator resumed twice, on two
    interleaved threads -/

def demoCfg : List Trig :=
  install [⟨.func "m.py" "f", [⟨0, .span⟩]⟩, ⟨.func "m.py" "f", [⟨1, .capture⟩]⟩, ⟨.line "m.py" 12, [⟨2, .span⟩]⟩,
           ⟨.func "m.py" "gen", [⟨3, .span⟩]⟩] []

def demoTree : Inv :=
  .mk "/app/m.py" "f" 1 1 [] (.line 2 [] (.call
      (.mk "/app/m.py" "g" 2 10 [] (.line 11 [] (.line 12 [] (.call
          (.mk "/app/m.py" "gen" 3 20 [] (.line 21 [] .nil) (.ret 21 5)) (.caught 12 9 (.line 13 [] .nil))))) (.ret 13 4))
      (.line 3 [] (.call (.mk "/app/m.py" "gen" 3 20 [⟨3, .span⟩] (.line 22 [] .nil) (.raise 22 8)) (.caught 3 8 (.line 4 [] .nil))))))
    (.ret 4 42)

example : demoTree.NoClash ∧ demoTree.NoStack (opens demoCfg) [0] := by
  refine ⟨?_, ?_⟩
  · simp [demoTree, Inv.NoClash, Items.NoClash, Items.keys, Inv.keys, fileOf, locationFromEvent, PyX.basename]
  · simp only [demoTree, Inv.NoStack, Items.NoStack]
    decide

example : (run demoCfg none (demoTree.flatten [0])).1 = none ∧
    ((run demoCfg none (demoTree.flatten [0])).2.filter
      (fun e => match e with | .opened _ => true | _ => false)).length = 3 := by decide

end C15
