/-
  C17 — Metric tracepoints report each defined metric with the right type, labels, value.

  The theorems are about `Metric.process` (the two loops of `_process_action`) over the extracted facts
  `convertType`, `metricCallArgs`, `processorSignatures`, `namespaceOf`, `metricValueDefault`,
  `processorCallGuard`, `metricCanTrigger` (regenerated from `metric_action.py` and
  `api/plugin/metric/__init__.py` on every run).

  Quantifiers: every list of metric definitions (any names / type texts / label lists / expressions / optional
  namespace, help, unit), every list of processors with any fault placement (which attempts raise an Exception),
  every eval oracle, every hit history.  No bound.
-/
import DeepModel.Proofs.Metric
import DeepModel.Proofs.C17Prom

namespace C17
open Metric Extracted.Expr Extracted.Limiter

def validDef (d : MDef) : Bool := validOp (convertType d.type)

/-- **calls** — with no failing processor, a permitted hit reports every metric (whose type names one of the
    processor operations) to every processor exactly once: metrics in definition order, processors in plugin order. -/
theorem c17_calls (ev : String → Outcome) (procs : List Proc) (defs : List MDef)
    (hf : ∀ p ∈ procs, p.fails = []) :
    process ev procs defs =
      (defs.filter validDef).flatMap (fun d => (List.range procs.length).map (callOf ev d)) :=
  metricLoop_all ev procs hf defs 0

/-- the four types of the statement are the valid ones, in any letter case, and the operation is the lower-cased
    type name -/
theorem c17_operation :
    convertType "COUNTER" = "counter" ∧ convertType "GAUGE" = "gauge" ∧
    convertType "HISTOGRAM" = "histogram" ∧ convertType "SUMMARY" = "summary" ∧
    (∀ t, validOp (convertType t) = true ↔ Py.lower t ∈ ["counter", "gauge", "histogram", "summary"]) ∧
    (∀ ev d j, (callOf ev d j).op = Py.lower d.type ∧ (callOf ev d j).proc = j) := by
  refine ⟨by decide, by decide, by decide, by decide, ?_, ?_⟩
  · intro t
    simp only [convertType, validOp, processorSignatures, List.lookup]
    generalize Py.lower t = s
    by_cases h1 : s = "counter"
    · simp [h1]
    · by_cases h2 : s = "gauge"
      · simp [h2]
      · by_cases h3 : s = "histogram"
        · simp [h3]
        · by_cases h4 : s = "summary"
          · simp_all
          · have e1 : (s == "counter") = false := by simpa using h1
            have e2 : (s == "gauge") = false := by simpa using h2
            have e3 : (s == "histogram") = false := by simpa using h3
            have e4 : (s == "summary") = false := by simpa using h4
            simp [e1, e2, e3, e4, h1, h2, h3, h4]
  · intro ev d j; exact ⟨rfl, rfl⟩

/-- **arguments** — for a metric of a valid type, each parameter of the processor operation receives the thing
    its name says: name, labels, namespace (defaulted), help, unit, value — nothing swapped, nothing dropped. -/
theorem c17_arguments (ev : String → Outcome) (d : MDef) (j : Nat) (hv : validDef d = true) :
    (callOf ev d j).args =
      [(.name, .str (some d.name)), (.labels, .labels (labelsOf ev d.labels)), (.namespace, .str (namespaceOf d.ns)),
       (.help, .str d.help), (.unit, .str d.unit), (.value, .num (metricValue ev d))] := by
  have h := (c17_operation.2.2.2.2.1 d.type).mp hv
  unfold callOf
  simp only [convertType] at h ⊢
  generalize Py.lower d.type = s at h
  simp only [List.mem_cons, List.not_mem_nil, or_false] at h
  rcases h with rfl | rfl | rfl | rfl <;>
    simp [processorSignatures, List.lookup, metricCallArgs, argValue]

/-- **value** — no expression (or an empty one) ⇒ 1; a bool ⇒ 1 / 0; a float ⇒ itself; a failing expression or a
    value `float()` refuses (not a number, an int too large for a float, a `__float__` that raises) ⇒ 1; otherwise
    whatever `float()` makes of it. -/
theorem c17_value (ev : String → Outcome) (d : MDef) :
    defaultValue = "int:1" ∧
    (truthy d.expr = none → metricValue ev d = defaultValue) ∧
    (∀ e, truthy d.expr = some e → (ev e).failed = true → metricValue ev d = defaultValue) ∧
    (∀ e, truthy d.expr = some e → floatRepr (ev e) = none → metricValue ev d = defaultValue) ∧
    (∀ e r, truthy d.expr = some e → floatRepr (ev e) = some r → metricValue ev d = "float:" ++ r) ∧
    (∀ e n, truthy d.expr = some e → (ev e).val = .int n → n.natAbs ≥ floatOverflowFrom → metricValue ev d = defaultValue) := by
  refine ⟨by decide, ?_, ?_, ?_, ?_, ?_⟩
  · intro h; simp [metricValue, h]
  · intro e h hf; simp [metricValue, h, floatRepr, hf]
  · intro e h hf; simp [metricValue, h, hf]
  · intro e r h hf; simp [metricValue, h, hf]
  · intro e n h h3 h4
    have hn : floatRepr (ev e) = none := by
      simp only [floatRepr, h3, intFloat]
      split
      · rfl
      · simp_all
    simp [metricValue, h, hn]

/-- tripwire: ints of at most 15 digits reach the processor as that number (examples; the general fact is
    `Dec.repr` on `Dec.inAlphabet`, tied to CPython by the correspondence check). -/
theorem c17_value_int_examples :
    intFloat 0 = some "0.0" ∧ intFloat 7 = some "7.0" ∧ intFloat (-3) = some "-3.0" ∧ intFloat 1200 = some "1200.0" ∧
    intFloat 123456789012 = some "123456789012.0" ∧ intFloat (-(10 ^ 15 - 1)) = some "-999999999999999.0" := by decide

/-- the print switches to exponent notation from 10^16 on, and an int from 2^1024 − 2^970 on is an OverflowError
    (value 1); 2^53 + 1 has 16 significant digits: outside `Dec.inAlphabet`, where the model's print is NOT claimed
    to be CPython's (CPython prints …992.0). -/
theorem c17_big_int_witness :
    intFloat (10 ^ 22) = some "1e+22" ∧ intFloat (10 ^ 16) = some "1e+16" ∧ intFloat (10 ^ 15) = some "1000000000000000.0" ∧
    intFloat (-(12 * 10 ^ 20)) = some "-1.2e+21" ∧ (intDec (2 ^ 53 + 1)).inAlphabet = false ∧
    (intDec (10 ^ 22)).inAlphabet = true ∧
    intFloat (floatOverflowFrom : Nat) = none ∧ (intFloat ((floatOverflowFrom - 1 : Nat) : Int)).isSome = true := by decide

/-- examples of `float()` on text (CPython's answers) -/
example : parseFloatText " 12 " = some "12.0" ∧ parseFloatText "3.50" = some "3.5" ∧
    parseFloatText "-7" = some "-7.0" ∧ parseFloatText "+1_000.25" = some "1000.25" ∧ parseFloatText ".5" = some "0.5" ∧
    parseFloatText "abc" = none ∧ parseFloatText "" = none ∧ parseFloatText "1.2.3" = none ∧
    parseFloatText "1_" = none ∧ parseFloatText "-0" = some "-0.0" ∧ parseFloatText "1e5" = some "100000.0" ∧
    parseFloatText "1.5E-7" = some "1.5e-07" ∧ parseFloatText "2e22" = some "2e+22" ∧ parseFloatText "0.0001" = some "0.0001" ∧
    parseFloatText "0.00001" = some "1e-05" ∧ parseFloatText "-Inf" = some "-inf" ∧ parseFloatText "nan" = some "nan" ∧
    parseFloatText "1e" = none ∧ parseFloatText "1._5" = none ∧ parseFloatText "1.e2" = some "100.0" := by decide

/-- **labels** — a label with an expression gets the text of its value (or of its error), one without gets its
    static value untouched; every key appears once, a repeated key keeps its first position and its last value. -/
theorem c17_label_value (ev : String → Outcome) (l : Label) :
    (∀ e, truthy l.expr = some e → (ev e).strRaises = false → labelValue ev l = .text (ev e).text) ∧
    (∀ e, truthy l.expr = some e → (ev e).strRaises = true → labelValue ev l = .text "expression failed") ∧
    (truthy l.expr = none → labelValue ev l = .static l.static) := by
  refine ⟨?_, ?_, ?_⟩
  · intro e h hs; simp [labelValue, h, hs]
  · intro e h hs; simp [labelValue, h, hs, labelFailedText]
  · intro h; simp [labelValue, h]

theorem dictSet_keys (d : List (String × LVal)) (k : String) (v : LVal) :
    (dictSet d k v).map (·.1) = if k ∈ d.map (·.1) then d.map (·.1) else d.map (·.1) ++ [k] := by
  induction d with
  | nil => simp [dictSet]
  | cons p ps ih =>
    obtain ⟨pk, pv⟩ := p
    by_cases h : pk = k
    · simp [dictSet, h]
    · have h' : ¬ k = pk := fun e => h e.symm
      simp only [dictSet, h, if_false, List.map_cons, ih, List.mem_cons, h', false_or]
      split <;> simp

theorem dictSet_lookup (d : List (String × LVal)) (k : String) (v : LVal) (k' : String) :
    (dictSet d k v).lookup k' = if k' = k then some v else d.lookup k' := by
  induction d with
  | nil =>
    by_cases e : k' = k
    · simp [dictSet, e]
    · have : (k' == k) = false := by simpa using e
      simp [dictSet, List.lookup, e, this]
  | cons p ps ih =>
    obtain ⟨pk, pv⟩ := p
    by_cases hpk : pk = k
    · subst hpk
      by_cases e : k' = pk
      · subst e; simp [dictSet]
      · have e' : (k' == pk) = false := by simpa using e
        simp [dictSet, List.lookup, e', e]
    · by_cases e : k' = pk
      · subst e
        have : ¬ k' = k := hpk
        simp [dictSet, hpk, List.lookup]
      · have e' : (k' == pk) = false := by simpa using e
        simp [dictSet, hpk, List.lookup, e', ih]

theorem labelsOf_snoc (ev : String → Outcome) (ls : List Label) (l : Label) :
    labelsOf ev (ls ++ [l]) = dictSet (labelsOf ev ls) l.key (labelValue ev l) := by
  simp [labelsOf, List.foldl_append]

theorem labelsOf_keys_nodup (ev : String → Outcome) (ls : List Label) : ((labelsOf ev ls).map (·.1)).Nodup := by
  have gen : ∀ (ls : List Label) (d : List (String × LVal)), (d.map (·.1)).Nodup →
      ((ls.foldl (fun d l => dictSet d l.key (labelValue ev l)) d).map (·.1)).Nodup := by
    intro ls
    induction ls with
    | nil => intro d h; simpa using h
    | cons l ls ih =>
      intro d h
      simp only [List.foldl_cons]
      apply ih
      rw [dictSet_keys]
      split
      · exact h
      · rename_i hk
        rw [List.nodup_append]
        refine ⟨h, by simp, ?_⟩
        intro a ha b hb
        simp only [List.mem_singleton] at hb
        subst hb
        intro e; subst e; exact hk ha
  exact gen ls [] (by simp)

/-- **labels** — the labels handed to the processors: one entry per key; the entry of a key is the value of the
    LAST label definition with that key (expression text, error text, or static value); with distinct keys that is
    every label once, in definition order. -/
theorem c17_labels (ev : String → Outcome) (ls : List Label) :
    ((labelsOf ev ls).map (·.1)).Nodup ∧
    (∀ l k, (labelsOf ev (ls ++ [l])).lookup k = if k = l.key then some (labelValue ev l) else (labelsOf ev ls).lookup k) ∧
    ((ls.map (·.key)).Nodup → labelsOf ev ls = ls.map (fun l => (l.key, labelValue ev l))) := by
  refine ⟨labelsOf_keys_nodup ev ls, ?_, ?_⟩
  · intro l k
    rw [labelsOf_snoc, dictSet_lookup]
  · intro hnd
    have gen : ∀ (ls : List Label) (d : List (String × LVal)), (ls.map (·.key)).Nodup →
        (∀ l ∈ ls, l.key ∉ d.map (·.1)) →
        ls.foldl (fun d l => dictSet d l.key (labelValue ev l)) d = d ++ ls.map (fun l => (l.key, labelValue ev l)) := by
      intro ls
      induction ls with
      | nil => intro d _ _; simp
      | cons l ls ih =>
        intro d hnd hfresh
        simp only [List.map_cons, List.nodup_cons] at hnd
        have hl : l.key ∉ d.map (·.1) := hfresh l (List.mem_cons_self ..)
        have hset : dictSet d l.key (labelValue ev l) = d ++ [(l.key, labelValue ev l)] := by
          clear ih hfresh hnd
          induction d with
          | nil => rfl
          | cons p ps ihd =>
            obtain ⟨pk, pv⟩ := p
            simp only [List.map_cons, List.mem_cons, not_or] at hl
            have : ¬ pk = l.key := fun e => hl.1 e.symm
            simp [dictSet, this, ihd hl.2]
        simp only [List.foldl_cons, hset]
        rw [ih (d ++ [(l.key, labelValue ev l)]) hnd.2 (by
          intro x hx
          simp only [List.map_append, List.map_cons, List.map_nil, List.mem_append, List.mem_singleton, not_or]
          refine ⟨hfresh x (List.mem_cons_of_mem _ hx), ?_⟩
          intro e
          apply hnd.1
          rw [← e]
          exact List.mem_map_of_mem hx)]
        simp
    have := gen ls [] hnd (by simp)
    simpa [labelsOf] using this

/-- **namespace default** — absent or empty namespace ⇒ `deep`; anything else is passed as given. -/
theorem c17_namespace_default :
    namespaceOf none = some "deep" ∧ namespaceOf (some "") = some "deep" ∧
    (∀ s : String, s.isEmpty = false → namespaceOf (some s) = some s) := by
  refine ⟨rfl, by decide, ?_⟩
  intro s h
  simp [namespaceOf, h]

/-- **no processor** — with no metric processor active nothing is reported, the condition is not even evaluated,
    and the limiter state is untouched, over every history (no fire budget is used). -/
theorem c17_no_processor (c : Cfg) (hs : List Hit) : ∀ (st : Stats),
    runFrom c [] st hs = (st, hs.map (fun _ => ([], 0))) := by
  induction hs with
  | nil => intro st; rfl
  | cons h hs ih =>
    intro st
    have : stepHit c [] st h = (st, [], 0) := by
      simp [stepHit, metricCanTrigger]
    simp [runFrom, this, ih]

/-- tripwire: with a processor active the metric action is gated exactly like any other action (C04 / C10), and a permitted
    hit reports the whole definition list. -/
theorem c17_gated (c : Cfg) (procs : List Proc) (hp : procs ≠ []) (st : Stats) (h : Hit) :
    stepHit c procs st h =
      (if (ActionCtx.check c.act st h.hit).1 then (fire st h.hit.ts, process h.ev procs c.defs, (ActionCtx.check c.act st h.hit).2)
       else (st, [], (ActionCtx.check c.act st h.hit).2)) := by
  have : procs.isEmpty = false := by
    cases procs with
    | nil => exact absurd rfl hp
    | cons _ _ => rfl
  simp [stepHit, metricCanTrigger, this]

/-- **fault isolation** — what processor `q` receives is the same under any two fault placements that agree on
    `q` itself: a failing processor does not affect the others (nor the remaining metrics). -/
theorem c17_fault_isolated (ev : String → Outcome) (defs : List MDef) (q : Nat) (procs procs' : List Proc)
    (hl : procs.length = procs'.length)
    (hq : ∀ p p', procs[q]? = some p → procs'[q]? = some p' → p.fails = p'.fails) :
    callsTo q (process ev procs defs) = callsTo q (process ev procs' defs) :=
  metricLoop_isolated ev q procs procs' hl hq defs 0

/-- in particular: a processor that never fails receives every valid metric once, whatever the others do -/
theorem c17_healthy_gets_all (ev : String → Outcome) (defs : List MDef) (q : Nat) (procs : List Proc)
    (hq : ∀ p, procs[q]? = some p → p.fails = []) (hlt : q < procs.length) :
    callsTo q (process ev procs defs) = (defs.filter validDef).map (fun d => callOf ev d q) := by
  -- compare with the placement in which nobody fails
  let procs' : List Proc := procs.map (fun _ => ⟨[]⟩)
  have h1 := c17_fault_isolated ev defs q procs procs' (by simp [procs']) (by
    intro p p' hp hp'
    have : p' = ⟨[]⟩ := by
      simp only [procs', List.getElem?_map, Option.map_eq_some_iff] at hp'
      obtain ⟨_, _, e⟩ := hp'
      exact e.symm
    rw [this, hq p hp])
  rw [h1, c17_calls ev procs' defs (by intro p hp; simp only [procs', List.mem_map] at hp; obtain ⟨_, _, e⟩ := hp; rw [← e])]
  have hlen : procs'.length = procs.length := by simp [procs']
  rw [hlen]
  unfold callsTo
  generalize defs.filter validDef = ds
  induction ds with
  | nil => rfl
  | cons d ds ih =>
    simp only [List.flatMap_cons, List.filter_append, List.map_cons, ih]
    have : (List.filter (fun c => c.proc == q) (List.map (callOf ev d) (List.range procs.length))) = [callOf ev d q] := by
      rw [List.filter_map]
      have hf : List.filter ((fun c => c.proc == q) ∘ callOf ev d) (List.range procs.length) = [q] := by
        have : ((fun c : Call => c.proc == q) ∘ callOf ev d) = (fun j => j == q) := by
          funext j; simp [Function.comp, callOf]
        rw [this]
        clear ih h1 hlen
        generalize procs.length = n at hlt
        induction n with
        | zero => omega
        | succ n ihn =>
          rw [List.range_succ, List.filter_append]
          by_cases hqn : q = n
          · subst hqn
            have : List.filter (fun j => j == q) (List.range q) = [] := by
              apply List.filter_eq_nil_iff.mpr
              intro a ha
              have := List.mem_range.mp ha
              simp; omega
            simp [this]
          · have hlt' : q < n := by omega
            have hne : (n == q) = false := by simp; omega
            simp [ihn hlt', hne]
      rw [hf]; rfl
    rw [this]; rfl

/-! ### non-vacuity -/

private def evm : String → Outcome := fun e =>
  if e = "n" then ⟨false, false, "int", "7", .int 7, false⟩
  else if e = "s" then ⟨false, false, "str", "2.50", .str "2.50", false⟩
  else ⟨true, true, "NameError", "name 'zz' is not defined", .other, false⟩

private def defs1 : List MDef :=
  [⟨"m1", "COUNTER", [⟨"a", some "x", none⟩, ⟨"b", none, some "n"⟩], none, none, none, none⟩,
   ⟨"m2", "gauge", [⟨"a", none, some "zz"⟩], some "s", some "ns", some "h", some "u"⟩,
   ⟨"m3", "timer", [], some "n", none, none, none⟩]

/-- three definitions (one of an unknown type), two processors of which the first fails on its first attempt:
    the second processor still gets both valid metrics; the first gets only the second metric. -/
example : (callsTo 1 (process evm [⟨[0]⟩, ⟨[]⟩] defs1)).map (fun c => (c.op, (c.args.lookup .value))) =
    [("counter", some (.num "int:1")), ("gauge", some (.num "float:2.5"))] := by decide
example : (callsTo 0 (process evm [⟨[0]⟩, ⟨[]⟩] defs1)).map (·.op) = ["gauge"] := by decide
example : labelsOf evm [⟨"a", some "x", none⟩, ⟨"b", none, some "n"⟩, ⟨"a", none, some "zz"⟩]
    = [("a", .text "name 'zz' is not defined"), ("b", .text "7")] := by decide

/-! ### the built-in Prometheus processor: "through the operation matching its type", down to the client library

  About `C17Prom.call / run` (Model/C17Prom.lean) over `Extracted.C17Prom.cacheKey / methods` (regenerated from
  `prometheus_metrics.py` on every run).  Quantifiers: every sequence of processor operations with any arguments
  (names, label dicts, namespace / help / unit present or not, any value incl. nan / ±inf), every set of names held by
  other collectors of the process, every plugin state reached from a fresh plugin.  No bound.  The client library itself (`construct`, `childFor`, `applyOp`) is a hand-written reading of
  prometheus_client, compared with the real library on every generated sequence. -/

/-- tripwire: the four operations of the processor interface, each constructing the client class of its own type
    and handing the value to that class's adding operation (`Counter.inc`, `Gauge.inc`, `Histogram.observe`,
    `Summary.observe`) under `except Exception`; the operation names are exactly those `_process_action` dispatches to -/
theorem c17_prom_operation :
    Extracted.C17Prom.methods.map (fun r => (r.1, r.2.typeName, r.2.cls, r.2.op, r.2.opArg, r.2.guard)) =
      [("counter", "counter", .counter, .inc, .value, some .exc), ("gauge", "gauge", .gauge, .inc, .value, some .exc),
       ("histogram", "histogram", .histogram, .observe, .value, some .exc),
       ("summary", "summary", .summary, .observe, .value, some .exc)] ∧
    Extracted.C17Prom.methods.map (·.1) = processorSignatures.map (·.1) ∧
    Extracted.C17Prom.methods.map (fun r => (r.2.ctorName, r.2.ctorDoc, r.2.ctorLabelnames, r.2.ctorNamespace, r.2.ctorUnit)) =
      List.replicate 4 (.name, .help, .labelKeys, .namespace, .unit) := ⟨rfl, rfl, rfl⟩

/-- **one object per (name, type)** — the cache key separates every two (name, type) pairs: metrics of different
    names or different types never share a client object, whatever the names are (underscores included; names are
    TEXT — the f-string of a non-str name `1` and of `'1'` coincide in the real code). -/
theorem c17_prom_key_injective (n1 n2 t1 t2 : String) (h1 : t1 ∈ C17Prom.typeNames) (h2 : t2 ∈ C17Prom.typeNames)
    (h : Extracted.C17Prom.cacheKey n1 t1 = Extracted.C17Prom.cacheKey n2 t2) : n1 = n2 ∧ t1 = t2 :=
  C17Prom.cacheKey_injective n1 n2 t1 t2 h1 h2 h

/-- model lemma: the cache is a dict — after any sequence of operations on a fresh plugin (in a process whose default
    registry holds any names `foreign`) every key occurs once.  (That the client constructor ran once per cached key
    and that the object is registered is what the harness reads back from the real registry — `registered`,
    `left_registered`; a REFUSED constructor is re-tried on every report, see `call`.) -/
theorem c17_prom_one_registration (foreign : List String) (calls : List (String × C17Prom.Args)) :
    ((C17Prom.run (C17Prom.Plugin.fresh foreign) calls).1.cache.map Prod.fst).Nodup :=
  C17Prom.run_keys_nodup calls _ (by simp [C17Prom.Plugin.fresh])

/-- **the value reaches the client library** — in every state reached from a fresh plugin (whatever names other
    collectors hold in the process-wide default registry), a report that the client library accepts lands in the object
    `f'` cached for (name, type), on the time series given by the REPORT'S OWN label values (in the order of the
    object's label names; the unlabelled series for a report without labels): that series' total / value / sum becomes
    `old + value` in IEEE arithmetic (finite values exactly; nan / ±inf as floats add) and its exported operation count
    moves by one (a histogram does not count a nan observation); every OTHER series of the same object and every
    series of any other (name, type) is unchanged. -/
theorem c17_prom_value (foreign : List String) (history : List (String × C17Prom.Args)) (op : String)
    (m : Extracted.C17Prom.Method) (a : C17Prom.Args) (p' : C17Prom.Plugin) (hm : (op, m) ∈ Extracted.C17Prom.methods)
    (h : C17Prom.call (C17Prom.run (C17Prom.Plugin.fresh foreign) history).1 m a = (p', .ok)) :
    let p := (C17Prom.run (C17Prom.Plugin.fresh foreign) history).1
    ∃ f', p'.cache.lookup (Extracted.C17Prom.cacheKey a.name m.typeName) = some f' ∧
      let key := Extracted.C17Prom.cacheKey a.name m.typeName
      let lv := C17Prom.reportSeries f'.labelNames a.labels
      let prev := (C17Prom.sampleOf p key lv).getD C17Prom.Acc.zero
      C17Prom.sampleOf p' key lv = some ⟨C17Prom.countAfter m.cls a.value prev.count, prev.sum.add a.value⟩ ∧
      (∀ lv', lv' ≠ lv → C17Prom.sampleOf p' key lv' = C17Prom.sampleOf p key lv') ∧
      (∀ k' lv', k' ≠ key → C17Prom.sampleOf p' k' lv' = C17Prom.sampleOf p k' lv') :=
  C17Prom.call_ok_value _ p' op m a hm (C17Prom.run_WF history _ (C17Prom.WF_fresh foreign)) h

/-- witness (genuine defect candidate, see notes/probes/c17_prom_nan.py): `nan` is a reachable metric value
    (`float('nan')` and the text "nan" pass `_process_metric`); the client accepts it, and from then on the counter
    reads nan whatever is reported — "a value equal to the metric's expression" can no longer be read off the provider. -/
theorem c17_prom_nan_witness :
    let r := C17Prom.run C17Prom.Plugin.empty
      [("counter", ⟨"hits", [], some "a", none, none, .fin 4⟩), ("counter", ⟨"hits", [], some "a", none, none, .nan⟩),
       ("counter", ⟨"hits", [], some "a", none, none, .fin 8⟩),
       ("histogram", ⟨"lat", [], some "a", none, none, .nan⟩)]
    r.2 = [some .ok, some .ok, some .ok, some .ok] ∧
    r.1.cache.map (fun kf => (kf.2.fullName, kf.2.children)) =
      [("a_hits", [([], ⟨3, .nan⟩)]), ("a_lat", [([], ⟨0, .nan⟩)])] := by decide

/-- **a refused report stays inside the processor** — every refusal of the client library is an `Exception`
    (`Outcome.raises`), and every operation of the plugin runs under an except clause that catches that class
    (`catches guard cls`, with `except Exception` NOT catching a bare BaseException): nothing escapes into the metric
    action.  (A BaseException out of the client — e.g. from `str()` of a label value — is outside the modelled domain:
    label values are text.) -/
theorem c17_prom_no_escape (op : String) (m : Extracted.C17Prom.Method) (hm : (op, m) ∈ Extracted.C17Prom.methods)
    (o : C17Prom.Outcome) : C17Prom.propagates m o = false ∧
      (∀ cls, o.raises = some cls → C17Prom.catches m.guard cls = true) := by
  have hg := (C17Prom.table_op op m hm).2.1
  cases o <;> simp [C17Prom.propagates, C17Prom.Outcome.raises, C17Prom.catches, hg]

/-- the comparison of classes is not idle: `except Exception` lets a BaseException through, no clause lets everything
    through -/
example : C17Prom.catches (some .exc) .base = false ∧ C17Prom.catches none .exc = false ∧
    C17Prom.catches (some .base) .base = true := by decide

/-- **own namespace, unit, labels, help — partial**: under the hypothesis `firstUse` (no object is cached yet for
    this name and type) an accepted report lands in an object registered under the report's own
    `<namespace>_<name>[_<unit>]` (client naming rule `buildFullName`), with the report's label names and its help text
    as documentation.  Without the hypothesis this is false: `c17_prom_namespace_witness`. -/
theorem c17_prom_namespace_partial (p p' : C17Prom.Plugin) (op : String) (m : Extracted.C17Prom.Method)
    (a : C17Prom.Args) (hm : (op, m) ∈ Extracted.C17Prom.methods)
    (firstUse : p.cache.lookup (Extracted.C17Prom.cacheKey a.name m.typeName) = none)
    (h : C17Prom.call p m a = (p', .ok)) :
    ∃ f, p'.cache.lookup (Extracted.C17Prom.cacheKey a.name m.typeName) = some f ∧
      C17Prom.buildFullName m.cls (some a.name) a.ns a.unit = some f.fullName ∧
      f.labelNames = a.labels.map (·.1) ∧ f.doc = (C17Prom.truthy a.help).getD "" ∧ f.cls = m.cls :=
  C17Prom.call_first_use p p' op m a hm firstUse h

/-- witness (suspicious behaviour, see notes/probes/c17_prom_cache_key.py): the cache key carries neither the
    namespace nor the unit nor the label names — a second metric of the same name and type but another namespace is
    accepted and counted on the FIRST metric's time series (`a_hits`), nothing appears under `b_hits`. -/
theorem c17_prom_namespace_witness :
    let r := C17Prom.run C17Prom.Plugin.empty
      [("counter", ⟨"hits", [], some "a", none, none, .fin 4⟩), ("counter", ⟨"hits", [], some "b", none, none, .fin 4⟩)]
    r.2 = [some .ok, some .ok] ∧
    r.1.cache.map (fun kf => (kf.2.fullName, kf.2.children)) = [("a_hits", [([], ⟨2, .fin 8⟩)])] := by decide

/-- non-vacuity of `c17_prom_value`: a labelled histogram observed twice (label dict in two orders), a gauge going
    down, a counter refusing a negative step, a counter called `_total` (empty final name: refused), a gauge whose
    name another collector of the process holds (refused) -/
example : (C17Prom.run (C17Prom.Plugin.fresh ["python_info"])
      [("histogram", ⟨"lat", [("k", "x"), ("env", "p")], some "deep", none, some "ms", .fin 3⟩),
       ("histogram", ⟨"lat", [("env", "p"), ("k", "x")], some "deep", none, some "ms", .fin 5⟩),
       ("gauge", ⟨"g", [], some "deep", some "h", none, .fin (-6)⟩),
       ("counter", ⟨"c_total", [], none, none, none, .fin (-1)⟩),
       ("counter", ⟨"_total", [], none, none, none, .fin 1⟩),
       ("gauge", ⟨"info", [], some "python", none, none, .fin 1⟩)]).1.cache.map
        (fun kf => (kf.1, kf.2.fullName, kf.2.children)) =
    [("lat_histogram", "deep_lat_ms", [(["x", "p"], ⟨2, .fin 8⟩)]), ("g_gauge", "deep_g", [([], ⟨1, .fin (-6)⟩)]),
     ("c_total_counter", "c", [([], ⟨0, .fin 0⟩)])] := by decide

end C17
