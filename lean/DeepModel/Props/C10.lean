/-
  C10 — Conditions and expressions: conditions gate firing and use no budget when false / failing; expressions see
  the paused frame's locals + globals and nothing of the agent; a failing expression is an error result for that
  expression only.

  The theorems are about `Extracted.Expr.canTrigger` (the text of `ActionContext.can_trigger` as it is in /repo
  now), `Extracted.Expr.evalGlobals / evalLocals / evalCatches` (the argument tuple and except clause of
  `evaluate_expression`) and `Extracted.Limiter.*`, composed by `ActionCtx.stepHit / runFrom`.

  Quantifiers: every history `hs : List Hit` (any length; each hit carries an arbitrary time stamp and an
  arbitrary oracle answer for the condition: a value of any text, or a failure of any class / message), every
  configuration text, every condition text, every frame / agent environment, every oracle.  No bound anywhere.
  `Hit.coherent` (a failed evaluation's result object is the exception) is a fact about Python's `eval`, not a
  restriction of the inputs.
-/
import DeepModel.Proofs.ActionCtx

namespace C10
open ActionCtx Extracted.Limiter Extracted.Expr

/-- **gate** — every hit that fired is a hit of the history at which the condition evaluated to true (did not fail,
    and its value's text is truthy) — or no condition is configured. -/
theorem c10_gate (c : Cfg) (hs : List Hit) (hco : ∀ h ∈ hs, h.coherent) :
    ∀ (st : Stats), ∀ h ∈ (runFrom c st hs).2, h ∈ hs ∧ condTrue c h = true := by
  induction hs with
  | nil => intro st h hm; simp [runFrom] at hm
  | cons x xs ih =>
    intro st h hm
    have hx := hco x (List.mem_cons_self ..)
    have hrest : ∀ y ∈ xs, y.coherent := fun y hy => hco y (List.mem_cons_of_mem _ hy)
    simp only [runFrom] at hm
    cases hf : (stepHit c st x).2.1 with
    | true =>
      simp only [hf, if_true, List.mem_cons] at hm
      rcases hm with rfl | hm
      · refine ⟨List.mem_cons_self .., ?_⟩
        have := stepHit_fired_iff c st h hx
        rw [hf] at this
        simp only [Bool.true_eq, Bool.and_eq_true] at this
        exact this.2
      · have := ih hrest _ h hm
        exact ⟨List.mem_cons_of_mem _ this.1, this.2⟩
    | false =>
      simp only [hf, Bool.false_eq_true, if_false] at hm
      have := ih hrest _ h hm
      exact ⟨List.mem_cons_of_mem _ this.1, this.2⟩

/-- with a (non-blank) condition configured, a hit whose condition FAILS to evaluate never fires, whatever the
    error text is (`KeyError(1)` prints as `1`, a truthy word), and neither does a false one. -/
theorem c10_gate_failing (c : Cfg) (hs : List Hit) (hco : ∀ h ∈ hs, h.coherent) (hb : blank c.condition = false)
    (st : Stats) : ∀ h ∈ (runFrom c st hs).2, h.cond.failed = false ∧ str2bool h.cond.text = true := by
  intro h hm
  have := (c10_gate c hs hco st h hm).2
  simp only [condTrue, hb, Bool.false_or, Outcome.holds, Bool.and_eq_true,
    Bool.not_eq_eq_eq_not, Bool.not_true] at this
  exact ⟨this.1.1, this.2⟩

/-- tripwire: what "true" means for a value that is not a bool: its text, lower-cased, is one of the five documented words
    (`True` → `true`); nothing else — in particular not `on`, `2`, `false`, a list, `None`. -/
theorem c10_truth_words (s : String) :
    str2bool s = true ↔ Py.lower s ∈ ["yes", "true", "t", "1", "y"] := by
  simp [str2bool]

/-- **invisible** — hits rejected by the condition (false, or failing to evaluate) leave everything untouched:
    the run over any history equals the run over the history with those hits removed — same collections, same
    final stats (fire count, last fire), from every starting state. -/
theorem c10_invisible (c : Cfg) (hs : List Hit) (hco : ∀ h ∈ hs, h.coherent) :
    ∀ (st : Stats), runFrom c st hs = runFrom c st (hs.filter (condTrue c)) := by
  induction hs with
  | nil => intro st; rfl
  | cons x xs ih =>
    intro st
    have hx := hco x (List.mem_cons_self ..)
    have hrest : ∀ y ∈ xs, y.coherent := fun y hy => hco y (List.mem_cons_of_mem _ hy)
    cases ht : condTrue c x with
    | true =>
      simp only [List.filter_cons, ht, if_true, runFrom]
      rw [ih hrest]
    | false =>
      obtain ⟨h1, h2⟩ := stepHit_rejected c st x hx ht
      simp only [List.filter_cons, ht, Bool.false_eq_true, if_false]
      simp only [runFrom, h1, h2, Bool.false_eq_true, if_false]
      exact ih hrest st

/-- rejected hits make no eval-independent difference either: the limiter state after any number of rejected
    hits is the state before them. -/
theorem c10_rejected_prefix (c : Cfg) (pre rest : List Hit) (hco : ∀ h ∈ pre ++ rest, h.coherent)
    (hr : ∀ x ∈ pre, condTrue c x = false) (st : Stats) :
    runFrom c st (pre ++ rest) = runFrom c st rest := by
  rw [c10_invisible c (pre ++ rest) hco st]
  rw [c10_invisible c rest (fun h hh => hco h (List.mem_append_right _ hh)) st]
  congr 1
  rw [List.filter_append]
  have : pre.filter (condTrue c) = [] := by
    apply List.filter_eq_nil_iff.mpr
    intro a ha
    simp [hr a ha]
  rw [this, List.nil_append]

/-- **a later true hit still fires** — after any number of rejected hits, a hit whose condition holds and whose
    limits (judged on the state *before* the rejected hits) allow it fires, and is the only collection. -/
theorem c10_later_true_hit_fires (c : Cfg) (pre : List Hit) (h : Hit) (st : Stats)
    (hco : ∀ x ∈ pre ++ [h], x.coherent) (hr : ∀ x ∈ pre, condTrue c x = false)
    (ha : Limiter.allowed c.lim st h.ts = true) (ht : condTrue c h = true) :
    runFrom c st (pre ++ [h]) = (fire st h.ts, [h]) := by
  rw [c10_rejected_prefix c pre [h] hco hr st]
  have hh : h.coherent := hco h (by simp)
  obtain ⟨h1, h2⟩ := stepHit_fires c st h hh ha ht
  simp [runFrom, h1, h2]

/-- **every action kind is gated** — the action context classes that override the gate are exactly the metric and
    the span action (enumerated from the sources); for every kind the action may trigger only if the common gate
    (limits ∧ condition) lets it, evaluates the condition no more often, and with its processor active it IS the
    common gate.  So a false or failing condition stops snapshots, logs, metrics and spans alike. -/
theorem c10_every_kind_gated (k : Kind) (hasProc : Bool) (c : Cfg) (st : Stats) (h : Hit) :
    gateOverrides = ["MetricActionContext.can_trigger", "SpanActionContext.can_trigger"] ∧
    ((checkKind k hasProc c st h).1 = true → (check c st h).1 = true) ∧
    (checkKind k hasProc c st h).2 ≤ (check c st h).2 ∧
    (hasProc = true → stepHitK k hasProc c st h = stepHit c st h) ∧
    ((k = .metric ∨ k = .span) → hasProc = false → stepHitK k hasProc c st h = (st, false, 0)) := by
  refine ⟨by decide, ?_, ?_, ?_, ?_⟩
  · cases k <;> cases hasProc <;> simp [checkKind, metricCanTrigger, spanCanTrigger]
  · cases k <;> cases hasProc <;> simp [checkKind, metricCanTrigger, spanCanTrigger]
  · intro hp; subst hp
    cases k <;> simp [stepHitK, stepHit, checkKind, metricCanTrigger, spanCanTrigger] <;> rfl
  · intro hk hp; subst hp
    rcases hk with rfl | rfl <;> simp [stepHitK, checkKind, metricCanTrigger, spanCanTrigger]

/-- **limits first** — when the limits forbid the hit the condition is not evaluated at all (no oracle call),
    and the answer is no; in general at most one oracle call is made, and none for a blank condition. -/
theorem c10_limits_first (c : Cfg) (st : Stats) (h : Hit) (hl : Limiter.allowed c.lim st h.ts = false) :
    check c st h = (false, 0) := by
  unfold check
  rw [hl]
  unfold Extracted.Expr.canTrigger
  simp

/-- model lemma: number of oracle calls of one `can_trigger` -/
theorem c10_eval_count (c : Cfg) (st : Stats) (h : Hit) :
    (check c st h).2 = (if Limiter.allowed c.lim st h.ts && !blank c.condition then 1 else 0) :=
  check_evals c st h

/-- the decision never depends on what the oracle *would* have said when it is not asked -/
theorem c10_unasked_irrelevant (c : Cfg) (st : Stats) (ts : Int) (o o' : Outcome)
    (h : Limiter.allowed c.lim st ts = false ∨ blank c.condition = true) :
    stepHit c st ⟨ts, o⟩ = stepHit c st ⟨ts, o'⟩ := by
  unfold stepHit check Extracted.Expr.canTrigger
  rcases h with h | h
  · simp [h]
  · unfold blank at h
    cases hc : c.condition with
    | none => simp
    | some s =>
      rw [hc] at h
      simp only at h
      have : Py.len (Py.strip s) = 0 := by
        unfold Py.len
        have := String.isEmpty_iff.mp h
        simp [this]
      simp [this]

/-- **scope** — `evaluate_expression` hands `eval` exactly (frame globals, frame locals): the environment does
    not depend on the agent's own module at all … -/
theorem c10_scope {V : Type} (f : Frame V) (a : Agent V) : handlerEnv f a = (f.globals, f.locals) := by
  simp [handlerEnv, envOf, evalGlobals, evalLocals]

/-- … so for ANY evaluator the result is the same whatever the agent's modules define (non-interference) … -/
theorem c10_scope_agent_invisible {V R : Type} (f : Frame V) (a a' : Agent V)
    (oracle : (String → Option V) × (String → Option V) → String → R) (e : String) :
    oracle (handlerEnv f a) e = oracle (handlerEnv f a') e := by
  rw [c10_scope, c10_scope]

/-- … and a name occurring at the top level of the expression (hypothesis `nested = false`: not inside a lambda body
    or a generator expression of the expression) resolves exactly as at that line of the program: the local if there
    is one, else the host module's global, else the builtin, else NameError — a name bound only in the agent's
    modules is a NameError.  `_partial`: see `c10_nested_scope_witness` for why the hypothesis is needed. -/
theorem c10_scope_names_partial {V : Type} (f : Frame V) (a : Agent V) (builtins : String → Option V) (n : String)
    (nested : Bool) (hn : nested = false) :
    resolveAt nested (handlerEnv f a) builtins n = visibleAtLine f builtins n := by
  subst hn
  rw [c10_scope]
  simp only [resolveAt, Bool.false_eq_true, if_false, resolve, visibleAtLine]

/-- inside a nested scope the frame's locals are NOT seen (known finding `C10/nested-scope-hides-locals`): a local
    `a` of the paused frame used as `(lambda q: q + a)(1)` is a NameError although `a` is visible at that line; and a
    local shadowing a global yields the GLOBAL's value there.  Negation of the unrestricted statement, on a witness. -/
theorem c10_nested_scope_witness :
    let f : Frame Nat := ⟨fun n => if n = "g" then some 1 else none, fun n => if n = "a" ∨ n = "g" then some 5 else none⟩
    let ag : Agent Nat := ⟨fun _ => none, fun _ => none⟩
    let b : String → Option Nat := fun _ => none
    visibleAtLine f b "a" = some 5 ∧ resolveAt true (handlerEnv f ag) b "a" = none ∧
    visibleAtLine f b "g" = some 5 ∧ resolveAt true (handlerEnv f ag) b "g" = some 1 := by
  decide

/-- tripwire: there is exactly one place in the agent that evaluates text: `evaluate_expression` — conditions,
    watches, log fields, metric values and label expressions all go through it, hence through the environment above. -/
theorem c10_single_eval_site :
    evalSites = ["src/deep/processor/context/trigger_context.py:TriggerContext.evaluate_expression:eval"] := by decide

/-- tripwire: every failure of an expression is caught where it is evaluated and becomes the result object
    (`except BaseException as e: return e`), so no failure escapes into another expression's evaluation. -/
theorem c10_eval_catches_all : evalCatches = Py.Exn.base ∧ evalReturnsException = true := by decide

/-- model lemma: **contained** — the result reported for the j-th expression of an action (watch, log field) is a
    function of the oracle's answer for THAT expression and of its own collection circumstances only: changing the
    outcome of another expression (making it fail, say) changes position j at most through the shared variable budget
    (`col`), never through evaluation. -/
theorem c10_contained (src : String) (ev ev' : String → Outcome) (col : Nat → Collect) (es : List String) (j : Nat)
    (hj : ∀ e, es[j]? = some e → ev e = ev' e) :
    (evalAll src ev col es)[j]? = (evalAll src ev' col es)[j]? := by
  unfold evalAll
  have gen : ∀ (es : List String) (i j : Nat), (∀ e, es[j]? = some e → ev e = ev' e) →
      (evalFrom src ev col i es)[j]? = (evalFrom src ev' col i es)[j]? := by
    intro es
    induction es with
    | nil => intro i j _; rfl
    | cons e es ih =>
      intro i j h
      cases j with
      | zero => simp [evalFrom, h e (by simp)]
      | succ j => simpa [evalFrom] using ih (i + 1) j (by intro x hx; exact h x (by simpa using hx))
  exact gen es 0 j hj

/-- over the translated `eval_watch`: an expression whose value cannot be recorded because the action's variable
    budget is spent (by the frame, by earlier expressions — they share one cache) is reported with THAT error and no
    variable; its text (the log string used for a log field) is still the text of its own value.  Budget exhaustion
    is the collection bound of C05, reported on the expression it hits — not a failure spreading between expressions. -/
theorem c10_budget_error_is_own (src e : String) (o : Outcome) :
    evalWatch src e o true none = ⟨src, e, false, some "variable limit reached", "", "", o.text⟩ := by
  simp [evalWatch]

/-- over the translated `eval_watch`, for an expression that evaluates (hypothesis `o.failed = false`) and is
    collected within budget: a good result whose variable is the value — type name and text of the value.
    `_partial`: for a FAILING expression see `c10_failing_watch_is_value_witness`. -/
theorem c10_watch_result_partial (src e : String) (o : Outcome) (_h : o.failed = false) :
    evalWatch src e o false none = ⟨src, e, true, none, o.ty, o.text, o.text⟩ := by
  simp [evalWatch]

/-- a failing expression's error IS carried by its result — the variable's type is the exception class, its value
    and the log string are the message … -/
theorem c10_failing_watch_carries_error (src e : String) (o : Outcome) (_h : o.failed = true) :
    (evalWatch src e o false none).ty = o.ty ∧ (evalWatch src e o false none).value = o.text ∧
    (evalWatch src e o false none).logStr = o.text := by
  simp [evalWatch]

/-- … but as a GOOD result (a variable id, no error text), not as the error result the statement speaks of
    (known finding `C10/failing-watch-is-a-value`): `evaluate_expression` returns the exception object as the value,
    so `eval_watch` collects it like any value.  Negation of "a failing expression yields an error result", on a
    witness. -/
theorem c10_failing_watch_is_value_witness :
    let o : Outcome := ⟨true, true, "NameError", "name 'nope' is not defined", .other, false⟩
    (evalWatch "WATCH" "nope" o false none).hasResult = true ∧ (evalWatch "WATCH" "nope" o false none).error = none := by
  decide

/-! ### non-vacuity -/

private def tOut : Outcome := ⟨false, false, "bool", "True", .bool true, false⟩
private def fOut : Outcome := ⟨false, false, "bool", "False", .bool false, false⟩
/-- `cache[1]` on an empty dict: KeyError(1), whose text is the truthy word `1` -/
private def keyErr1 : Outcome := ⟨true, true, "KeyError", "1", .other, false⟩
private def cfg1 : Cfg := ⟨⟨some "1", some "1000", ⟨0, 0⟩⟩, some "cache[1]"⟩

/-- a failing condition with truthy error text, a false one, then a true one: only the last fires, although
    fire_count is 1 (the rejected hits used none of it); a second true hit is then refused. -/
example : (runHits cfg1 [⟨10, keyErr1⟩, ⟨20, fOut⟩, ⟨30, tOut⟩, ⟨9000000000, tOut⟩]).map (·.ts) = [30] := by decide

example : traceFrom cfg1 Stats.init [⟨10, keyErr1⟩, ⟨20, fOut⟩, ⟨30, tOut⟩, ⟨9000000000, tOut⟩]
    = [(false, 1), (false, 1), (true, 1), (false, 0)] := by decide

example : Hit.coherent ⟨10, keyErr1⟩ := by intro _; rfl

end C10
