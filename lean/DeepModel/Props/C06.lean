/-
  C06 — Collection is total and per-tracepoint independent.

  Model: the collector of C05 with fault outcomes on heap objects: `str(o)` may raise (`PyObj.str = none`), and the
  probes the code performs without a guard — `len`, `tuple`, `isinstance(·, Exception)`, `.args`,
  `hasattr(·, '__dict__')`, `.__dict__` — may raise (`Probe.raises`).  The model still has the outcome "the search raises,
  the action produces no snapshot" (`Outcome.failed`); that it is never taken is a theorem (`c06_total`) resting on the two
  extracted guards.  `processActions` is the loop of `trace_call` over the actions of one trace event; where each
  action takes its identity cache and its table from is an extracted fact (`cacheScope`, `tableScope`).

  Quantifiers: every heap, every limits, every list of frames / watches, every number of actions at one location.

  DOMAIN of "every heap" (what the raw facts of `Heap.PyObj` can express): for every object, `str`, `len`, `tuple`,
  `isinstance(·, Exception)`, `.args`, `hasattr(·, '__dict__')`, `.__dict__` and — for the local named `self` —
  `.__class__.__name__` may each raise (`Exception` class: `safe_str` catches `Exception`, `c06_guard_class`; a
  `BaseException` raised by a host `__str__` is outside).  ASSUMED NOT TO RAISE, because the model has no failing outcome
  for them (listed in the header of Extracted/Collector.lean; each aborts a snapshot on the real code, probe
  notes/probes/p20_c06_assumed_not_to_raise.py): `type(o).__name__` / `str(type(o))` under a hostile metaclass; `startswith`
  / slicing of a key that is an instance of a str SUBCLASS overriding them; `len` / slicing of the text `str(o)` returns when
  that is an instance of a str subclass.  Iteration / lookup of an exact dict whose key's `__hash__` raises after insertion is
  guarded in the code (dict recorded without children); `PyObj.dictItems` is defined as what that enumeration yields, empty
  when it raises — the walker applies that guard, the model does not model it.

  "… and delivered": there is NO C06 theorem about delivery.  The check hands every snapshot the real collector produced to
  the real `deep.push.convert_snapshot` and requires a message (harness, `judge_wire`); conversion totality on well-formed
  text is C08's theorem (`c08_total`), not composed here (the two models have separate snapshot types).

  INDEPENDENCE: `processActions` has exactly two channels from one action to the next — the identity cache and the table of
  the trigger (`TrigState`).  `c06_independent` and its corollaries are MODEL LEMMAS: once the extracted scopes say
  `perAction` they follow from the definition.  Channels that are NOT in the model and what rules them out:
    the limits object                — `configFreshPerRead`, `processorsGetConfig` (extracted, `c06_config_channels`); across
                                       threads the forced 2-thread stream of C05
    TriggerContext (result list, callbacks, frame) — append-only list of results, one `SendSnapshotActionResult` per action:
                                       not extracted; covered by the differential run only (every action is re-run ALONE on
                                       the same objects and its snapshot must be equal)
    the FrameCollector               — one per action (`FrameCollector(self, frame)` in `_process_action`): differential run only
-/
import DeepModel.Proofs.CollectorSnap
import DeepModel.Proofs.CollectorShape
import DeepModel.Proofs.CollectorBenign
import DeepModel.Proofs.CollectorExamples
import DeepModel.Proofs.FramesEntries

namespace C06
open Heap Collector Extracted.Collector

set_option maxRecDepth 20000

/-- the guard around `str(value)` catches `Exception` -/
theorem c06_guard_class : safeStrCatches = "Exception" := by decide

/-! ### totality -/

/-- tripwire: the three guards the totality rests on (extracted; re-checked against the source on every run): `variable_to_string`
    catches `Exception` around `len(value)`, `process_child_nodes` catches `Exception` around `find_children_for_parent`,
    `_process_frame` reads the class name of `self` inside try/except -/
theorem c06_guards : lenGuarded = true ∧ childrenGuarded = true ∧ selfClassGuarded = true := by decide

/-- the statement at full strength: no heap makes a snapshot action fail -/
def Total : Prop := ∀ (H : Heap) (a : ActionIn), ∃ s, snapshotAction H a = .ok s

/-- **total** — for every heap whatsoever — objects whose `str`, `len`, `tuple()`, `isinstance`, `.args`,
    `hasattr(·, '__dict__')`, `.__dict__` raise (Exception class), objects without `__dict__`, non-string keys, iterators,
    cycles — every limits, every frames, every watches, log fields and capture value: the action produces its snapshot. -/
theorem c06_total : Total := fun H a => by
  rw [snapshotAction_eq_collect]; exact collect_total_all H a

/-- the class-name reads never decide the outcome: the action is its collection -/
theorem c06_action_is_collect (H : Heap) (a : ActionIn) : snapshotAction H a = collect H a :=
  snapshotAction_eq_collect H a

/-- a frame whose `self` cannot tell its class (`__getattribute__` raises) is collected like any other -/
theorem c06_self_class_contained :
    (match snapshotAction Ex.selfHostile ⟨⟨40, 1024, 10, 5⟩, Ex.frame0, []⟩ with
      | .ok s => s.frames.map (·.map (fun r => (r.vid, r.name)))
      | .failed _ => []) = [[(2, "self"), (3, "q")]] := by decide

/-- what a raising probe costs: the value is recorded (type, text) **without children**, nothing else is lost.
    `h` is a slotted object whose `__getattr__` raises RuntimeError (so `hasattr(h, '__dict__')` raises): both locals are
    on the frame, `h` has its entry with no children, `q` is intact. -/
theorem c06_probe_failure_contained :
    (match collect Ex.hostile ⟨⟨40, 1024, 10, 5⟩, Ex.frame0, []⟩ with
      | .ok s => (s.frames.map (·.map (fun r => (r.vid, r.name))),
                  s.table.map (fun e => (e.vid, e.ty, e.value, e.children.length)))
      | .failed _ => ([], [])) =
    ([[(2, "h"), (3, "q")]], [(2, "Hostile", "<Hostile>", 0), (3, "int", "5", 0)]) := by decide

/-- a value of a user class *named* `list` whose `len` raises is rendered by `safe_str` instead of `Size: n` -/
theorem c06_len_failure_contained :
    (match collect Ex.imposter ⟨⟨40, 1024, 10, 5⟩, Ex.frame0, []⟩ with
      | .ok s => s.table.map (fun e => (e.vid, e.ty, e.value, e.children.length))
      | .failed _ => []) = [(2, "list", "<list object>", 0), (3, "int", "5", 0)] := by decide

/-- in general: when a kind test raises, child discovery yields no children (and no failure) -/
theorem c06_raise_means_no_children (L : Limits) (pvid : Nat) (o : PyObj) (d : Nat) (m : String)
    (h : branchChildren L pvid (d + 1) o childBranches = .error m) : childNodes L pvid o d = .ok [] :=
  childNodes_of_raise L pvid o d m h

/-! ### the offending value is a placeholder, the others are intact -/

/-- **placeholder** — an entry of an object whose `str` raises (and that is rendered by `str`: not a dict, not a
    list-like, not an iterator) has the object's type name and the placeholder text `<type>@<id>` cut to `maxStr`, and
    its children are the children of its kind as for any other object (children do not depend on `str`). -/
theorem c06_placeholder (H : Heap) (a : ActionIn) (s : Snapshot) (h : collect H a = .ok s) :
    ∀ e ∈ s.table, (H.obj e.obj).str = none →
      renderKind (H.obj e.obj).tyName (H.obj e.obj).isDictExact = .safeStr →
      e.ty = (H.obj e.obj).tyName ∧
      e.value = (truncateString (H.obj e.obj).placeholder a.limits.maxStr).1 ∧
      e.truncated = (truncateString (H.obj e.obj).placeholder a.limits.maxStr).2 := by
  intro e he hs hk
  obtain ⟨text, h1, h2, h3, h4⟩ := Frames.collect_ok h e he
  have : text = (H.obj e.obj).placeholder := by
    unfold renderText at h1
    rw [hk] at h1
    simp only [safeStr, hs, Option.getD_none, Except.ok.injEq] at h1
    exact h1.symm
  subst this
  exact ⟨h2, h3, h4⟩

/-- **each entry depends on its own object only** — type, value and truncation flag of every entry are functions of
    the raw facts of the entry's own object (and the string limit): a fault of another object cannot leak into it. -/
theorem c06_entry_local (H : Heap) (a : ActionIn) (s : Snapshot) (h : collect H a = .ok s) :
    ∀ e ∈ s.table, ∃ text, renderText (H.obj e.obj) = .ok text ∧ e.ty = (H.obj e.obj).tyName ∧
      e.value = (truncateString text a.limits.maxStr).1 ∧ e.truncated = (truncateString text a.limits.maxStr).2 :=
  Frames.collect_ok h

/-- **the shape of a snapshot does not depend on `str`** — two heaps that agree on every raw fact except the outcome of
    `str` (value or raise) and the placeholder text produce the same outcome up to the `value` / `truncated` fields of the
    entries: same failure or same frames, same ids, same references, same child lists, same watch results. -/
theorem c06_shape_independent (H H' : Heap) (hs : SameShape H H') (a : ActionIn) :
    eraseO (snapshotAction H a) = eraseO (snapshotAction H' a) := snapshotAction_shape hs a

/-- a `str` that starts to raise never turns a snapshot into a failure (nor the other way round) -/
theorem c06_str_never_fails (H H' : Heap) (hs : SameShape H H') (a : ActionIn) :
    (∃ s, collect H a = .ok s) ↔ (∃ s', collect H' a = .ok s') := by
  have h := collect_shape hs a
  constructor
  · rintro ⟨s, e⟩
    rw [e] at h
    cases hc : collect H' a with
    | failed m => rw [hc] at h; simp [eraseO] at h
    | ok s' => exact ⟨s', rfl⟩
  · rintro ⟨s, e⟩
    rw [e] at h
    cases hc : collect H a with
    | failed m => rw [hc] at h; simp [eraseO] at h
    | ok s' => exact ⟨s', rfl⟩

/-- **every other variable intact** — let `H'` be `H` with the `str` behaviour of the single object `o` changed (it now
    raises, or yields another text).  Then both snapshots have the same frames, the same watch results, the same ids in the
    same order, and every entry that is not the entry of `o` is in the other snapshot unchanged — type, value, truncation
    flag, children. -/
theorem c06_others_intact (H H' : Heap) (o : ObjId) (hs : SameShape H H') (hsame : ∀ i, i ≠ o → H.obj i = H'.obj i)
    (a : ActionIn) (s s' : Snapshot) (h : collect H a = .ok s) (h' : collect H' a = .ok s') :
    s.frames = s'.frames ∧ s.watches = s'.watches ∧ s.table.map (·.vid) = s'.table.map (·.vid) ∧
    ∀ e ∈ s.table, e.obj ≠ o → e ∈ s'.table := by
  have hsh := collect_shape hs a
  rw [h, h'] at hsh
  simp only [eraseO, Outcome.ok.injEq, Snapshot.mk.injEq] at hsh
  obtain ⟨hf, ht, hw⟩ := hsh
  refine ⟨hf, hw, ?_, ?_⟩
  · have := congrArg (List.map (·.vid)) ht
    simp only [eraseT, List.map_map] at this
    have hc : ((fun x : Entry => x.vid) ∘ eraseE) = (fun x : Entry => x.vid) := by funext x; rfl
    rw [hc] at this
    exact this
  · intro e he hne
    have hm : eraseE e ∈ eraseT s'.table := by
      rw [← ht]; exact List.mem_map_of_mem he
    simp only [eraseT, List.mem_map] at hm
    obtain ⟨e', he', hee⟩ := hm
    have hfields : e'.vid = e.vid ∧ e'.ty = e.ty ∧ e'.obj = e.obj ∧ e'.children = e.children ∧ e'.depth = e.depth := by
      simp only [eraseE, Entry.mk.injEq] at hee
      exact ⟨hee.1, hee.2.1, hee.2.2.2.1, hee.2.2.2.2.1, hee.2.2.2.2.2.2⟩
    obtain ⟨tx, r1, _, v1, t1⟩ := Frames.collect_ok h e he
    obtain ⟨tx', r1', _, v1', t1'⟩ := Frames.collect_ok h' e' he'
    rw [hfields.2.2.1, ← hsame e.obj hne, r1] at r1'
    simp only [Except.ok.injEq] at r1'
    subst r1'
    have : e' = e := by
      cases e; cases e'
      simp only [Entry.mk.injEq] at hfields ⊢
      simp only at v1 t1 v1' t1'
      exact ⟨hfields.1, hfields.2.1, by rw [v1, v1'], hfields.2.2.1, hfields.2.2.2.1, by rw [t1, t1'], hfields.2.2.2.2⟩
    rw [← this]; exact he'

/-- `Ex.strRaises` and `Ex.strFine` are such a pair (the hypotheses are not vacuous) -/
example : SameShape Ex.strRaises Ex.strFine := by
  intro (i : Nat)
  have : i = 0 ∨ i = 1 ∨ i = 2 ∨ 3 ≤ i := by omega
  rcases this with rfl | rfl | rfl | h3
  · rfl
  · rfl
  · rfl
  · have l1 : Ex.strRaises.objs.length = 3 := rfl
    have l2 : Ex.strFine.objs.length = 3 := rfl
    have e1 : Ex.strRaises.objs[i]? = none := List.getElem?_eq_none (by rw [l1]; exact h3)
    have e2 : Ex.strFine.objs[i]? = none := List.getElem?_eq_none (by rw [l2]; exact h3)
    simp [Heap.obj, e1, e2]

/-- the concrete pair: the same frame with `str(p)` raising and not raising yields the same snapshot except for the
    value of `p`'s entry, which is the placeholder -/
example :
    (match collect Ex.strRaises ⟨⟨40, 1024, 10, 5⟩, Ex.frame0, []⟩, collect Ex.strFine ⟨⟨40, 1024, 10, 5⟩, Ex.frame0, []⟩ with
      | .ok s, .ok s' =>
        decide (s.frames = s'.frames ∧
          s.table.map (fun e => (e.vid, e.ty, e.children, e.depth)) = s'.table.map (fun e => (e.vid, e.ty, e.children, e.depth)) ∧
          s.table.map (·.value) = ["<Broken>@1", "5"] ∧ s'.table.map (·.value) = ["fine", "5"])
      | _, _ => false) = true := by decide

/-! ### independence -/

/-- tripwire: each action of a trace event collects into its own identity cache and its own table (re-checked against
    the source on every run) -/
theorem c06_scopes : cacheScope = .perAction ∧ tableScope = .perAction := by decide

/-- tripwire: a new limits object on every read, every processor is given its config (no shared default instance) -/
theorem c06_config_channels : configFreshPerRead = true ∧ processorsGetConfig = true := by decide

/-- model lemma: **independent** — the snapshots of the actions of one trace event are the snapshots each action would produce on
    its own: whatever the other actions are, whatever they collected before, whatever state the trigger hands on. -/
theorem c06_independent (H : Heap) (ts : TrigState) (as : List ActionIn) :
    processActions H ts as = as.map (snapshotAction H) := by
  induction as generalizing ts with
  | nil => rfl
  | cons a as ih =>
    simp only [processActions, List.map_cons]
    rw [ih]
    have h1 : cacheScope = .perAction := c06_scopes.1
    have h2 : tableScope = .perAction := c06_scopes.2
    simp only [h1, h2, collect, snapshotAction]


/-- model lemma: one action's snapshot does not change when another action is put before it or after it -/
theorem c06_others_do_not_matter (H : Heap) (ts : TrigState) (pre post : List ActionIn) (a : ActionIn) :
    (processActions H ts (pre ++ a :: post))[pre.length]? = some (snapshotAction H a) := by
  rw [c06_independent]
  simp

/-- model lemma: two actions with the same limits and the same watches at one location get equal snapshots (equal,
    non-emptied frames; nothing is shared: each is a value of its own) -/
theorem c06_same_location_equal (H : Heap) (ts : TrigState) (a : ActionIn) :
    processActions H ts [a, a] = [snapshotAction H a, snapshotAction H a] := by
  rw [c06_independent]; rfl

/-- with a cache handed from action to action (the code before the fix of D8) the second action's frame is empty:
    the model is sensitive to the scopes -/
example : (match (collectFrom Ex.nested ⟨⟨40, 1024, 10, 5⟩, Ex.frame0, []⟩
      (collectFrom Ex.nested ⟨⟨40, 1024, 10, 5⟩, Ex.frame0, []⟩ [] []).cache []).outcome with
    | .ok s => s.frames | .failed _ => [[⟨0, "", [], none, 0⟩]]) = [[]] := by decide

/-- non-vacuity: the hostile heaps are in the domain of `c06_total` like any other -/
example : Benign Ex.hostile := benign_all _

end C06
